"""Reference semantics of the 3-byte length-prefixed framing (C05), written from the property
statement.  Pure functions in the restricted Python that PyVC translates to SMT and that CPython
executes as the reference in replay / bounded checks."""
from pyvc.lang import *


@spec
def be24(n: Int) -> SeqInt:
    return [n // 65536, (n // 256) % 256, n % 256]


@spec
def hdr_len(b: SeqInt) -> Int:
    return b[0] * 65536 + b[1] * 256 + b[2]


@spec
def incomplete(b: SeqInt) -> Bool:
    """no complete frame at the head of b"""
    return len(b) < 3 or len(b) < 3 + hdr_len(b)


@spec
def wf_stream(b: SeqInt) -> Bool:
    """b is a prefix of a stream of NON-EMPTY frames (the quantifier of C05): no zero length header
    at a frame boundary.  Under this precondition an implementation is free to treat a bare
    00 00 00 header either way, so the contract does not pin that choice."""
    if len(b) < 3:
        return True
    if hdr_len(b) == 0:
        return False
    if len(b) < 3 + hdr_len(b):
        return True
    return wf_stream(b[3 + hdr_len(b):])


@spec
def parse_frames(b: SeqInt) -> SeqBytes:
    if incomplete(b):
        return []
    return [b[3:3 + hdr_len(b)]] + parse_frames(b[3 + hdr_len(b):])


@spec
def parse_rest(b: SeqInt) -> SeqInt:
    if incomplete(b):
        return b
    return parse_rest(b[3 + hdr_len(b):])


@spec
def frames_bytes(F: SeqBytes) -> SeqInt:
    if len(F) == 0:
        return []
    return be24(len(F[0])) + F[0] + frames_bytes(F[1:])


@spec
def frames_ok(F: SeqBytes) -> Bool:
    """every frame is a non-empty byte string shorter than 2**24"""
    return forall(range(0, len(F)), lambda i: len(F[i]) >= 1 and len(F[i]) < 16777216 and is_bytes(F[i]))


# ---- the history of a connection: chunks handed to receive(), one after the other -------------------
@spec
def concat(C: SeqBytes) -> SeqInt:
    if len(C) == 0:
        return []
    return concat(C[:-1]) + C[-1]


@spec
def buf_after(C: SeqBytes) -> SeqInt:
    """_read_buffer after receive() was called with C[0], C[1], ... (by receive's postcondition)"""
    if len(C) == 0:
        return []
    return parse_rest(buf_after(C[:-1]) + C[-1])


@spec
def delivered(C: SeqBytes) -> SeqBytes:
    """all frames handed upward by those calls, in order (by receive's postcondition)"""
    if len(C) == 0:
        return []
    return delivered(C[:-1]) + parse_frames(buf_after(C[:-1]) + C[-1])
