"""Reference semantics of WhatsApp media encryption (C15): derived IV/keys, always-padded AES-CBC,
10-byte truncated HMAC-SHA256 over IV and ciphertext.  The primitives are uninterpreted for the
prover (assumed contracts, see contracts/C15_media.py); their native bodies are an INDEPENDENT
implementation (hashlib / hmac / HKDF from RFC 5869) except AES, which uses the `cryptography` library."""
from pyvc.lang import *


@spec(uninterpreted=True)
def hkdf(k: SeqInt, info: SeqInt, n: Int) -> SeqInt:
    import hashlib
    import hmac as _hmac
    prk = _hmac.new(bytes(32), bytes(k), hashlib.sha256).digest()
    out, t, i = b'', b'', 1
    while len(out) < n:
        t = _hmac.new(prk, t + bytes(info) + bytes([i]), hashlib.sha256).digest()
        out += t
        i += 1
    return list(out[:n])


@spec(uninterpreted=True)
def cbc_enc(key: SeqInt, iv: SeqInt, x: SeqInt) -> SeqInt:
    from cryptography.hazmat.primitives.ciphers import Cipher, algorithms, modes
    from cryptography.hazmat.backends import default_backend
    e = Cipher(algorithms.AES(bytes(key)), modes.CBC(bytes(iv)), backend=default_backend()).encryptor()
    return list(e.update(bytes(x)) + e.finalize())


@spec(uninterpreted=True)
def cbc_dec(key: SeqInt, iv: SeqInt, x: SeqInt) -> SeqInt:
    from cryptography.hazmat.primitives.ciphers import Cipher, algorithms, modes
    from cryptography.hazmat.backends import default_backend
    d = Cipher(algorithms.AES(bytes(key)), modes.CBC(bytes(iv)), backend=default_backend()).decryptor()
    return list(d.update(bytes(x)) + d.finalize())


@spec(uninterpreted=True)
def hmac256(k: SeqInt, m: SeqInt) -> SeqInt:
    import hashlib
    import hmac as _hmac
    return list(_hmac.new(bytes(k), bytes(m), hashlib.sha256).digest())


@spec
def pad_n(x: SeqInt) -> Int:
    return 16 - len(x) % 16


@spec
def pkcs7_pad(x: SeqInt) -> SeqInt:
    """PKCS#7 for 128-bit blocks: ALWAYS appends n copies of n, 1 <= n <= 16"""
    return x + rep(pad_n(x), pad_n(x))


@spec
def pkcs7_ok(x: SeqInt) -> Bool:
    return (len(x) >= 16 and len(x) % 16 == 0 and 1 <= x[-1] and x[-1] <= 16
            and forall(range(len(x) - x[-1], len(x)), lambda i: x[i] == x[-1]))


@spec
def pkcs7_unpad(x: SeqInt) -> SeqInt:
    return x[:len(x) - x[-1]]


# ---- the layout of C15, from the statement -------------------------------------------------------------------------
@spec
def media_iv(k: SeqInt, info: SeqInt) -> SeqInt:
    return hkdf(k, info, 112)[0:16]


@spec
def media_key(k: SeqInt, info: SeqInt) -> SeqInt:
    return hkdf(k, info, 112)[16:48]


@spec
def media_mac_key(k: SeqInt, info: SeqInt) -> SeqInt:
    return hkdf(k, info, 112)[48:80]


@spec
def media_ct(p: SeqInt, k: SeqInt, info: SeqInt) -> SeqInt:
    return cbc_enc(media_key(k, info), media_iv(k, info), pkcs7_pad(p))


@spec
def media_mac(ct: SeqInt, k: SeqInt, info: SeqInt) -> SeqInt:
    return hmac256(media_mac_key(k, info), media_iv(k, info) + ct)[0:10]


@spec
def media_encrypt(p: SeqInt, k: SeqInt, info: SeqInt) -> SeqInt:
    return media_ct(p, k, info) + media_mac(media_ct(p, k, info), k, info)
