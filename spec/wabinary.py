"""Reference semantics of the WhatsApp binary-XML ("WAP") encoding - integers, list headers, raw byte
strings, nibble packing, tokens, JIDs.  Written from the format (DESIGN.md appendix B), not from
the code.  Restricted Python: translated to SMT by PyVC and executed by CPython in replay."""
from pyvc.lang import *


# ---- big-endian integers of 8 / 16 / 20 / 24 / 31 bits -------------------------------------------------
@spec
def be8(v: Int) -> SeqInt:
    return [v % 256]


@spec
def be16(v: Int) -> SeqInt:
    return [(v // 256) % 256, v % 256]


@spec
def be20(v: Int) -> SeqInt:
    return [(v // 65536) % 16, (v // 256) % 256, v % 256]


@spec
def be24w(v: Int) -> SeqInt:
    return [(v // 65536) % 256, (v // 256) % 256, v % 256]


@spec
def be31(v: Int) -> SeqInt:
    return [(v // 16777216) % 128, (v // 65536) % 256, (v // 256) % 256, v % 256]


@spec
def rd8(b: SeqInt) -> Int:
    return b[0]


@spec
def rd16(b: SeqInt) -> Int:
    return b[0] * 256 + b[1]


@spec
def rd20(b: SeqInt) -> Int:
    return (b[0] % 16) * 65536 + b[1] * 256 + b[2]


@spec
def rd24(b: SeqInt) -> Int:
    return b[0] * 65536 + b[1] * 256 + b[2]


@spec
def rd31(b: SeqInt) -> Int:
    return (b[0] % 128) * 16777216 + b[1] * 65536 + b[2] * 256 + b[3]


# ---- list headers --------------------------------------------------------------------------------------------
@spec
def enc_list_start(i: Int) -> SeqInt:
    """narrowest form: 0 | 248 n8 | 249 n16"""
    if i == 0:
        return [0]
    if i < 256:
        return [248] + be8(i)
    return [249] + be16(i)


@spec
def list_tag_ok(t: Int) -> Bool:
    return t == 0 or t == 248 or t == 249


@spec
def list_size(t: Int, b: SeqInt) -> Int:
    """size announced by list tag t followed by bytes b"""
    if t == 0:
        return 0
    if t == 248:
        return rd8(b)
    return rd16(b)


@spec
def list_hdr_len(t: Int) -> Int:
    """bytes consumed after the tag byte"""
    if t == 0:
        return 0
    if t == 248:
        return 1
    return 2


# ---- nibble / hex packing -----------------------------------------------------------------------------------------
@spec
def pk_nibble(c: Int) -> Int:
    """255-packing: digits, '-' and '.'"""
    if 48 <= c and c <= 57:
        return c - 48
    if c == 45:
        return 10
    if c == 46:
        return 11
    return -1


@spec
def pk_hex(c: Int) -> Int:
    """251-packing: digits and upper-case A-F"""
    if 48 <= c and c <= 57:
        return c - 48
    if 65 <= c and c <= 70:
        return c - 55
    return -1


@spec
def pk(v: Int, c: Int) -> Int:
    if v == 251:
        return pk_hex(c)
    if v == 255:
        return pk_nibble(c)
    return -1


@spec
def unpk_nibble(n: Int) -> Int:
    if 0 <= n and n <= 9:
        return n + 48
    if n == 10:
        return 45
    return 46


@spec
def unpk_hex(n: Int) -> Int:
    if 0 <= n and n <= 9:
        return n + 48
    return n + 55


@spec
def unpk(v: Int, n: Int) -> Int:
    if v == 251:
        return unpk_hex(n)
    return unpk_nibble(n)


@spec
def unpk_ok(v: Int, n: Int) -> Bool:
    return (v == 251 and 0 <= n and n <= 15) or (v == 255 and 0 <= n and n <= 11)


# ---- packed strings (tokens 251 / 255) ------------------------------------------------------------------------
@spec
def packable(v: Int, s: SeqInt) -> Bool:
    return forall(range(0, len(s)), lambda i: pk(v, s[i]) != -1)


@spec
def packed_at(v: Int, s: SeqInt, k: Int) -> Int:
    """byte k of the packed form: two symbols per byte, high nibble first, filler nibble 15"""
    return 16 * pk(v, s[2 * k]) + (pk(v, s[2 * k + 1]) if 2 * k + 1 < len(s) else 15)


@spec(uninterpreted=True)
def packed_seq(v: Int, s: SeqInt) -> SeqInt:
    """the (len(s)+1)//2 bytes of the packed form (characterised by the axiom packed_seq_def)"""
    return [packed_at(v, s, k) for k in range(0, (len(s) + 1) // 2)]


@spec
def can_pack(v: Int, s: SeqInt) -> Bool:
    return 0 < len(s) and len(s) < 128 and packable(v, s)


@spec
def pack_hdr(v: Int, s: SeqInt) -> SeqInt:
    return [v, (len(s) % 2) * 128 + (len(s) + 1) // 2]


@spec
def enc_bytes(s: SeqInt, packed: Bool) -> SeqInt:
    """the library's choice for a byte/char sequence: narrowest raw form, or packed when allowed and possible"""
    if len(s) >= 1048576:
        return [254] + be31(len(s)) + s
    if len(s) >= 256:
        return [253] + be20(len(s)) + s
    if packed and can_pack(255, s):
        return pack_hdr(255, s) + packed_seq(255, s)
    if packed and can_pack(251, s):
        return pack_hdr(251, s) + packed_seq(251, s)
    return [252] + be8(len(s)) + s


# ---- decoding of packed strings ---------------------------------------------------------------------------------
@spec
def nib(t: SeqInt, j: Int) -> Int:
    """j-th nibble of byte string t, high nibble first"""
    return t[j // 2] // 16 if j % 2 == 0 else t[j // 2] % 16


@spec
def packed_count(hb: Int) -> Int:
    """number of symbols announced by header byte hb = odd<<7 | nbytes"""
    return 2 * (hb % 128) - hb // 128


@spec
def dec_packed_ok(v: Int, b: SeqInt) -> Bool:
    """b starts with a valid packed string body (header byte, then the nibbles) for token v"""
    return (len(b) >= 1 and len(b) >= 1 + b[0] % 128 and packed_count(b[0]) >= 0
            and forall(range(0, packed_count(b[0])), lambda j: unpk_ok(v, nib(b[1:], j)))
            and (b[0] < 128 or nib(b[1:], 2 * (b[0] % 128) - 1) == 15))


@spec(uninterpreted=True)
def dec_packed_val(v: Int, b: SeqInt) -> SeqInt:
    """the symbols (characterised by the axiom dec_packed_val_def)"""
    return [unpk(v, nib(b[1:], j)) for j in range(0, packed_count(b[0]))]
