"""Reference statements for C20 (registration requests).  The hash / base64 / UTF-8 / AEAD primitives are uninterpreted
for the prover; their native bodies use the standard library (and `cryptography`) so the same text is the INDEPENDENT
implementation the real code is compared with in the bounded cross-check."""
from pyvc.lang import *

REF_SIGNATURE = "MIIDMjCCAvCgAwIBAgIETCU2pDALBgcqhkjOOAQDBQAwfDELMAkGA1UEBhMCVVMxEzARBgNVBAgTCkNhbGlmb3JuaWExFDASBgNVBAcTC1NhbnRhIENsYXJhMRYwFAYDVQQKEw1XaGF0c0FwcCBJbmMuMRQwEgYDVQQLEwtFbmdpbmVlcmluZzEUMBIGA1UEAxMLQnJpYW4gQWN0b24wHhcNMTAwNjI1MjMwNzE2WhcNNDQwMjE1MjMwNzE2WjB8MQswCQYDVQQGEwJVUzETMBEGA1UECBMKQ2FsaWZvcm5pYTEUMBIGA1UEBxMLU2FudGEgQ2xhcmExFjAUBgNVBAoTDVdoYXRzQXBwIEluYy4xFDASBgNVBAsTC0VuZ2luZWVyaW5nMRQwEgYDVQQDEwtCcmlhbiBBY3RvbjCCAbgwggEsBgcqhkjOOAQBMIIBHwKBgQD9f1OBHXUSKVLfSpwu7OTn9hG3UjzvRADDHj+AtlEmaUVdQCJR+1k9jVj6v8X1ujD2y5tVbNeBO4AdNG/yZmC3a5lQpaSfn+gEexAiwk+7qdf+t8Yb+DtX58aophUPBPuD9tPFHsMCNVQTWhaRMvZ1864rYdcq7/IiAxmd0UgBxwIVAJdgUI8VIwvMspK5gqLrhAvwWBz1AoGBAPfhoIXWmz3ey7yrXDa4V7l5lK+7+jrqgvlXTAs9B4JnUVlXjrrUWU/mcQcQgYC0SRZxI+hMKBYTt88JMozIpuE8FnqLVHyNKOCjrh4rs6Z1kW6jfwv6ITVi8ftiegEkO8yk8b6oUZCJqIPf4VrlnwaSi2ZegHtVJWQBTDv+z0kqA4GFAAKBgQDRGYtLgWh7zyRtQainJfCpiaUbzjJuhMgo4fVWZIvXHaSHBU1t5w//S0lDK2hiqkj8KpMWGywVov9eZxZy37V26dEqr/c2m5qZ0E+ynSu7sqUD7kGx/zeIcGT0H+KAVgkGNQCo5Uc0koLRWYHNtYoIvt5R3X6YZylbPftF/8ayWTALBgcqhkjOOAQDBQADLwAwLAIUAKYCp0d6z4QQdyN74JDfQ2WCyi8CFDUM4CaNB+ceVXdKtOrNTQcc0e+t"
REF_MD5_CLASSES = "WuFH18yXKRVezywQm+S24A=="
REF_KEY = "eQV5aq/Cg63Gsq1sshN9T3gh+UUp0wIw0xgHYT1bnCjEqOJQKCRrWxdAe2yvsDeCJL+Y4G3PRD2HUF7oUgiGo8vGlNJOaux26k+A2F3hj8A="


@spec(uninterpreted=True)
def b64dec(s: SeqInt) -> SeqInt:
    import base64
    return list(base64.b64decode(bytes(s)))


@spec(uninterpreted=True)
def b64enc(b: SeqInt) -> SeqInt:
    import base64
    return list(base64.b64encode(bytes(b)))


@spec(uninterpreted=True)
def sha1(b: SeqInt) -> SeqInt:
    import hashlib
    return list(hashlib.sha1(bytes(b)).digest())


@spec(inline=True)
def utf8(s: SeqInt) -> SeqInt:
    """str.encode(): the UTF-8 bytes (the model of the Python builtin, pyvc/builtins_model.py)"""
    return py_utf8(s)


@spec(inline=True)
def xor_pad(c: Int, k: SeqInt) -> SeqInt:
    """the first 64 key bytes xor-ed with the pad constant (RFC 2104: K xor ipad / opad, block size 64)"""
    return [bxor(c, k[j]) for j in range(0, 64)]


@spec(inline=True)
def wa_token(phone: SeqInt) -> SeqInt:
    """WhatsApp's keyed SHA-1 over signature || class digest || number: HMAC-SHA1 (RFC 2104) with the first 64 key
    bytes, base64 encoded"""
    return b64enc(sha1(xor_pad(92, b64dec(REF_KEY)) + sha1(xor_pad(54, b64dec(REF_KEY))
                                                           + (b64dec(REF_SIGNATURE) + (b64dec(REF_MD5_CLASSES) + utf8(phone))))))


# ---- percent-encoding ---------------------------------------------------------------------------------------------------
@spec(uninterpreted=True)
def quote1(c: SeqInt) -> SeqInt:
    """urllib.parse.quote(c, safe='') of ONE character (RFC 3986: unreserved A-Za-z0-9_.-~ stay, everything else is the
    %XX of its UTF-8 bytes, upper-case hex)"""
    import urllib.parse
    return [ord(x) for x in urllib.parse.quote(''.join(map(chr, c)), safe='')]


@spec(uninterpreted=True)
def ascii_lower(s: SeqInt) -> SeqInt:
    return [ord(x) for x in ''.join(map(chr, s)).lower()]


@spec
def q_char(c: SeqInt) -> SeqInt:
    """the library's per-character encoding: escapes in lower case"""
    if quote1(c)[0] != 37:
        return quote1(c)
    return ascii_lower(quote1(c))


@spec
def enc_chars(v: SeqInt) -> SeqInt:
    if len(v) == 0:
        return []
    return enc_chars(v[:-1]) + q_char([v[-1]])


@spec(uninterpreted=True)
def replace1(s: SeqInt, a: SeqInt, b: SeqInt) -> SeqInt:
    """str.replace(a, b)"""
    return [ord(x) for x in ''.join(map(chr, s)).replace(''.join(map(chr, a)), ''.join(map(chr, b)))]


@spec(inline=True)
def wa_urlencode(v: SeqInt) -> SeqInt:
    """per character quoting, then the three extra escapes for - _ ~"""
    return replace1(replace1(replace1(enc_chars(v), [45], [37, 50, 100]), [95], [37, 53, 102]), [126], [37, 55, 101])
