"""Per-property configuration of the checks (which sidecars, which level, stated assumptions)."""

COMMON_ASSUMPTIONS = [
    "Python semantics as encoded by PyVC (DESIGN.md section 4): unbounded ints; // and % only by positive constants; "
    "static typing by contract; dict insertion order; no concurrency (every function verified as if it ran alone)",
    "bit operations encoded arithmetically (mask/shift by constants; a|b as a+b under a proved disjointness side condition)",
    "log statements (logger.*(), print) are dropped by the front end; %-formatting errors inside log arguments are not modelled",
    "opaque callees (events) do not mutate objects they were not handed and do not re-enter the object under verification",
    "termination of the solver: an obligation is discharged only on `unsat`; unknown/timeout is never a pass",
]

PROPS = {
    'C05': {
        'sidecars': ['contracts/C05_framing.py'],
        'level': 'proof',
        'explanation': 'All obligations generated from YowNoiseSegmentsLayer.send/receive and the spec-level lemmas '
                       '(parse_append, roundtrip, chunking, c05_receive) discharged: unbounded in frame count, frame size and chunking.',
        'assumptions': [
            "YowLayer.getProp/toUpper/toLower are opaque events (getProp does not raise; toUpper/toLower may raise anything)",
            "struct.pack('>I', n) / struct.unpack('>I', b) = 4-byte big-endian (validated natively over boundary values)",
        ],
    },
}

NOT_APPLICABLE = {
    'C11': 'quantifies over thread interleavings (2-4 sender threads through lock/queue operations); no verifier available here '
           'has a thread or permission model and sequential contracts cannot express "for every schedule" (DESIGN.md section 8)',
}
