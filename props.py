"""Per-property configuration of the checks (which sidecars, which level, stated assumptions)."""

COMMON_ASSUMPTIONS = [
    "Python semantics as encoded by PyVC (DESIGN.md section 4): unbounded ints; // and % only by positive constants; "
    "static typing by contract; dict insertion order; no concurrency (every function verified as if it ran alone)",
    "bit operations encoded arithmetically (mask/shift by constants; a|b as a+b under a proved disjointness side condition)",
    "log statements (logger.*(), print) are dropped by the front end; %-formatting errors inside log arguments are not modelled",
    "opaque callees (events) do not mutate objects they were not handed and do not re-enter the object under verification",
    "termination of the solver: an obligation is discharged only on `unsat`; unknown/timeout is never a pass",
]

PROPS = {
    'C05': {
        'sidecars': ['contracts/C05_framing.py'],
        'level': 'proof',
        'explanation': 'All obligations generated from YowNoiseSegmentsLayer.send/receive and the spec-level lemmas '
                       '(parse_append, roundtrip, chunking, c05_receive) discharged: unbounded in frame count, frame size and chunking.',
        'assumptions': [
            "YowLayer.getProp/toUpper/toLower are opaque events (getProp does not raise; toUpper/toLower may raise anything)",
            "struct.pack('>I', n) / struct.unpack('>I', b) = 4-byte big-endian (validated natively over boundary values)",
        ],
    },
}

_CODEC_NOTE = ('Proved for all inputs (no bound): every integer / list-header / raw-bytes / nibble-packing writer of the encoder '
               'equals the reference encoding (spec/wabinary.py), every matching reader of the decoder equals the reference '
               'decoding, and the spec-level round-trip lemmas (rt_int8/16/20/31, rt_list_start, rt_pack, rt_packed) connect them. '
               'Token dictionary lookups (TokenDictionary.getToken / getIndex against the two tables as sequences: every primary entry 0..235 '
               'incl. the last, first match, secondary fall-back; ReadDecoder.getToken / getTokenDouble) are under discharged contracts '
               '(contracts/C01_tokens.py).  writeString / writeJid / readString are under contracts that pin the CHOICE of wire form and the '
               'arguments handed to the leaf writers / readers (token vs. JID split at the first @ vs. literal, one reader per token class), with '
               'the callees as events (contracts/C01_strings.py) - not a functional spec of the recursion; likewise the tree level: writeInternal '
               '(list header 1 + 2*attributes + content + children, then tag, attributes, content, children count and every child once in order '
               '- loop invariant over the child events) and nextTreeInternal (header, tag, (size-1)/2 attribute pairs, exactly one content reader '
               'for an even size), and the flags byte of getProtocolTreeNode (zlib stream when bit 2 is set).  writeAttributes / readAttributes / '
               'readList (iteration over a symbolic dict / list of recursive results) and the END-TO-END round trip of strings and trees are '
               'decided by the bounded stand-in only.')

PROPS['C01'] = {
    'sidecars': ['contracts/C01_codec.py', 'contracts/C01_tokens.py', 'contracts/C01_strings.py'],
    'level': 'other',
    'explanation': _CODEC_NOTE + ' Bounded stand-in: real encoder -> real decoder on generated well-formed trees with strict comparison.',
    'native_checks': [{'name': 'c01_roundtrip', 'cmd': ['bounded/codec_check.py', 'c01'],
                       'bound': 'quick: 400 random trees (depth<=3, lists up to 300, attrs up to 200) + 3 trees with >=1 MiB payloads + every '
                                'dictionary token + packed strings of every length 1..255; thorough: 6000 + 25'}],
    'assumptions': ['binascii.hexlify / unhexlify, bytes.upper, struct, zlib modelled by axioms (pyvc/builtins_model.py); '
                    'the finite-domain ones are validated natively',
                    'packed_seq / dec_packed_val are uninterpreted spec functions characterised by an assumed definitional axiom'],
    'technique': 'contract-based deductive verification of the leaf functions (VCs from the real ast, z3/cvc5); '
                 'tree level: bounded native round trip (labelled bounded)',
}
PROPS['C02'] = {
    'sidecars': ['contracts/C01_codec.py', 'contracts/C01_tokens.py', 'contracts/C01_strings.py'],
    'level': 'other',
    'explanation': _CODEC_NOTE + ' Bounded stand-in: real encoder -> independent reference decoder; reference encoder with random choice '
                   'vectors -> real decoder; dictionary compared entry by entry with the reference copy; table facts.',
    'native_checks': [{'name': 'c02_conformance', 'cmd': ['bounded/codec_check.py', 'c02'],
                       'bound': 'same tree set as C01 x 2 (quick) / 6 (thorough) random choice vectors incl. deflate; 1260 dictionary entries '
                                'compared exhaustively'}],
    'assumptions': [
        'the reference dictionary copy (spec/data/wa_dictionary.json) is a snapshot of the pinned commit: it detects later shifts, '
        'insertions or edits, not an error already present at the pin',
        'the independent implementation is bounded/wa_ref.py, written from the format grammar (DESIGN.md appendix B)'],
    'technique': 'contract-based deductive verification of the leaf functions against a reference spec; '
                 'conformance of whole frames: bounded differential check against an independent implementation',
}

PROPS['C12'] = {
    'sidecars': ['contracts/C12_locks.py', 'contracts/C05_framing.py'],
    # the segment layer's contracts are read in their own registry (same file as C05 uses): their exceptional clauses are a C12 conjunct
    'sidecar_groups': [['contracts/C12_locks.py'], ['contracts/C05_framing.py']],
    'level': 'proof',
    'explanation': 'Exceptional postconditions ("on every exit, normal or by any exception of the callee") discharged for the functions '
                   'that hold a lock across a call into a neighbouring layer: YowLayer.toLower, YowNoiseLayer._flush_incoming_buffer, '
                   'YowIqProtocolLayer.gotPong / waitPong: the lock is free again on every exit, the callee exception reaches the caller. '
                   'Also the state a failure leaves behind in the segment layer (the contracts of C05, re-discharged here): when the layer '
                   'above raises while a frame is handed upward, that frame has already been taken out of the read buffer and what remains '
                   'parses to exactly the frames not yet delivered, so the failed frame is not delivered again and later frames are; an '
                   'oversized outgoing frame is refused before anything is written. '
                   'Decides the sequential conjuncts of C12 only: "no lock stays held", "error reported to the caller", "no stale state in '
                   'the framing buffer"; other-thread '
                   'follow-ups and "nothing blocks forever" as a liveness claim are not decided (no thread model).',
    'assumptions': ['threading.Lock: assumed sequential contract (acquire requires not held by this thread, release requires held)',
                    'queue.Queue.qsize, WANoiseProtocol.receive, the neighbouring layers: opaque events that may raise anything',
                    'termination of the flush loop is not proved (partial correctness), stated in trusted_base'],
}

PROPS['C15'] = {
    'sidecars': ['contracts/C15_media.py'],
    'level': 'proof',
    'explanation': 'MediaCipher.encrypt equals the reference layout media_encrypt (derived IV/key/MAC key, ALWAYS padded AES-CBC, '
                   '10-byte truncated HMAC over IV||ciphertext) for every plaintext, key and info string; decrypt returns only when the '
                   'tag matches and raises ValueError otherwise, with no decryptor created before the comparison; the eight wrappers use '
                   'the reference constants pairwise; spec lemma c15_roundtrip: decrypt(encrypt(p)) == p for all p (incl. empty and block '
                   'aligned).  Relative to assumed contracts of HKDF / AES-CBC / PKCS7 / HMAC.  NOT decided: that a wrong key / kind / '
                   'tampered byte fails the MAC - that is the unforgeability of HMAC-SHA256 truncated to 80 bits (an assumption); the '
                   'bounded cross-check exercises it on generated corruptions.',
    'native_checks': [{'name': 'c15_cross_check', 'role': 'cross-check', 'cmd': ['-m', 'pyvc.native', 'searchall', 'contracts/C15_media.py'],
                       'bound': 'real MediaCipher vs the independent implementation in spec/media.py (hashlib/hmac, HKDF from RFC 5869, '
                                'PKCS7 from the definition; AES from the cryptography library): plaintext lengths 0..65 exhaustively + larger, '
                                '4 kinds, single-bit corruption, truncation, wrong key, wrong kind; quick 150 / thorough 3000 per function'}],
    'assumptions': ['assumed contracts of HKDFv3.deriveSecrets, ByteUtil.split, cryptography Cipher/AES/CBC/PKCS7, hmac (contracts/C15_media.py, '
                    'reason fields); AES-CBC decrypt inverts encrypt; output lengths',
                    'HMAC-SHA256/80 unforgeability is NOT proved (cannot be): tamper rejection is decided only as "returns iff tag matches"'],
}

PROPS['C08'] = {
    'sidecars': ['contracts/C08_iq.py'],
    'level': 'proof',
    'explanation': 'Both iq registries (YowProtocolLayer for library-internal requests, YowInterfaceLayer for application requests) under '
                   'contract with the registry abstracted as a finite map id -> (request, onSuccess, onError); every postcondition speaks '
                   'about the WHOLE map: _sendIq adds exactly the entry (before the stanza goes down), processIqRegistry on a reply removes '
                   'exactly that entry BEFORE dispatch and invokes exactly the matching callback once with (reply, original request); unknown '
                   'ids, replayed replies and non-iq stanzas invoke nothing, leave the map unchanged and continue as ordinary stanzas '
                   '(receive: handler / entity callback / toUpper exactly once). The history claim (any interleaving of k outstanding requests '
                   'and replies) follows by induction over these per-operation contracts. NOT yet under contract: the per-kind continuations '
                   'of the protocol layers (transport half: that each sendIq registers both a success and an error continuation).',
    'assumptions': ['entity.getId/getTag/getType are pure getters (same entity, same answer); callbacks and handlers are opaque calls that '
                    'may raise; toLower/toUpper opaque', 'ProtocolEntity._generateId uniqueness is not covered here'],
}

PROPS['C18'] = {
    'sidecars': ['contracts/C18_stack.py', 'contracts/C18_init.py'],
    # separate registries: the helper contracts of C18_stack.py see YowStack.__init__ as one opaque constructor event, C18_init.py puts that
    # constructor itself under contract (and sees _construct as one event)
    'sidecar_groups': [['contracts/C18_stack.py'], ['contracts/C18_init.py']],
    'level': 'other',
    'explanation': 'Proved (no bound): the default helpers getCoreLayers / getProtocolLayers / getDefaultLayers / getDefaultStack for all 32 '
                   'flag combinations x with/without a top layer (layer order, exactly the selected optional modules, call-binding safety), '
                   'builder push / pop / pushDefaultLayers / build as tuple algebra over a symbolic layer tuple, YowStack.send / receive / '
                   'emitEvent / broadcastEvent / getProp / setProp, one hop of the data path and of the event walk in YowLayer (toUpper, '
                   'emitEvent, broadcastEvent with stop-on-true and the detached hand-off, onEvent) and the fan-out loops of '
                   'YowParallelLayer.receive / send (every member, in order; loop invariants, unbounded group size), the group\'s onEvent, '
                   'addPostConstructLayer and the assembly step YowStack._construct (two loop invariants, unbounded stack height: one '
                   'instance per entry in entry order, each told its stack once, each wired once to the instance directly above and '
                   'directly below, None at the two ends; WHICH object an entry becomes - the instance itself, a new instance of the class, '
                   'a group for a tuple - rests on inspect.isclass / issubclass / the call of the entry and is left unconstrained). '
                   'The constructor YowStack.__init__ (own sidecar): the given sequence is read bottom-first as it is, or reversed '
                   'element by element when reversed=True, and the assembly step runs exactly once, on an empty instance list. '
                   'Bounded stand-in (labelled bounded): what _construct makes of each entry, YowParallelLayer method substitution / '
                   'getLayerInterface and the event walk through whole assembled stacks, on all shapes up to depth 3-4 plus random '
                   'shapes to depth 6 with groups of 1-4, four construction conventions, every consumer position, detached and normal.',
    'native_checks': [{'name': 'c18_stack_shapes', 'cmd': ['bounded/stack_check.py'],
                       'bound': 'quick: 340 shapes (depth<=3 exhaustive over widths {plain,1,2,4}) + 20 random to depth 6, x4 conventions, '
                                'x every consumer level x detached/normal; 32 default-stack flag combinations with real layers'}],
    'assumptions': ['YowStack.__init__ and YowParallelLayer.__init__ are opaque constructor events in the helper contracts; __init__ and '
                    '_construct are each verified against their own contract, the composition (what _construct leaves is what send / receive / '
                    'emitEvent later find) is covered by the bounded stand-in',
                    'inspect.isclass, issubclass on a value of unknown class and the call of a stack entry are opaque: unconstrained answers, '
                    'the call returns some object and may raise anything (propagated)',
                    'setStack / setLayers of the instances are opaque events (YowLayer.setLayers is two assignments; the link frame scan of '
                    'the bounded stand-in checks that nothing else writes the links)', 'layers above/below are opaque objects whose onEvent result is an arbitrary value',
                    'the closure handed to execDetached is not executed symbolically (the bounded stand-in drains the queue)'],
}

PROPS['C13'] = {
    'sidecars': ['contracts/C13_store.py'],
    'plugins': ['sqlmodel'],
    'level': 'proof',
    'explanation': 'Every method of LiteSessionStore / LiteIdentityKeyStore (saveIdentity, isTrustedIdentity, getLocalRegistrationId) / '
                   'LitePreKeyStore / LiteSignedPreKeyStore / LiteSenderKeyStore under contract against an abstract table view: functional '
                   'postconditions over the WHOLE table, durability (D == W at return) and crash atomicity asserted after EVERY statement '
                   'and commit event of the call (the record being replaced is its previous or its new value, never missing if it existed; '
                   'all other records untouched). setAsSent: loop invariant, flags exactly the given ids in one transaction. '
                   'Relative to the assumed transactional model of sqlite3; the SQL effects are derived from the real statement literals '
                   'and the real CREATE TABLE text on every run. The history x crash-point x reopen claim follows by induction '
                   '(precondition W == D is re-established by every operation).',
    'native_facts': [{'name': 'sqlite3 model probes', 'cmd': ['bounded/sqlite_probe.py']}],
    'assumptions': ['transactional model of sqlite3 (pyvc/sqlmodel.py): DML acts on the working state, commit() is atomic, a crash leaves '
                    'the durable state; validated by bounded/sqlite_probe.py against the real module on every run',
                    'python-axolotl record classes are pure functions of their serialized bytes; record.serialize() is a pure getter',
                    'whole-table SELECTs (all rows / unsent rows / max key) are uninterpreted functions of the table state',
                    'LiteIdentityKeyStore.__init__/_storeLocalData/getIdentityKeyPair and LiteAxolotlStore delegations are not under contract'],
}

PROPS['C16'] = {
    'sidecars': ['contracts/C16_lifecycle.py', 'contracts/C12_locks.py'],
    'level': 'other',
    'explanation': 'Per-handler contracts and the state invariant, all discharged: network layer (onConnected / onDisconnected / '
                   'onConnectionError / onConnectLayerEvent / onDisconnectLayerEvent / createConnection / destroyConnection / send / receive) '
                   'with the invariant state==CONNECTED => connected, connected => state in {CONNECTED, DISCONNECTING} and a dispatcher exists: '
                   'a connect announces itself once, a down-announcement is emitted exactly on a state change (once per connection that was '
                   'up or being set up), nothing is written unless connected, a connect resets the disconnect reason and creates a fresh '
                   'dispatcher; asyncore dispatcher callbacks alternate; authentication layer: connected -> one login broadcast with the '
                   'passive prop, success -> one AUTHED broadcast then the entity, failure -> entity up then one DISCONNECT; interface: stream '
                   'error delivered, reconnect iff option on and not a conflict, pending reconnect consumed by exactly one connect; iq '
                   'keep-alive: waitPong/gotPong (queue size, DISCONNECT broadcast iff >= 2 outstanding), stop_thread/onDisconnect(ed). '
                   'The history claim (all event histories) follows by induction over these handlers and is NOT mechanised: level other. '
                   'Not decided: anything depending on the ping thread racing the network thread; onAuthed (thread start) and the socket '
                   'dispatcher are not under contract.',
    'assumptions': ['the dispatcher object, getProp, emitEvent/broadcastEvent/toUpper and the entity parsers are opaque events',
                    'opaque events do not re-enter the layer: the asyncore dispatcher reports a close synchronously from disconnect() '
                    '(handle_close -> onDisconnected), so after destroyConnection the real state is already DISCONNECTED; the contract '
                    'therefore pins the state at the MOMENT of dispatcher.disconnect (DISCONNECTING, reason stored) and each handler '
                    'separately, not their nesting',
                    'threading.Lock sequential model (from C12)', 'event delivery order between layers is taken from C18'],
}

PROPS['C07'] = {
    'sidecars': ['contracts/C07_media.py'],          # imports C07_acks -> C08_iq
    'level': 'other',
    'explanation': 'Discharged for all stanzas (symbolic node: any tag, attributes, children): notifications layer - every non-raising path of '
                   'recvNotification ends with exactly one ack carrying id, class notification, type, sender (to) and participant, the only '
                   'raising path is the picture notification that is neither set nor delete (by design); calls layer - offer -> one receipt '
                   'with the offer/call-id child, anything else -> one ack of class call, entity forwarded once; iq layer - urn:xmpp:ping -> '
                   'one pong (type result, xmlns w:p, same id); AxolotlControlLayer - encrypt notifications (count / identity) acked once and '
                   'consumed, everything else forwarded upward exactly once; messages layer - a plain payload that is neither text, extended '
                   'text nor a pure key distribution -> exactly one receipt (id, to, participant), key-distribution-only payloads surface '
                   'nothing.  The REAL ack / receipt / pong / iq entity classes are executed symbolically (constructors, inheritance, '
                   'setAttribute).  NOT decided here: the composition over the parallel protocol layers of the full stack (that no second '
                   'layer also answers: C06): level other.  Media layer (contracts/C07_media.py): a media message of a type the library '
                   'cannot present -> exactly one receipt, the read-acknowledgement of the entity parsed from this stanza, nothing upward; a '
                   'presentable type -> delivered once, no receipt from here; MessageProtocolEntity.ack (scenario over the real classes): the '
                   'receipt names this message (id), goes to its sender, carries the participant of a group message, is a read receipt '
                   'exactly when asked for one.',
    'native_checks': [{'name': 'c07_cross_check', 'role': 'cross-check', 'cmd': ['-m', 'pyvc.native', 'searchall', 'contracts/C07_acks.py'],
                       'bound': 'the real handlers recvNotification / recvCall / recvIq under the same contracts, with the REAL entity parsers '
                                '(fromProtocolTreeNode) called through instead of abstracted: generated stanzas (8 notification types incl. '
                                'unknown and empty, 5 sender shapes, every attribute optionally absent, picture set/delete/neither children, call '
                                'offer/terminate/other children with and without call-id, pings with and without id), 10% failing transports; '
                                'quick 150 / thorough 3000 stanzas per handler'}],
    'assumptions': ['ProtocolTreeNode.getChild is an assumed pure function of (node, tag); entity parsers (fromProtocolTreeNode) of '
                    'notification/call/encrypt entities and the protobuf converter are opaque events (total on their documented shape: C09/C10)',
                    'toLower/toUpper opaque'],
}

PROPS['C20'] = {
    'sidecars': ['contracts/C20_registration.py'],
    'level': 'other',
    'explanation': 'Proved for ALL inputs: AndroidYowsupEnv.getToken(phone) equals the RFC 2104 construction written independently '
                   '(b64(sha1((K xor opad) || sha1((K xor ipad) || signature || class digest || utf8(phone)))) with the first 64 key bytes; the '
                   'three embedded constants are compared with reference copies; sha1/base64/utf8 uninterpreted, congruence suffices); '
                   'WARequest.urlencode for str values equals the reference per-character encoding (loop invariant) followed by the three '
                   'extra escapes; WARequest.encryptParams produces exactly one fresh ephemeral key pair and the blob '
                   'b64(ephemeral_pub[1:] || AES-GCM(agreement(server key, ephemeral priv), nonce 0^12, utf8(encoded params), no aad)) as the '
                   'single ENC parameter, nothing cached on the request object; WARequest.urlencodeParams joins name=encoded(value) pairs with & in '
                   'the original order, repeated names included (proved for lists of exactly three parameters: bounded in the number of '
                   'parameters only).  Bounded (labelled bounded): that standard percent-decoding '
                   'returns the original value for str / bytes / int values and that the blob decrypts with the matching private key - '
                   'cross-checked natively against urllib.parse.unquote_to_bytes, hmac/hashlib and cryptography.',
    'native_checks': [{'name': 'c20_cross_check', 'role': 'stand-in', 'cmd': ['bounded/registration_check.py'],
                       'bound': 'quick: 334 phone strings, 1344 values (every byte, code points 0..0x2FF and plane boundaries, random str/bytes/int), '
                                '60 parameter lists, 15 encrypted blobs with random recipient keys; thorough: x60'}],
    'assumptions': ['hashlib.sha1, base64, str.encode, urllib.parse.quote (one character), str.lower, str.replace, Curve25519 agreement and AES-GCM '
                    'are assumed contracts / uninterpreted functions; urlencodeParams is an opaque event inside encryptParams',
                    'urlencode is proved for str values only (bytes / int values: bounded)'],
}

PROPS['C17'] = {
    'sidecars': ['contracts/C03_sendpaths.py'],      # imports C03_e2e -> C17_identity -> C13_store
    'plugins': ['sqlmodel'],
    'level': 'other',
    'explanation': 'Decision logic under contract, all discharged: LiteIdentityKeyStore.isTrustedIdentity (trusted iff no row or byte-equal '
                   'to the pinned key) and saveIdentity (the pin is replaced in one transaction: previous or new value at every crash point, '
                   'never un-pinned; durable, hence enforced after restart) - shared with C13; AxolotlManager.create_session: an untrusted '
                   'bundle without auto-trust raises the library exception and touches nothing, with auto-trust exactly one saveIdentity of '
                   'exactly that key for exactly that contact, a trusted bundle never writes the pin; trust_identity; '
                   'AxolotlReceivelayer.handleEncMessage (about 1000 paths): the pinned key is only ever touched when the auto-trust option is on '
                   '(stack property, default OFF), and every outcome of the decryption is pinned to its reaction (see C03 (h)): in '
                   'particular an untrusted identity without auto-trust leads to NOTHING (no pin change, no receipt, no retry, no key fetch) '
                   'and with auto-trust to trust_identity before the message is handled again.  NOT decided: that messaging '
                   'resumes after auto-trust and that no message is encrypted for the new identity (inside python-axolotl: SessionBuilder / '
                   'SessionCipher under assumed contracts): level other.  Send side (contracts/C03_sendpaths.py): the continuation of a key '
                   'fetch (getKeysFor) attempts one session per answered jid with ITS bundle and the auto-trust property with default OFF, '
                   'a refused jid is absent from the success list it reports (proved for requests of two distinct jids - bounded in the number '
                   'of requested jids only), and processPlaintextNodeAndSend encrypts for the contact only after a fetch that reported no '
                   'error: an identity refused on the send side means nothing is encrypted or sent.',
    'assumptions': ['SessionBuilder.processPreKeyBundle raises UntrustedIdentityException(name, key) iff isTrustedIdentity is false and stores '
                    'nothing before (read from the installed python-axolotl source)', 'sqlite3 transactional model (C13)',
                    'the decrypt handlers, send_retry, getKeysFor are opaque events in handleEncMessage; termination of the auto-trust recursion '
                    'is not proved'],
}

PROPS['C14'] = {
    'sidecars': ['contracts/C14_prekeys.py'],
    'plugins': ['sqlmodel'],
    'level': 'other',
    'explanation': 'Per-operation contracts, all discharged: LitePreKeyStore (shared with C13: storePreKey never reuses an id and stores with '
                   'the flag unset; setAsSent flags exactly the given ids in one transaction; loadUnsentPendingPreKeys returns exactly the '
                   'rows with flag NULL/0; loadMaxPreKeyId), AxolotlManager.set_prekeys_as_sent / load_unsent_prekeys, AxolotlControlLayer: '
                   'flush_keys sends exactly one upload whose SUCCESS continuation (executed symbolically) marks exactly the uploaded keys and '
                   'whose error continuation is onSentKeysError, which marks nothing; on_keys_flushed; onAuthed (a passive login with '
                   'unconfirmed keys re-offers exactly those keys); on_connected (unconfirmed keys are queued again, login made passive); '
                   'on_disconnected (the requested reconnect).  Frame by a scan of every AST of the repository: sent_to_server is written only '
                   'by setAsSent <- set_prekeys_as_sent <- on_keys_flushed <- the result continuation.  Hence flag=1 => confirmed (invariant).  '
                   'Bounded: adjustId over all 2^24 ids (thorough), upload stanza content with real python-axolotl keys incl. signature '
                   'verification, a history simulation on the real store.  NOT decided: key consumption after a first message (inside '
                   'python-axolotl), level_prekeys generation loop, connection loss at thread level: level other.',
    'native_checks': [{'name': 'c14_prekeys', 'role': 'stand-in', 'cmd': ['bounded/prekeys_check.py'],
                       'bound': 'frame scan (complete over the repository); adjustId: quick 3014 ids incl. boundaries, thorough all 2^24; '
                                '5/40 uploads with real keys; 3/30 manager-level histories of 3-7 restarts with batch size 6; 25/300 histories '
                                'through the real control-layer handlers with overlapping uploads, lost confirmations and restarts'}],
    'assumptions': ['sqlite3 transactional model (C13)', 'adjustId / adjustArray are assumed pure in the contract of flush_keys and validated natively',
                    'KeyHelper.generatePreKeys / generateSignedPreKey (python-axolotl) are outside the proofs',
                    'SetKeysIqProtocolEntity construction is an opaque event in flush_keys; its content is checked natively'],
}

PROPS['C19'] = {
    'sidecars': ['contracts/C19_config.py'],
    'level': 'other',
    'explanation': 'Discharged for all inputs, every file-system call being an event: StorageTools.writeProfileData follows the protocol '
                   '[isdir, makedirs if missing] open(sibling .tmp, text) - write(whole text) - flush - fileno - fsync - close - '
                   'replace(sibling, target) in exactly this order, the target is touched by nothing but that one rename, and on every '
                   'exceptional exit nothing was renamed or removed unless the sibling was complete (=> every crash point leaves the old or the '
                   'new file, given atomic rename); ConfigManager.save writes config.<ext of the format> through that function, removes a '
                   'left-over config in the other format only AFTER the new one is in place, writes dest= in text mode; '
                   'ConfigManager.load tries the path, then the first existing of config.yo / config.json in the profile directory (either '
                   'probing order), reads only; _load_path detects the format, reads once, uses the parser of the detected format; guess_type '
                   'decides by the lower-cased extension without reading, else reads once and tries key=value then JSON.  Bounded (labelled '
                   'bounded): the text formats and the config<->dict pipeline (all field subsets x generated values x both formats x three load '
                   'paths x never-used profile) and crash injection at every real file-system operation of a save.',
    'native_checks': [{'name': 'c19_config', 'role': 'stand-in', 'cmd': ['bounded/config_check.py'],
                       'bound': 'round trip: quick 393 field subsets (empty, full, singletons, pairs with a binary field, 300 random), thorough '
                                'all 65536 subsets; one value draw each, both formats, 3 load paths (quick) / profile path + every 8th all paths '
                                '(thorough); crash injection: every file-system operation (each write cut in half) x previous config none/json/'
                                'keyval x new json/keyval, 1/6 repetitions; real ConfigManager, real files in a private XDG_CONFIG_HOME'}],
    'assumptions': ['os.replace / os.rename is atomic and open/write/flush/fsync/close behave as POSIX says; directory entries are durable '
                    'after the rename (no fsync of the directory is done by the code, none is demanded by the contract)',
                    'StorageTools.getStorageForProfile is an assumed pure function of the name (validated natively); os.path.join / splitext '
                    'uninterpreted pure functions',
                    'ConfigManager.config_to_str / load_data and the transform classes are opaque events in the contracts: their round trip is '
                    'decided only by the bounded stand-in'],
    'technique': 'contract-based deductive verification (PyVC) of the save / load protocol as file-system event contracts; text formats, pipeline and crash injection by a bounded native stand-in on real files',
}

PROPS['C06'] = {
    'sidecars': ['contracts/C06_routing.py'],
    'level': 'other',
    'explanation': 'Three steps, all discharged on the real code: (1) dispatch - YowProtocolLayer.receive / send hand a stanza / entity to the '
                   'handler registered for its tag, at most once, after the reply registry (C08); (2) every recv / send handler and every reply '
                   'continuation of the acks, receipts, chat state, presence, ib, privacy, contacts, profiles, groups, media, messages, '
                   'notifications, calls and iq layers (95 functions): under its guard exactly one entity goes up, namely what ONE parser made of '
                   'THIS stanza, or exactly one stanza goes down, the serialisation of THIS entity; outside its guard nothing goes up or down and '
                   'nothing raises; (3) composition lemmas over the SAME guard predicates: for EVERY stanza / entity and every module selection at '
                   'most one layer of the parallel group answers (nothing duplicated), each supported kind is answered by exactly one, kinds of a '
                   'left-out module by none.  The tag tables (handleMap of each layer) and the namespaces of the classes tested by class are finite '
                   'facts checked completely by the native part.  Entity parsers / serialisers are opaque events (C09), the fan-out of the parallel '
                   'layer is C18, the encryption layers C03: level other.',
    'native_checks': [{'name': 'c06_routing', 'role': 'stand-in', 'cmd': ['bounded/routing_check.py'],
                       'bound': 'class-facts and handle-maps: complete over the 13 classes / 15 layer classes; assembled group: the real parallel '
                                'group for all 16 module selections x the stanza of every entity class with a fixture in the repository (57) x '
                                '1 (quick) / 8 (thorough) value variations, both directions, + the 13 class-guarded requests with result / error / '
                                'replayed replies; real counts compared with the composed guards of the sidecar evaluated natively'}],
    'assumptions': ['every X.fromProtocolTreeNode and entity.toProtocolTreeNode is an opaque event (what they compute: C09)',
                    'ids of requests registered in different layers are distinct (ProtocolEntity._generateId is a counter), so a reply is consumed '
                    'by one registry', 'entity_class_facts (namespace of the classes the send guards test by class): assumed in the lemma, checked '
                    'natively and completely', 'handleMap tables: checked natively and completely (constructors of the layers are not under contract)'],
    'technique': 'contract-based deductive verification (PyVC): per-handler contracts + composition lemmas over the same guard predicates; finite table facts and the assembled group checked natively (bounded cross-check)',
}

PROPS['C10'] = {
    'sidecars': ['contracts/C10_payload.py'],
    'plugins': ['protomodel'],
    'level': 'other',
    'explanation': 'Discharged for all field values and all optional-field subsets, under the proto2 object model of pyvc/protomodel.py: for each of '
                   'message key, image, contact, location, extended text, document, audio, video, sticker, sender-key distribution, protocol '
                   '(revoke) and the whole Message - X_to_proto puts a field on the wire exactly when the sender set it, with the sender\'s value, and '
                   'assigns to no name that is not a field; proto_to_X returns the wire value of every field (an unset one as None or as its '
                   'default); the two compositions (scenarios executed against those contracts): every field the sender set comes back equal; a '
                   'received payload re-serialises with every modelled field equal (proto2 value semantics).  The contracts are generated from the '
                   'constructor signatures of the attribute classes and the protobuf descriptors (the vocabulary of the statement), not from the '
                   'converter.  Bounded (labelled bounded): context info (quoted messages to depth 3, mentions), SerializeToString / '
                   'ParseFromString, the real protobuf classes and generated values incl. empty strings and zero numbers.',
    'native_checks': [{'name': 'c10_payload', 'role': 'stand-in', 'cmd': ['bounded/payload_check.py'],
                       'bound': 'model-facts: complete (declared protobuf fields == real descriptors); sender side: per class none / all / each single '
                                'optional field + 40 (quick) / all subsets up to 2^12 + 400 (thorough) random subsets, generated values, quoted messages '
                                'to depth 3; receiver side: 600 / 12000 protobuf messages built from the descriptors over the modelled fields'}],
    'assumptions': ['proto2 semantics of the generated classes as stated in pyvc/protomodel.py (fresh message has no field set; assignment sets; '
                    'unset scalar reads its default; HasField; MergeFrom into an unset sub-message; assignment to a non-field raises) - the library\'s',
                    'contextinfo_to_proto / proto_to_contextinfo are assumed pure and mutually inverse (bounded only)',
                    'SerializeToString / ParseFromString are inverse on every field (protobuf library)',
                    'required constructor parameters are not None (precondition); a document\'s own length equals its download descriptor\'s '
                    '(one wire field); protocol messages are of type REVOKE (class invariant of ProtocolAttributes)'],
    'technique': 'contract-based deductive verification (PyVC with a proto2 object model): generated contracts for all converter pairs + scenarios composing them; context info and Serialize/Parse by a bounded native stand-in',
}

PROPS['C09'] = {
    'sidecars': ['contracts/C09_a_receipts.py', 'contracts/C09_b_notifications.py', 'contracts/C09_c_iqs.py'],    # each imports C09_entities
    # verified in separate registries: part b declares ProtocolTreeNode.getAllChildren opaque (a list of two), which would change how
    # the code of the other parts is read
    'sidecar_groups': [['contracts/C09_a_receipts.py'], ['contracts/C09_b_notifications.py'], ['contracts/C09_c_iqs.py']],
    'level': 'other',
    'explanation': 'TWO PARTS.  (1) Discharged for ALL attribute values, by symbolic execution of the real parser and serialiser on a symbolic '
                   'stanza of the documented shape (one scenario per class; preconditions = the documented shape: tag, mandatory attributes, '
                   'enumerated values, numerals in canonical decimal form; every documented attribute and child must come back equal and '
                   'nothing may be invented): 58 entity classes - acks, receipts (without item list), chat states, presence family, calls (one scenario per child kind), last-seen '
                   'result, notifications (base, picture set/delete, status, contact add/remove/update/sync, groups base/subject/add/remove), '
                   'ib family (ib, dirty, offline, account, clean), iq family (base, ping, pong, result, error, privacy list, picture get / '
                   'get-result / set / list, privacy get / set / result, status set, statuses get / result, unregister, sync, groups base / '
                   'info / leave / list / subject / create).  Child LISTS are proved for two children (bounded in length only, stated per '
                   'scenario); three scenarios are partial where the real code alters a field of a class that is only ever SENT (GetPictureIq '
                   'type, SetPrivacyIq value: outside the statement\'s first sentence, noted as such).  Every scenario was mutation-tested (the '
                   'real class broken in a scratch copy must fail it).  (2) The bounded stand-in, NOT counted as proved, for all classes with a '
                   'fixture or a reproducing documented example plus the shapes pinned after the six repairs of this round, on the REAL classes '
                   'and the REAL codec: documented stanza and value variations -> entity -> stanza must reproduce the stanza (numbers by value), '
                   'and the stanza of every sendable class must survive WriteEncoder / ReadDecoder unchanged.  Level other: (1) is proof for the '
                   'listed classes, (2) is bounded; media / message payload entities are C10.',
    'native_checks': [{'name': 'c09_entities', 'role': 'stand-in', 'cmd': ['bounded/entity_check.py'],
                       'bound': '53 fixture stanzas + 52 docstring shapes (68 classes) x (1 documented + single-position sweep over all attribute positions and kind values + 12 (quick) / '
                                '300 (thorough) random variations); positions whose varied value the parser refuses are selectors of the shape and keep '
                                'the documented value; binary blobs and protobuf payloads keep the documented value (C10); codec check for classes '
                                'that are sent (name heuristic: not Incoming/Result/Success/Failure/Error/*Notification)'}],
    'assumptions': ['the repository\'s own fixtures and class docstrings are the documented shapes', 'ProtocolTreeNode.getChild is an assumed pure function of (node, tag)',
                    'scenarios over child lists are proved for exactly two children', 'an absent offline attribute and offline="0" are the same stanza (default rendering)',
                    'classes without fixture, reproducing example or scenario are not exercised (listed in the evidence)'],
    'technique': 'contract-based deductive verification (PyVC scenarios: the real parser and serialiser executed symbolically on a symbolic stanza, z3/cvc5) for 58 entity classes; bounded native stand-in on the real classes and codec (labelled bounded) for the rest and for the codec conjunct',
}

PROPS['C03'] = {
    'sidecars': ['contracts/C03_recvpaths.py'],      # imports C03_sendpaths -> C03_e2e -> C17_identity -> C13_store
    'plugins': ['sqlmodel'],
    'level': 'other',
    'explanation': 'PARTIAL - glue conjuncts only.  The statement is about conversations between 2-4 accounts through a server, all delivery '
                   'orders, restarts and what the Signal library computes; no contract decides that.  Discharged on the real code, for all inputs: '
                   '(a) only ciphertext goes down - AxolotlSendLayer.send never forwards a message stanza (it goes to the encrypting path, once), '
                   'sendToContact hands the payload to manager.encrypt and to nothing else and builds the envelope from the cipher output, '
                   'sendEncEntities sends exactly the serialised encrypted envelope and keeps the original for retries; (b) padding - what reaches '
                   'the cipher is payload || 1..255 padding bytes each equal to their count, and unpad(payload || padding) == payload for every '
                   'payload (scenario over the two contracts); (c) the sent queue is bounded by 100, appends in order, drops the oldest only at the '
                   'bound, finds the first message with a given id and removes it unless it is to be kept; (d) receipts - a retry request for a '
                   'queued message is acked once and triggers one key fetch, any other receipt goes up once, non-receipts are left to the receive '
                   'layer; (e) receive side - dispatch (messages to decryption, receipts ignored, everything else up once), the retry counter '
                   '(one receipt per request, count +1 per request for the same message, reset on success), and via C17: duplicate -> one receipt, '
                   'invalid key / message -> one retry, no session -> parked + one key fetch, untrusted identity -> refused.  NOT decided: delivery '
                   'exactly once across accounts, authenticity, the server.  (f) send paths (contracts/C03_sendpaths.py): a message stanza to a '
                   'recipient that is not on skipEncJids always enters the encrypting path; processPlaintextNodeAndSend takes exactly one of '
                   '{group path, encrypt for the contact, fetch keys first} and sends nothing itself; the key fetch asks for exactly the '
                   'recipient and its continuation encrypts once (no error) or not at all (error); group path: sendToGroup asks for the '
                   'participants when there is no sender key yet (one request about this group) and otherwise goes straight to the group send '
                   '(a retry names the one participant and its counter); ensureSessionsAndSendToGroup fetches keys for exactly the participants '
                   'without a session and does the group send once, after the answer; sendToGroupWithSessions does one pairwise encryption per '
                   'participant that needs the sender key, to that participant, the group cipher exactly when this is not a retry, ONE '
                   'envelope, the participant named only for a single-recipient retry.  (g) receive paths (contracts/C03_recvpaths.py): '
                   'decrypt_pkmsg / decrypt_msg / group_decrypt hand the ciphertext to the cipher of that sender (group + participant) once and '
                   'return its plaintext with the padding stripped (v2) or unchanged; handlePreKeyWhisperMessage / handleWhisperMessage / '
                   'handleSenderKeyMessage decrypt this stanza\'s payload for its author once, parse a v2 payload, and forward exactly ONE stanza '
                   'upward - the rebuilt envelope with one proto child made from exactly the decrypted plaintext, attached before forwarding - '
                   'and nothing downward (group message without a sender key: one retry request instead); parseAndHandleMessageProto rejects an '
                   'empty payload and hands a sender-key distribution to the manager for the participant of this stanza, unchanged; onMessage.  '
                   '(h) outcomes (handleEncMessage, shared with C17): decrypt_* raise the library-independent NoSession / InvalidKeyId / '
                   'InvalidMessage / DuplicateMessage exception exactly when the cipher raised the one of that name; the prekey / session / '
                   'sender-key handler is chosen by the envelope type; decrypted -> retry counter reset, nothing sent; duplicate -> one '
                   'receipt naming this message, nothing else; invalid message / key id -> ONE retry request for this message with our '
                   'registration id; no session -> parked, the SENDER\'s keys fetched once, and when they arrive the parked messages of this '
                   'conversation are processed once; untrusted identity -> ignored, or (auto-trust) the reported key pinned first.',
    'assumptions': ['python-axolotl (SessionCipher, GroupCipher, SessionBuilder) is outside the proofs: encrypt / decrypt are opaque events',
                    'random.randint(a, b) is in [a, b]', 'entity constructors (EncProtocolEntity, EncryptedMessageProtocolEntity, retry receipts) are '
                    'opaque events: what they serialise is C09',
                    'what a session / group cipher decrypts ends in 1..255 padding bytes each equal to their count (the peer runs this stack: '
                    'AxolotlManager.encrypt / group_encrypt contracts); an unpadded or empty plaintext from a foreign client is outside the claim',
                    'exception classes of opaque callees are told apart by their simple NAME (one symbolic class per raise); '
                    'processPendingIncomingMessages is not under contract',
                    'getKeysFor continuation: proved for a request of two distinct jids (ListOf(jid, 2)) - bounded in the number of requested jids',
                    'skipEncJids: a recipient for whom the server returned no key bundle is written to unencrypted by design; outside the '
                    'conversations the statement quantifies over (every account has uploaded keys)'],
    'technique': 'contract-based deductive verification (PyVC: VCs from the real ast, z3/cvc5) of the glue functions around python-axolotl; the end-to-end statement itself is outside the technique (partial claim)',
}

PROPS['C04'] = {
    'sidecars': ['contracts/C04_transport.py'],
    'level': 'other',
    'explanation': 'PARTIAL - sequential glue of YowNoiseLayer only.  The statement quantifies over interleavings of the handshake thread with the '
                   'network thread, all chunkings, and the Noise handshake inside consonance: not decidable by sequential contracts.  Discharged on '
                   'the real code, for all inputs: on_auth sends exactly the prologue (edge header + routing info as one segment when configured, then '
                   'WA 04 00) with segmenting switched off/on at exactly the right events and on afterwards, presents the passive flag of the event in '
                   'the client configuration, starts one handshake worker only when no handshake is in progress with the stored server key, and '
                   'without a client key pair sends nothing and requests a disconnect; on_handshake_finished reports a failure upward as one <failure> '
                   'stanza plus one event and is silent on success; _on_protocol_state_changed stores a changed server key (one write, the new key) '
                   'BEFORE buffered frames are flushed and does not rewrite an unchanged key; receive queues every segment exactly once before any '
                   'flush and flushes only outside the handshake; send hands every stanza to the cipher exactly once; _handle_stream_event moves one '
                   'segment per event; on_disconnected resets the cipher.  The flush loop under its lock is C12, frame segmentation C05.',
    'assumptions': ['consonance (WANoiseProtocol, handshake, BlockingQueueSegmentedStream) and queue.Queue (FIFO) are outside the proofs',
                    'thread interleavings are not modelled (C11, section 8)', 'ClientConfig / UserAgentConfig are opaque constructors: only the '
                    'passive argument is tied to the event'],
    'technique': 'contract-based deductive verification (PyVC) of the sequential glue of YowNoiseLayer as event-protocol contracts; interleavings and the handshake are outside the technique (partial claim)',
}

NOT_APPLICABLE = {
    'C11': 'quantifies over thread interleavings (2-4 sender threads through lock/queue operations); no verifier available here '
           'has a thread or permission model and sequential contracts cannot express "for every schedule" (DESIGN.md section 8)',
}
