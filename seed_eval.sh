#!/bin/sh
# seed_eval.sh <seed-id> <property> [more properties...]: confirm a seeded change and run the checks against it.
# 1. in the scratch worktree /tmp/seed_<id>: demo fails with the change, passes without; test suite still 79 passed
# 2. copy patch+demo to /verif/seeded/<id>/ with a provisional meta.json; 3. tools/seed_regress.py <id> (scratch copy of /repo, /repo untouched)
id=$1; shift
wt=/tmp/seed_$id
[ -f $wt/patch.diff ] || { echo "no patch"; exit 2; }
mkdir -p /verif/seeded/$id
cp $wt/patch.diff /verif/seeded/$id/patch.diff; cp $wt/demo.py /verif/seeded/$id/demo.py
cd $wt
/verif/.venv312/bin/python demo.py >/tmp/seed_demo_with_$id.txt 2>&1; with=$?
git apply -R patch.diff; /verif/.venv312/bin/python demo.py >/tmp/seed_demo_without_$id.txt 2>&1; without=$?; git apply patch.diff
tests=$(/venv/bin/python -m pytest -q -p no:cacheprovider --timeout=900 --continue-on-collection-errors 2>&1 | tail -1)
echo "demo with change: exit $with; without: exit $without; tests: $tests"
cd /verif
[ -f seeded/$id/meta.json ] || python3 - "$id" "$@" <<'PY'
import json, sys
i, props = sys.argv[1], sys.argv[2:]
json.dump({'property': props[0], 'checks': props, 'change': 'TODO', 'needs': 'TODO', 'detected_by': []}, open('/verif/seeded/%s/meta.json' % i, 'w'), indent=1)
PY
tools/seed_regress.py $id 2>&1 | grep -v conda | cut -c1-1500
