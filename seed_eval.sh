#!/bin/sh
# seed_eval.sh <seed-id> <property> [more properties...]: confirm a seeded change and run the checks against it.
# 1. in the scratch worktree /tmp/seed_<id>: demo fails with the change, passes without; test suite still 79 passed
# 2. copy patch+demo to /verif/seeded/<id>/; 3. apply to /repo, run ./check <prop>, revert.
id=$1; shift
wt=/tmp/seed_$id
[ -f $wt/patch.diff ] || { echo "no patch"; exit 2; }
mkdir -p /verif/seeded/$id
cp $wt/patch.diff /verif/seeded/$id/patch.diff; cp $wt/demo.py /verif/seeded/$id/demo.py
cd $wt
/verif/.venv312/bin/python demo.py >/tmp/seed_demo_with.txt 2>&1; with=$?
git apply -R patch.diff; /verif/.venv312/bin/python demo.py >/tmp/seed_demo_without.txt 2>&1; without=$?; git apply patch.diff
tests=$(/venv/bin/python -m pytest -q -p no:cacheprovider --timeout=900 --continue-on-collection-errors 2>&1 | tail -1)
echo "demo with change: exit $with; without: exit $without; tests: $tests"
cd /verif
git -C /repo apply $wt/patch.diff || { echo "patch does not apply to /repo"; exit 2; }
for p in "$@"; do
  ./check $p > /tmp/seed_check_$p.txt 2>&1; rc=$?
  echo "check $p: exit $rc"; grep -E "^(VIOLATION|KNOWN|UNDECIDED|CHECKER|C[0-9]+:)" /tmp/seed_check_$p.txt | cut -c1-220 | head -8
  mkdir -p /verif/seeded/$id/replays_$p; cp -r replays/$p/. /verif/seeded/$id/replays_$p/ 2>/dev/null
  find /verif/seeded/$id/replays_$p -size +200k -delete
done
git -C /repo checkout -- .
git -C /repo status --short | head -3
