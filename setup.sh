#!/bin/sh
# Builds /verif/.venv312: an overlay interpreter (Python 3.12 from /venv + six 1.17 from the
# offline wheelhouse) in which every yowsup module imports.  Used only for *replay* of
# counterexamples and for the bounded stand-ins on the real code; the VC generator itself runs
# under python3-vt and never imports /repo.  Offline, idempotent.
set -e
cd "$(dirname "$0")"
V=.venv312
if [ -x "$V/bin/python" ] && "$V/bin/python" -c "import six, sys; assert six.__version__ >= '1.17'; import six.moves" 2>/dev/null; then
    exit 0
fi
rm -rf "$V"
/venv/bin/python -m venv "$V"
SP=$("$V/bin/python" -c "import sysconfig; print(sysconfig.get_paths()['purelib'])")
PIP_NO_INDEX=1 "$V/bin/python" -m pip install --quiet --no-index --find-links /opt/veriftools/wheels six >/dev/null 2>&1 || {
    # pip may be missing in the fresh venv (ensurepip offline): unpack the wheel by hand
    /venv/bin/python - "$SP" <<'EOF'
import sys, zipfile, glob
w = sorted(glob.glob('/opt/veriftools/wheels/six-*.whl'))[-1]
zipfile.ZipFile(w).extractall(sys.argv[1])
EOF
}
echo "import site; site.addsitedir('/venv/lib/python3.12/site-packages')" > "$SP/zz_venv_overlay.pth"
"$V/bin/python" -c "import six.moves, sys; sys.path.insert(0, '/repo'); import yowsup.layers.coder.layer"
