#!/usr/bin/env python3
"""Writes MANIFEST.json from props.py (claimed checks) and NOT_APPLICABLE below."""
import json, os, sys
HERE = os.path.dirname(os.path.abspath(__file__))
sys.path.insert(0, HERE)
import props

ids = ['C%02d' % i for i in range(1, 21)]
checks = []
for pid in ids:
    if pid not in props.PROPS:
        continue
    c = props.PROPS[pid]
    checks.append({
        'property_id': pid,
        'quick_cmd': './check %s --tier quick' % pid,
        'thorough_cmd': './check %s --tier thorough' % pid,
        'evidence_file': 'evidence/%s.json' % pid,
        'replay_cmd_template': './check replay {path}',
        'engine': 'pyvc',
        'level_claimed': {'category': c.get('level', 'proof'), 'text': c.get('level_text', c.get('explanation', '')),
                          'design_ref': 'DESIGN.md section 7, %s' % pid},
        'level_note': c.get('level_note', '; '.join(c.get('assumptions', []))),
        'technique': c.get('technique', 'contract-based deductive verification: VCs generated from the ast of the real '
                                        'functions by PyVC, discharged by z3/cvc5'),
    })
na = [{'property_id': pid, 'reason': props.NOT_APPLICABLE.get(pid, 'no check built yet in this round; see DESIGN.md section 7')}
      for pid in ids if pid not in props.PROPS]
m = {
    'version': 1,
    'setup_cmd': './setup.sh',
    'hooks': {'guard': 'YOWSUP_VERIF',
              'enable': 'unused: contracts are sidecars under /verif/contracts, run-time monitors are installed by the harness '
                        'process (pyvc/native.py); no file under /repo carries verification hooks',
              'baseline_off_cmd': 'cd /repo && /venv/bin/python -m pytest -ra -q -p no:cacheprovider --timeout=900 --continue-on-collection-errors',
              'source_commits': [], 'add_only': True},
    'engines': [{'name': 'pyvc', 'path': 'pyvc/', 'serves_properties': [c['property_id'] for c in checks],
                 'kind_free_text': 'home-built VC generator (Python ast -> symbolic execution with contracts, loop invariants, '
                                   'spec functions, lemmas) over axiomatised sequences/maps; z3 5.1 primary, cvc5 / z3 4.8 fall-back; '
                                   'native replay harness on the real code'}],
    'checks': checks,
    'not_applicable': na,
    'notes': 'See DESIGN.md. Exit codes: 0 held, 1 violation, 2 undecided, 3 checker failure.',
}
json.dump(m, open(os.path.join(HERE, 'MANIFEST.json'), 'w'), indent=1)
print('MANIFEST.json: %d checks, %d not applicable' % (len(checks), len(na)))
