"""Bounded stand-in for C10 (labelled bounded, never counted as proved): the REAL AttributesConverter with the REAL protobuf
classes.

    python bounded/payload_check.py <tier> <seed> <out.json>

(1) sender side: for every attribute class (message, text, extended text, image, video, audio, document, sticker, location,
    contact, context info incl. quoted messages to depth 3, protocol/revoke, sender-key distribution) and optional-field subsets
    (quick: none, all, each single field, 40 random subsets per class; thorough: all subsets up to 2^12 per class + 400 random)
    with generated values (unicode text, EMPTY strings, ZERO numbers, binary blobs incl. empty): message_to_protobytes then
    protobytes_to_message; every field the sender set (is not None) comes back with the same value.
(2) receiver side: protobuf messages built directly from the descriptors over the fields the converter models (found by
    scanning the *_to_proto functions), random subsets and values: parse -> attributes -> serialise -> parse; every modelled
    field has the same value (proto2 value semantics: an unset scalar equals its default).
"""
import ast
import inspect
import io
import itertools
import json
import os
import random
import struct
import sys
import time
import traceback

REPO = os.environ.get('PYVC_REPO', '/repo')
sys.path.insert(0, REPO)
import logging                                   # noqa: E402
logging.disable(logging.CRITICAL)


def setup():
    from yowsup.layers.protocol_messages.proto.e2e_pb2 import Message, ContextInfo
    from yowsup.layers.protocol_messages.proto.protocol_pb2 import MessageKey
    import yowsup.layers.protocol_messages.protocolentities.attributes.converter as conv
    A = conv
    kinds = {
        'message': (A.MessageAttributes, Message),
        'image': (A.ImageAttributes, Message.ImageMessage),
        'contact': (A.ContactAttributes, Message.ContactMessage),
        'location': (A.LocationAttributes, Message.LocationMessage),
        'extended_text': (A.ExtendedTextAttributes, Message.ExtendedTextMessage),
        'document': (A.DocumentAttributes, Message.DocumentMessage),
        'audio': (A.AudioAttributes, Message.AudioMessage),
        'video': (A.VideoAttributes, Message.VideoMessage),
        'sticker': (A.StickerAttributes, Message.StickerMessage),
        'sender_key_distribution_message': (A.SenderKeyDistributionMessageAttributes, Message.SenderKeyDistributionMessage),
        'protocol': (A.ProtocolAttributes, Message.ProtocolMessage),
        'context_info': (A.ContextInfoAttributes, ContextInfo),
        'key': (A.MessageKeyAttributes, MessageKey),
        'downloadablemedia_attributes': (A.DownloadableMediaMessageAttributes, None),
    }
    return conv, kinds, Message


# Message field name for each MessageAttributes parameter
MSG_FIELD = {'image': 'image_message', 'contact': 'contact_message', 'location': 'location_message', 'extended_text': 'extended_text_message',
             'document': 'document_message', 'audio': 'audio_message', 'video': 'video_message', 'sticker': 'sticker_message',
             'sender_key_distribution_message': 'sender_key_distribution_message', 'protocol': 'protocol_message', 'conversation': 'conversation'}


def gen_scalar(rng, fd):
    t = fd.type
    if t == fd.TYPE_STRING:
        r = rng.random()
        if r < 0.2:
            return ''
        n = rng.choice([1, 2, 5, 20])
        return ''.join(chr(rng.choice([rng.randrange(0x20, 0x7f), rng.randrange(0xa0, 0x800), rng.randrange(0x10000, 0x10ffff)])) for _ in range(n))
    if t == fd.TYPE_BYTES:
        return bytes(rng.randrange(256) for _ in range(rng.choice([0, 1, 16, 33])))
    if t == fd.TYPE_BOOL:
        return rng.random() < 0.5
    if t == fd.TYPE_DOUBLE:
        return rng.choice([0.0, -0.0, 1.5, -122.4194, 1e-9, 89.999999])
    if t == fd.TYPE_FLOAT:
        return struct.unpack('f', struct.pack('f', rng.choice([0.0, 1.5, 3.25, 1e3, -2.75])))[0]
    if t in (fd.TYPE_UINT32, fd.TYPE_UINT64, fd.TYPE_FIXED32, fd.TYPE_FIXED64):
        return rng.choice([0, 0, 1, 7, 2 ** 31 - 1, rng.randrange(2 ** 32)])
    if t in (fd.TYPE_INT32, fd.TYPE_INT64, fd.TYPE_SINT32, fd.TYPE_SINT64, fd.TYPE_SFIXED32, fd.TYPE_SFIXED64):
        return rng.choice([0, 0, 1, -1, 2 ** 31 - 1, rng.randrange(2 ** 31)])
    if t == fd.TYPE_ENUM:
        return rng.choice([v.number for v in fd.enum_type.values])
    raise ValueError('type %r' % t)


def gen_attr(rng, kinds, kind, subset, depth, proto_cls=None):
    """an attribute object of `kind` with exactly the optional parameters in `subset` (None = random) given"""
    cls, pcls = kinds[kind]
    pcls = pcls or proto_cls
    sig = inspect.signature(cls.__init__)
    kw = {}
    for name, p in list(sig.parameters.items())[1:]:
        optional = p.default is not inspect.Parameter.empty
        if optional and (name not in subset if subset is not None else rng.random() < 0.5):
            continue
        if name == 'downloadablemedia_attributes':
            kw[name] = gen_attr(rng, kinds, 'downloadablemedia_attributes', None, depth, proto_cls=pcls)
        elif name == 'context_info':
            kw[name] = gen_attr(rng, kinds, 'context_info', None, depth)
        elif name == 'quoted_message':
            if depth >= 3:
                continue
            kw[name] = gen_message(rng, kinds, depth + 1)
        elif name == 'key':
            kw[name] = gen_attr(rng, kinds, 'key', None, depth)
        elif name == 'mentioned_jid':
            kw[name] = ['%d@s.whatsapp.net' % rng.randrange(10 ** 9) for _ in range(rng.randrange(0, 3))]
        elif kind == 'message' and name in MSG_FIELD and name != 'conversation':
            kw[name] = gen_attr(rng, kinds, name, None, depth)
        else:
            fname = MSG_FIELD.get(name, name) if kind == 'message' else name
            fd = pcls.DESCRIPTOR.fields_by_name.get(fname)
            if fd is None:
                raise ValueError('%s.%s has no protobuf field' % (kind, name))
            kw[name] = gen_scalar(rng, fd)
    if kind == 'document' and kw.get('file_length') is not None:
        # the document's own length and the download descriptor's length are the same wire field: the sender sets one value
        kw['downloadablemedia_attributes'].file_length = kw['file_length']
    return cls(**kw)


def gen_message(rng, kinds, depth=0):
    # one content kind per message, as the application composes them (+ optionally a sender key distribution rider)
    k = rng.choice(['conversation', 'image', 'contact', 'location', 'extended_text', 'document', 'audio', 'video', 'sticker', 'protocol',
                    'sender_key_distribution_message'])
    sub = {k}
    if rng.random() < 0.2:
        sub.add('sender_key_distribution_message')
    return gen_attr(rng, kinds, 'message', sub, depth)


def is_attr_obj(v):
    return hasattr(v, '__dict__') and type(v).__module__.startswith('yowsup.')


def cmp_sent(a, b, path, out):
    """every field the sender set (not None) is returned with the same value"""
    if b is None:
        out.append('%s: lost entirely' % path)
        return
    for k, v in vars(a).items():
        if v is None:
            continue
        w = getattr(b, k, None)
        if is_attr_obj(v):
            if w is None:
                out.append('%s.%s: set by the sender, None after the round trip' % (path, k.lstrip('_')))
            else:
                cmp_sent(v, w, path + '.' + k.lstrip('_'), out)
        elif isinstance(v, list):
            if list(v) != list(w or []):
                out.append('%s.%s: %r -> %r' % (path, k.lstrip('_'), v, w))
        elif v != w or type(v) is not type(w) and not (isinstance(v, (int, float)) and isinstance(w, (int, float))):
            out.append('%s.%s: %r -> %r' % (path, k.lstrip('_'), v, w))


def modelled_fields(conv):
    """message type name -> set of protobuf field names the converter writes (scan of the *_to_proto functions)"""
    src = inspect.getsource(conv)
    tree = ast.parse(src)
    out = {}
    for f in [n for n in ast.walk(tree) if isinstance(n, ast.FunctionDef) and n.name.endswith('_to_proto')]:
        s = out.setdefault(f.name[:-len('_to_proto')], set())
        for n in ast.walk(f):
            if isinstance(n, ast.Assign):
                for t in n.targets:
                    while isinstance(t, ast.Subscript):
                        t = t.value
                    if isinstance(t, ast.Attribute) and isinstance(t.value, ast.Name):
                        s.add(t.attr.lstrip('_'))
            if isinstance(n, ast.Call) and isinstance(n.func, ast.Attribute) and n.func.attr == 'MergeFrom' and isinstance(n.func.value, ast.Attribute):
                s.add(n.func.value.attr)
    return out


CONV_OF = {'Message': 'message', 'ImageMessage': 'image', 'ContactMessage': 'contact', 'LocationMessage': 'location',
           'ExtendedTextMessage': 'extendedtext', 'DocumentMessage': 'document', 'AudioMessage': 'audio', 'VideoMessage': 'video',
           'StickerMessage': 'sticker', 'SenderKeyDistributionMessage': 'sender_key_distribution_message', 'ProtocolMessage': 'protocol',
           'ContextInfo': 'contextinfo', 'MessageKey': 'message_key'}
DOWNLOADABLE = {'ImageMessage', 'DocumentMessage', 'AudioMessage', 'VideoMessage', 'StickerMessage'}


def fields_of(pmsg, modelled):
    name = pmsg.DESCRIPTOR.name
    s = set(modelled.get(CONV_OF.get(name, ''), ()))
    if name in DOWNLOADABLE:
        s |= modelled.get('downloadablemedia', set()) | modelled.get('media', set())
    return [f for f in pmsg.DESCRIPTOR.fields if f.name in s]


def fill_proto(rng, pmsg, modelled, depth, required_only=False):
    for fd in fields_of(pmsg, modelled):
        must = fd.name in ('mimetype', 'file_length', 'file_sha256', 'width', 'height') and pmsg.DESCRIPTOR.name in DOWNLOADABLE
        must = must or pmsg.DESCRIPTOR.name in ('MessageKey', 'ProtocolMessage', 'SenderKeyDistributionMessage') or \
            (pmsg.DESCRIPTOR.name == 'ContactMessage' and fd.name in ('display_name', 'vcard'))
        if not must and rng.random() < 0.5:
            continue
        if fd.type == fd.TYPE_MESSAGE:
            if fd.message_type.name == 'Message' and depth >= 3:
                continue
            sub = getattr(pmsg, fd.name)
            if fd.message_type.name == 'Message':
                fill_message(rng, sub, modelled, depth + 1)
            else:
                fill_proto(rng, sub, modelled, depth)
            sub.SetInParent()
        elif fd.label == fd.LABEL_REPEATED:
            getattr(pmsg, fd.name)[:] = [gen_scalar(rng, fd) for _ in range(rng.randrange(0, 3))]
        else:
            setattr(pmsg, fd.name, gen_scalar(rng, fd))


def fill_message(rng, m, modelled, depth):
    fds = [f for f in fields_of(m, modelled)]
    fd = rng.choice(fds)
    if fd.type == fd.TYPE_MESSAGE:
        sub = getattr(m, fd.name)
        fill_proto(rng, sub, modelled, depth)
        sub.SetInParent()
    else:
        setattr(m, fd.name, gen_scalar(rng, fd) or 'x')


def cmp_proto(p, q, modelled, path, out):
    for fd in fields_of(p, modelled):
        if fd.type == fd.TYPE_MESSAGE:
            if p.HasField(fd.name) != q.HasField(fd.name):
                out.append('%s.%s: present %r -> %r' % (path, fd.name, p.HasField(fd.name), q.HasField(fd.name)))
            elif p.HasField(fd.name):
                cmp_proto(getattr(p, fd.name), getattr(q, fd.name), modelled, path + '.' + fd.name, out)
        elif fd.label == fd.LABEL_REPEATED:
            if list(getattr(p, fd.name)) != list(getattr(q, fd.name)):
                out.append('%s.%s: %r -> %r' % (path, fd.name, list(getattr(p, fd.name)), list(getattr(q, fd.name))))
        elif getattr(p, fd.name) != getattr(q, fd.name):
            out.append('%s.%s: %r -> %r' % (path, fd.name, getattr(p, fd.name), getattr(q, fd.name)))


def model_facts(res, Message):
    """the protobuf field declarations of contracts/C10_payload.py (what the proofs assume about the generated classes) against the
    real descriptors: same non-repeated field names per message type, message-typed vs scalar; the attribute-class field lists against
    the real constructor signatures"""
    import re
    from yowsup.layers.protocol_messages.proto.e2e_pb2 import ContextInfo
    from yowsup.layers.protocol_messages.proto.protocol_pb2 import MessageKey
    here = os.path.dirname(os.path.dirname(os.path.abspath(__file__)))
    src = open(os.path.join(here, 'contracts', 'C10_payload.py')).read()
    sec = res['sections'].setdefault('model-facts', {'n': 0, 'bad': 0})
    real = {'MessageKey': MessageKey, 'Message': Message}
    for fd in Message.DESCRIPTOR.fields:
        if fd.type == fd.TYPE_MESSAGE:
            real.setdefault(fd.message_type.name, getattr(Message, fd.message_type.name, None))
    for m in re.finditer(r'^fields\("PB_(\w+)", (.*)\)$', src, re.M):
        name, body = m.group(1), m.group(2)
        sec['n'] += 1
        res['evaluations'] += 1
        cls = real.get(name)
        if cls is None:
            sec['bad'] += 1
            res['violations'].append({'class': 'model-facts', 'what': 'declared protobuf type %s does not exist' % name})
            continue
        decl = {k: ('msg' if ('Obj(' in v or 'Opaque("PB_' in v) else 'scalar') for k, v in re.findall(r'(\w+)=(Opt\((?:Value|Obj|Opaque)\("[\w]+"\)\))', body)}
        want = {fd.name: ('msg' if fd.type == fd.TYPE_MESSAGE else 'scalar') for fd in cls.DESCRIPTOR.fields if fd.label != fd.LABEL_REPEATED}
        if decl != want:
            sec['bad'] += 1
            diff = sorted(set(decl.items()) ^ set(want.items()))
            res['violations'].append({'class': 'model-facts', 'what': '%s: declared fields differ from the descriptor: %r' % (name, diff[:6])})


def subsets_for(cls, tier, rng):
    opt = [n for n, p in list(inspect.signature(cls.__init__).parameters.items())[1:] if p.default is not inspect.Parameter.empty]
    yield set()
    yield set(opt)
    for o in opt:
        yield {o}
    if tier == 'thorough' and len(opt) <= 12:
        for r in range(2, len(opt)):
            for s in itertools.combinations(opt, r):
                yield set(s)
    for _ in range(40 if tier == 'quick' else 400):
        yield {o for o in opt if rng.random() < 0.5}


def run(tier, seed, out):
    rng = random.Random(seed)
    res = {'evaluations': 0, 'distinct': 0, 'violations': [], 'samples': [], 'sections': {}}
    t0 = time.time()
    conv, kinds, Message = setup()
    C = conv.AttributesConverter.get()
    modelled = modelled_fields(conv)
    res['samples'].append({'modelled_fields': {k: sorted(v) for k, v in modelled.items()}})
    model_facts(res, Message)

    def bad(cls, what, **kw):
        if len([v for v in res['violations'] if v['class'] == cls]) < 1:
            res['violations'].append(dict({'class': cls, 'what': what}, **kw))
    # (1) sender side
    for kind in ['conversation', 'image', 'contact', 'location', 'extended_text', 'document', 'audio', 'video', 'sticker', 'protocol',
                 'sender_key_distribution_message', 'context_info']:
        sec = res['sections'].setdefault('send:' + kind, {'n': 0, 'bad': 0})
        if kind == 'conversation':
            gen = ({'x'} for _ in range(60 if tier == 'quick' else 600))
        else:
            gen = subsets_for(kinds[kind][0], tier, rng)
        for sub in gen:
            sec['n'] += 1
            res['evaluations'] += 1
            try:
                if kind == 'conversation':
                    fd = Message.DESCRIPTOR.fields_by_name['conversation']
                    msg = kinds['message'][0](conversation=gen_scalar(rng, fd))
                elif kind == 'context_info':
                    ci = gen_attr(rng, kinds, 'context_info', sub, 0)
                    msg = kinds['message'][0](extended_text=kinds['extended_text'][0]('t', None, None, None, None, None, context_info=ci))
                else:
                    msg = kinds['message'][0](**{kind: gen_attr(rng, kinds, kind, sub, 0)})
                back = C.protobytes_to_message(C.message_to_protobytes(msg))
                diffs = []
                cmp_sent(msg, back, 'message', diffs)
                if diffs:
                    sec['bad'] += 1
                    bad('send:' + kind + ':' + diffs[0].split(':')[0], diffs[0], optional_fields_given=sorted(sub), message=str(msg)[:400])
            except Exception as e:
                sec['bad'] += 1
                bad('send:' + kind + ':' + type(e).__name__, '%s: %s' % (type(e).__name__, str(e)[:300]), optional_fields_given=sorted(sub),
                    where=traceback.format_exc().strip().splitlines()[-3][:200])
    # (2) receiver side
    sec = res['sections'].setdefault('receive', {'n': 0, 'bad': 0})
    for _ in range(600 if tier == 'quick' else 12000):
        sec['n'] += 1
        res['evaluations'] += 1
        m = Message()
        fill_message(rng, m, modelled, 0)
        try:
            data = m.SerializeToString()
            attrs = C.protobytes_to_message(data)
            m2 = Message()
            m2.ParseFromString(C.message_to_protobytes(attrs))
            diffs = []
            cmp_proto(m, m2, modelled, 'Message', diffs)
            if diffs:
                sec['bad'] += 1
                bad('receive:' + diffs[0].split(':')[0], diffs[0], payload=str(m)[:400])
        except Exception as e:
            sec['bad'] += 1
            bad('receive:' + type(e).__name__, '%s: %s' % (type(e).__name__, str(e)[:300]), payload=str(m)[:400],
                where=traceback.format_exc().strip().splitlines()[-3][:200])
    res['distinct'] = res['evaluations']
    res['violations'] = res['violations'][:60]
    res['wall_s'] = round(time.time() - t0, 2)
    json.dump(res, open(out, 'w'), indent=1, default=str)
    return 1 if res['violations'] else 0


if __name__ == '__main__':
    try:
        sys.exit(run(sys.argv[1], int(sys.argv[2]), sys.argv[3]))
    except Exception:
        traceback.print_exc()
        sys.exit(3)
