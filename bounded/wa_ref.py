"""Independent implementation of the WhatsApp binary-XML format (DESIGN.md appendix B), written from
the grammar, not from yowsup's coder.  Trees are tuples (tag, attrs, children, data):
tag: str; attrs: list of (str, str) in order; children: list of trees or None; data: bytes or None.

ref_decode(frame, prim, sec) -> tree        ref_encode(tree, prim, sec, choose) -> bytes
`choose(kind, options)` picks among the permitted alternatives (the C02 choice vector).
"""
import zlib


class RefError(Exception):
    pass


class Reader:
    def __init__(self, b, prim, sec):
        self.b = bytes(b)
        self.p = 0
        self.prim, self.sec = prim, sec

    def u8(self):
        if self.p >= len(self.b):
            raise RefError('truncated')
        v = self.b[self.p]
        self.p += 1
        return v

    def take(self, n):
        if self.p + n > len(self.b):
            raise RefError('truncated')
        v = self.b[self.p:self.p + n]
        self.p += n
        return v

    def length(self, tag):
        if tag == 252:
            return self.u8()
        if tag == 253:
            a = self.take(3)
            return ((a[0] & 0x0F) << 16) | (a[1] << 8) | a[2]
        if tag == 254:
            a = self.take(4)
            return ((a[0] & 0x7F) << 24) | (a[1] << 16) | (a[2] << 8) | a[3]
        raise RefError('not a length tag')

    def list_size(self, tag):
        if tag == 0:
            return 0
        if tag == 248:
            return self.u8()
        if tag == 249:
            a = self.take(2)
            return (a[0] << 8) | a[1]
        raise RefError('bad list tag %d' % tag)

    def packed(self, tag):
        h = self.u8()
        m, odd = h & 0x7F, h >> 7
        raw = self.take(m)
        syms = []
        for i in range(2 * m):
            n = (raw[i // 2] >> 4) if i % 2 == 0 else (raw[i // 2] & 0x0F)
            syms.append(n)
        if odd:
            if not syms or syms[-1] != 15:
                raise RefError('bad filler nibble')
            syms.pop()
        out = []
        for n in syms:
            if tag == 255:
                if n <= 9:
                    out.append(chr(48 + n))
                elif n == 10:
                    out.append('-')
                elif n == 11:
                    out.append('.')
                else:
                    raise RefError('bad nibble')
            else:
                out.append('0123456789ABCDEF'[n])
        return ''.join(out)

    def string(self, tag):
        """returns str, or None for token 0"""
        if tag == 0:
            return None
        if 3 <= tag <= 235:
            return self.prim[tag]
        if 236 <= tag <= 239:
            i = (tag - 236) * 256 + self.u8()
            if i >= len(self.sec):
                raise RefError('secondary token out of range')
            return self.sec[i]
        if tag == 250:
            user = self.string(self.u8())
            server = self.string(self.u8())
            if server is None:
                raise RefError('jid without server')
            return server if user is None else user + '@' + server
        if tag in (251, 255):
            return self.packed(tag)
        if tag in (252, 253, 254):
            n = self.length(tag)
            return self.take(n).decode('latin-1')
        raise RefError('bad string tag %d' % tag)

    def node(self):
        n = self.list_size(self.u8())
        if n == 0:
            raise RefError('empty node list')
        tag = self.string(self.u8())
        if tag is None:
            raise RefError('null tag')
        attrs = []
        for _ in range((n - 1) // 2):
            k = self.string(self.u8())
            v = self.string(self.u8())
            attrs.append((k, v))
        if n % 2 == 1:
            return (tag, attrs, None, None)
        t = self.u8()
        if t in (0, 248, 249):
            k = self.list_size(t)
            kids = [self.node() for _ in range(k)]
            return (tag, attrs, kids, None)
        if t in (252, 253, 254):
            ln = self.length(t)
            return (tag, attrs, None, bytes(self.take(ln)))
        s = self.string(t)          # packed / token / jid valued content: the Latin-1 bytes of the string
        return (tag, attrs, None, s.encode('latin-1'))


def ref_decode(frame, prim, sec):
    frame = bytes(frame)
    flags = frame[0]
    body = frame[1:]
    if flags & 2:
        body = zlib.decompress(body)
    if flags & 1:
        raise RefError('segmented frames not supported')
    r = Reader(body, prim, sec)
    t = r.node()
    if r.p != len(r.b):
        raise RefError('trailing bytes')
    return t


# ---- reference encoder with a choice function ---------------------------------------------------------------
def first(kind, options):
    return options[0]


def enc_len(n, choose):
    opts = []
    if n < 256:
        opts.append(bytes([252, n]))
    if n < (1 << 20):
        opts.append(bytes([253, (n >> 16) & 0x0F, (n >> 8) & 0xFF, n & 0xFF]))
    if n < (1 << 31):
        opts.append(bytes([254, (n >> 24) & 0x7F, (n >> 16) & 0xFF, (n >> 8) & 0xFF, n & 0xFF]))
    return choose('len', opts)


def enc_list(n, choose):
    opts = []
    if n == 0:
        opts.append(bytes([0]))
    if n < 256:
        opts.append(bytes([248, n]))
    if n < 65536:
        opts.append(bytes([249, n >> 8, n & 0xFF]))
    return choose('list', opts)


NIB = {c: i for i, c in enumerate('0123456789-.')}
HEX = {c: i for i, c in enumerate('0123456789ABCDEF')}


def enc_packed(tag, s):
    table = NIB if tag == 255 else HEX
    codes = [table[c] for c in s]
    odd = len(codes) % 2
    if odd:
        codes.append(15)
    raw = bytes(codes[i] * 16 + codes[i + 1] for i in range(0, len(codes), 2))
    return bytes([tag, (odd << 7) | len(raw)]) + raw


def enc_string(s, prim, sec, choose, allow_jid=True):
    opts = []
    if s in prim and prim.index(s) >= 3:
        opts.append(bytes([prim.index(s)]))
    if s in sec:
        i = sec.index(s)
        opts.append(bytes([236 + i // 256, i % 256]))
    if allow_jid and '@' in s and not s.endswith('@'):
        at = s.index('@')
        user, server = s[:at], s[at + 1:]
        if '@' not in server:
            u = enc_string(user, prim, sec, choose, allow_jid=False) if user else bytes([0])
            opts.append(bytes([250]) + u + enc_string(server, prim, sec, choose, allow_jid=False))
    if 0 < len(s) < 128 and all(c in NIB for c in s):
        opts.append(enc_packed(255, s))
    if 0 < len(s) < 128 and all(c in HEX for c in s):
        opts.append(enc_packed(251, s))
    raw = s.encode('latin-1')
    opts.append(enc_len(len(raw), choose) + raw)
    return choose('string', opts)


def enc_node(t, prim, sec, choose):
    tag, attrs, kids, data = t
    n = 1 + 2 * len(attrs) + (1 if (kids is not None or data is not None) else 0)
    out = enc_list(n, choose) + enc_string(tag, prim, sec, choose)
    for k, v in attrs:
        out += enc_string(k, prim, sec, choose) + enc_string(v, prim, sec, choose)
    if data is not None:
        out += enc_len(len(data), choose) + data
    elif kids is not None:
        out += enc_list(len(kids), choose)
        for c in kids:
            out += enc_node(c, prim, sec, choose)
    return out


def ref_encode(t, prim, sec, choose=first, deflate=False):
    body = enc_node(t, prim, sec, choose)
    if deflate:
        return bytes([2]) + zlib.compress(body)
    return bytes([0]) + body
