"""Bounded stand-in for the tree level of C01 / C02 (labelled bounded, never counted as proved).

    python bounded/codec_check.py <c01|c02> <tier> <seed> <out.json>

c01: real encoder -> real decoder on generated well-formed trees, strict structural comparison.
c02: (a) real encoder -> independent reference decoder; (b) reference encoder with random choice vectors
     (8/16-bit list headers, 8/20/31-bit lengths, literal instead of token, packed or raw digits, JID with
     or without user, string-valued / packed content, deflate) -> real decoder; (c) dictionary tables compared
     entry by entry with the reference copy spec/data/wa_dictionary.json, plus the table facts the proofs assume.
Each violation carries a 'class' so that known findings can be matched precisely.
"""
import hashlib
import json
import os
import random
import sys
import time
import traceback

HERE = os.path.dirname(os.path.dirname(os.path.abspath(__file__)))
sys.path.insert(0, HERE)
sys.path.insert(0, os.environ.get('PYVC_REPO', '/repo'))
sys.setrecursionlimit(100000)

from bounded import wa_ref                                         # noqa: E402
from yowsup.layers.coder.encoder import WriteEncoder              # noqa: E402
from yowsup.layers.coder.decoder import ReadDecoder               # noqa: E402
from yowsup.layers.coder.tokendictionary import TokenDictionary   # noqa: E402
from yowsup.structs import ProtocolTreeNode                       # noqa: E402

RESERVED = ('xmlstreamstart', 'xmlstreamend')


def to_node(t):
    tag, attrs, kids, data = t
    return ProtocolTreeNode(tag, dict(attrs), [to_node(k) for k in kids] if kids else None, data)


def from_node(n):
    kids = [from_node(c) for c in n.children] if n.children else None
    return (n.tag, list(n.attributes.items()), kids, n.data)


def norm(t):
    tag, attrs, kids, data = t
    return (tag, list(attrs), [norm(k) for k in kids] if kids else None, data)


class Gen:
    def __init__(self, rng, td):
        self.r = rng
        self.prim = td.dictionary
        self.sec = td.secondaryDictionary
        self.words = [w for w in self.prim[3:] if w] + self.sec

    def latin(self, n):
        while True:
            s = ''.join(chr(self.r.choice([self.r.randrange(1, 256), self.r.randrange(32, 127)])) for _ in range(n))
            if s and not s.endswith('@') and s not in RESERVED and '@' not in s:
                return s

    def digits(self, n, alphabet='0123456789'):
        return ''.join(self.r.choice(alphabet) for _ in range(n))

    def plain(self):
        k = self.r.randrange(8)
        if k == 0:
            return self.r.choice(self.words)
        if k == 1:
            return self.digits(self.r.choice([1, 2, 3, 10, 11, 126, 127, 128, 129, 254, 255, self.r.randrange(1, 256)]), '0123456789-.')
        if k == 2:
            return self.digits(self.r.choice([1, 2, 7, 8, 127, 128, 255, self.r.randrange(1, 256)]), '0123456789ABCDEF')
        if k == 3:
            return self.latin(self.r.choice([1, 2, 5, 40, 255, 256, 257, 300]))
        if k == 4:
            return self.digits(self.r.randrange(1, 20)) + self.r.choice(['a', 'G', 'f', ' '])
        return self.latin(self.r.randrange(1, 24))

    def string(self):
        if self.r.random() < 0.2:
            user = self.r.choice([self.digits(self.r.randrange(5, 16)), self.digits(12) + '-' + self.digits(10),
                                  self.latin(self.r.randrange(1, 9)), self.r.choice(self.words)])
            server = self.r.choice(['s.whatsapp.net', 'g.us', 'broadcast', self.latin(self.r.randrange(1, 9)), self.r.choice(self.words)])
            s = user + '@' + server
            if s not in RESERVED:
                return s
        return self.plain()

    def data(self, big=False):
        n = self.r.choice([0, 1, 2, 100, 255, 256, 257, 1000, 65535, 65536])
        if big:
            n = self.r.choice([(1 << 20) - 1, 1 << 20, (1 << 20) + 1])
        return bytes([self.r.randrange(256)]) * n if n > 4096 else bytes(self.r.randrange(256) for _ in range(n))

    def attrs(self, many=False):
        n = self.r.choice([0, 0, 1, 2, 3, 5])
        if many:
            n = self.r.choice([126, 127, 128, 129, 200])
        out, seen = [], set()
        while len(out) < n:
            k = self.string()
            if k in seen:
                continue
            seen.add(k)
            # an attribute value may be the empty string (keys may not: the empty key is dictionary entry 0 = "no string")
            out.append((k, '' if self.r.random() < 0.08 else self.string()))
        return out

    def tree(self, depth=0, big=False, wide=False):
        kind = self.r.randrange(3) if depth < 3 else self.r.choice([0, 2])
        tag = self.string()
        attrs = self.attrs(many=(wide and self.r.random() < 0.5))
        if big and depth == 0:
            # a large node in nested position followed by a sibling
            inner = (self.string(), self.attrs(), None, self.data(big=True))
            return (tag, attrs, [inner, self.tree(3)], None) if self.r.random() < 0.7 else (tag, attrs, None, self.data(big=True))
        if kind == 0:
            return (tag, attrs, None, None)
        if kind == 2:
            return (tag, attrs, None, self.data())
        n = self.r.choice([1, 1, 2, 3])
        if wide and depth == 0:
            n = self.r.choice([254, 255, 256, 257, 300])
        return (tag, attrs, [self.tree(depth + 1 if n < 10 else 3) for _ in range(n)], None)


def classify(t, exc):
    """coarse class of a failing input, for known-finding matching"""
    txt = repr(exc)

    def strings(t):
        yield t[0]
        for k, v in t[1]:
            yield k
            yield v
        for c in (t[2] or []):
            yield from strings(c)
    for s in strings(t):
        if '@' in s:
            u, _, srv = s.partition('@')
            if u in RESERVED or srv in RESERVED:
                return 'jid-part-is-reserved-word'
    return 'other:' + txt[:80]


def run(mode, tier, seed, out):
    rng = random.Random(seed)
    td = TokenDictionary()
    enc, dec = WriteEncoder(td), ReadDecoder(td)
    g = Gen(rng, td)
    res = {'mode': mode, 'evaluations': 0, 'distinct': 0, 'violations': [], 'samples': [], 'sections': {}}
    seen = set()
    t0 = time.time()
    n = {'quick': 400, 'thorough': 6000}[tier]
    nbig = {'quick': 3, 'thorough': 25}[tier]

    def record(section, t, what, cls, extra=None):
        if len(res['violations']) < 12:
            res['violations'].append({'section': section, 'class': cls, 'what': what[:300],
                                      'tree': repr(t)[:600], 'extra': extra})
        res['sections'].setdefault(section, {'n': 0, 'bad': 0})['bad'] += 1

    def count(section, key):
        res['evaluations'] += 1
        res['sections'].setdefault(section, {'n': 0, 'bad': 0})['n'] += 1
        h = hashlib.md5(key).hexdigest()
        if h not in seen:
            seen.add(h)

    trees = []
    for i in range(n):
        trees.append(g.tree(wide=(i % 40 == 39)))
    for i in range(nbig):
        trees.append(g.tree(big=True))
    # JIDs whose parts are reserved words / tokens (strings of the quantifier that are not reserved words themselves)
    for s_ in ('xmlstreamstart@x', 'x@xmlstreamend', 'xmlstreamstart@xmlstreamend', 'type@id'):
        trees.append((s_, [(s_, s_)], None, None))
    # every dictionary token once as tag, attribute key and attribute value (complete over the tables)
    words = [w for w in td.dictionary[3:] if w] + td.secondaryDictionary
    for w in words:
        trees.append((w, [(w, w)], None, None))
    # packed strings of every length 1..255
    for L in range(1, 256):
        trees.append(('a', [('n', g.digits(L, '0123456789-.')), ('h', g.digits(L, '0123456789ABCDEF'))], None, None))
    if mode == 'c01':
        for t in trees:
            try:
                b = enc.protocolTreeNodeToBytes(to_node(t))
                count('roundtrip', bytes(bytearray(b[:2000])) + str(len(b)).encode())
                back = from_node(dec.getProtocolTreeNode(bytearray(b)))
                if norm(back) != norm(t):
                    record('roundtrip', t, 'decoded tree differs: %r' % (back,), 'mismatch')
            except Exception as e:
                record('roundtrip', t, 'exception %r' % (e,), classify(t, e))
            if len(res['samples']) < 3:
                res['samples'].append(repr(t)[:300])
    else:
        prim, sec = td.dictionary, td.secondaryDictionary
        for t in trees:
            # (a) library encoder -> reference decoder
            try:
                b = enc.protocolTreeNodeToBytes(to_node(t))
                count('lib-enc->ref-dec', bytes(bytearray(b[:2000])) + str(len(b)).encode())
                back = wa_ref.ref_decode(bytearray(b), prim, sec)
                if norm(back) != norm(t):
                    record('lib-enc->ref-dec', t, 'reference decoder reads a different tree: %r' % (back,), 'mismatch')
            except Exception as e:
                record('lib-enc->ref-dec', t, 'exception %r' % (e,), classify(t, e))
        small = [t for t in trees if len(repr(t)) < 200000]
        reps = {'quick': 2, 'thorough': 6}[tier]
        for t in small:
            for rep in range(reps):
                vec = []

                def choose(kind, options, vec=vec):
                    i = rng.randrange(len(options))
                    vec.append((kind, i, len(options)))
                    return options[i]
                try:
                    b = wa_ref.ref_encode(t, prim, sec, choose, deflate=(rng.random() < 0.2))
                except Exception as e:      # the reference encoder itself must not fail on wf trees
                    record('ref-enc', t, 'reference encoder failed %r' % (e,), 'checker')
                    continue
                count('ref-enc->lib-dec', b[:2000] + str(len(b)).encode())
                try:
                    back = from_node(dec.getProtocolTreeNode(bytearray(b)))
                    if norm(back) != norm(t):
                        record('ref-enc->lib-dec', t, 'library decodes a different tree: %r' % (back,), 'mismatch', extra=str(vec)[:300])
                except Exception as e:
                    record('ref-enc->lib-dec', t, 'exception %r' % (e,), 'decoder-exception:' + type(e).__name__, extra=str(vec)[:300])
            if len(res['samples']) < 3:
                res['samples'].append({'tree': repr(t)[:200], 'choices': str(vec)[:200]})
        # string-valued / packed content alternatives (content position)
        for s in [g.plain() for _ in range(60)] + [g.digits(7), g.digits(8, '0123456789ABCDEF')]:
            for form in ('token-or-raw', 'packed'):
                t = ('a', [], None, s.encode('latin-1'))
                body = wa_ref.enc_list(2, wa_ref.first) + wa_ref.enc_string('a', prim, sec, wa_ref.first)
                if form == 'packed':
                    if not (0 < len(s) < 128 and all(c in wa_ref.NIB for c in s)):
                        continue
                    body += wa_ref.enc_packed(255, s)
                else:
                    if s in prim and prim.index(s) >= 3:
                        body += bytes([prim.index(s)])
                    elif s in sec:
                        body += bytes([236 + sec.index(s) // 256, sec.index(s) % 256])
                    else:
                        continue
                count('string-valued-content', body)
                try:
                    back = from_node(dec.getProtocolTreeNode(bytearray(b'\x00' + body)))
                    if norm(back) != norm(t):
                        record('string-valued-content', t, 'library decodes %r' % (back,), 'mismatch')
                except Exception as e:
                    record('string-valued-content', t, 'exception %r' % (e,), 'decoder-exception:' + type(e).__name__)
        # (c) dictionary tables
        refp = os.path.join(HERE, 'spec', 'data', 'wa_dictionary.json')
        ref = json.load(open(refp))
        for name, lib, rf in (('primary', prim, ref['primary']), ('secondary', sec, ref['secondary'])):
            count('dictionary', name.encode())
            if len(lib) != len(rf):
                record('dictionary', ('', [], None, None), '%s table has %d entries, reference %d' % (name, len(lib), len(rf)), 'dictionary')
            for i, (a, b2) in enumerate(zip(lib, rf)):
                res['evaluations'] += 1
                if a != b2:
                    record('dictionary', ('', [], None, None), '%s[%d] = %r, reference %r' % (name, i, a, b2), 'dictionary')
                    break
        allw = prim + sec
        facts = {
            'sizes 236 + 1024': len(prim) == 236 and len(sec) == 1024,
            'no duplicates within or across tables': len(set(allw)) == len(allw),
            'only entry 0 is empty': all(bool(w) for w in allw[1:]) and allw[0] == '',
            'no @ in any word': all('@' not in w for w in allw),
            'all ASCII': all(ord(c) < 128 for w in allw for c in w),
        }
        for k, v in facts.items():
            count('table-facts', k.encode())
            if not v:
                record('table-facts', ('', [], None, None), 'table fact violated: ' + k, 'dictionary')
    res['distinct'] = len(seen)
    res['wall_s'] = round(time.time() - t0, 2)
    json.dump(res, open(out, 'w'), indent=1)
    return 1 if res['violations'] else 0


if __name__ == '__main__':
    try:
        sys.exit(run(sys.argv[1], sys.argv[2], int(sys.argv[3]), sys.argv[4]))
    except Exception:
        traceback.print_exc()
        sys.exit(3)
