"""Bounded stand-in for C09 (exploration: no discharged contract speaks about the ~100 entity classes; labelled bounded).

    python bounded/entity_check.py <tier> <seed> <out.json>

Corpus: the stanza of every entity class that has a fixture in the repository's own test modules (the "documented shape"),
plus generated VALUES in that shape: every attribute value and every data blob is replaced, kind by kind (ids, timestamps and
counts as canonical decimal numbers, JIDs, flags from the values seen, free text incl. non-ASCII, binary blobs incl. empty and
non-UTF-8), and children that occur as a list (same tag repeated under one parent) are repeated 0..n times.
(1) stanza -> entity -> stanza reproduces the stanza (attribute values compared as text, numbers by value).
(2) the stanza an entity produces is accepted by the REAL binary codec (WriteEncoder / ReadDecoder) and survives it unchanged.
(3) discovery: every class under yowsup/layers/*/protocolentities that defines fromProtocolTreeNode or toProtocolTreeNode is listed
    with whether a fixture covers it (coverage is reported, not hidden)."""
import copy
import glob
import importlib
import io
import json
import os
import random
import re
import sys
import time
import traceback
import unittest

REPO = os.environ.get('PYVC_REPO', '/repo')
sys.path.insert(0, REPO)
import logging                                   # noqa: E402
logging.disable(logging.CRITICAL)


def corpus():
    out = []
    for p in sorted(glob.glob(os.path.join(REPO, 'yowsup', 'layers', '*', 'protocolentities', 'test_*.py'))):
        modname = os.path.relpath(p, REPO)[:-3].replace('/', '.')
        try:
            m = importlib.import_module(modname)
        except Exception:
            continue
        for name in dir(m):
            c = getattr(m, name)
            if isinstance(c, type) and issubclass(c, unittest.TestCase) and hasattr(c, 'setUp') and c.__module__ == modname:
                try:
                    t = c('setUp')
                    t.setUp()
                    if getattr(t, 'node', None) is not None and getattr(t, 'ProtocolEntity', None) is not None:
                        out.append((t.ProtocolEntity, t.node, name))
                except Exception:
                    continue
    return out


TAG = re.compile(r'<(/?)([\w:]+)((?:\s+[^<>]*?)?)\s*(/?)>')
ATTR = re.compile(r'([\w:\-]+)\s*=\s*(?:"([^"]*)"|\'([^\']*)\'|(\{\{[^}]*\}\}[^\s/>,]*)|([^\s/>,]+))')


def sample_for(key, raw):
    """a value for a {{PLACEHOLDER}} / alternatives 'a | b' of a documented example, by the kind of the position"""
    v = raw.strip()
    if '{{' in v or v == '' or v == '?':
        k = key.lower()
        if k in JID_KEYS or 'jid' in k:
            return '4915112345678@s.whatsapp.net'
        if k in ('t', 'timestamp', 'creation', 's_t', 'last', 'expiration'):
            return '1500000000'
        if k in ('id',):
            return '1500000000-7'
        if k in ('offline', 'count', 'value', 'retry', 'code', 'backoff', 'v', 'index', 'sid', 'size', 'width', 'height', 'duration', 'seconds'):
            return '1'
        inner = re.sub(r'[{}]', '', v).strip()
        if '|' in inner:
            return inner.split('|')[0].strip() or 'x'
        return 'x'
    if '|' in v:
        return v.split('|')[0].strip()
    return v


def parse_examples(doc):
    """tolerant reading of the XML-ish examples in a class docstring -> list of (tag, attrs, children, text) trees"""
    out, stack = [], []
    pos = 0
    for m in TAG.finditer(doc):
        text = doc[pos:m.start()].strip()
        pos = m.end()
        if stack and text and not stack[-1][2]:
            stack[-1][3] = text
        closing, tag, attrs, selfclose = m.group(1), m.group(2), m.group(3) or '', m.group(4)
        if closing:
            while stack:
                node = stack.pop()
                done = node[0] == tag
                if stack:
                    stack[-1][2].append(node)
                else:
                    out.append(node)
                if done:
                    break
            continue
        a = {}
        for am in ATTR.finditer(attrs):
            raw = next(g for g in am.groups()[1:] if g is not None)
            a[am.group(1)] = sample_for(am.group(1), raw)
        node = [tag, a, [], None]
        if selfclose:
            if stack:
                stack[-1][2].append(node)
            else:
                out.append(node)
        else:
            stack.append(node)
    while stack:
        node = stack.pop()
        if stack:
            stack[-1][2].append(node)
        else:
            out.append(node)
    return out


def to_node(t):
    from yowsup.structs import ProtocolTreeNode
    tag, attrs, children, text = t
    data = None
    if text and not children:
        tx = text.strip()
        if tx.upper().startswith('HEX:'):
            try:
                data = bytes.fromhex(re.sub(r'[^0-9a-fA-F]', '', tx[4:]))
            except ValueError:
                data = b'x'
        else:
            data = sample_for('data', tx).encode('latin-1', 'replace')
    return ProtocolTreeNode(tag, dict(attrs), [to_node(c) for c in children] if children else None, data)


def docstring_corpus(seen_classes):
    """the documented shapes written in the class docstrings (many classes have no fixture): an example is used only if the class
    parses it and reproduces it - otherwise it is prose, not a shape"""
    out = []
    for p in sorted(glob.glob(os.path.join(REPO, 'yowsup', 'layers', '*', 'protocolentities', '*.py'))):
        if os.path.basename(p).startswith(('test_', '__')):
            continue
        modname = os.path.relpath(p, REPO)[:-3].replace('/', '.')
        try:
            m = importlib.import_module(modname)
        except Exception:
            continue
        for name in dir(m):
            c = getattr(m, name)
            if not (isinstance(c, type) and c.__module__ == modname and c.__doc__ and hasattr(c, 'fromProtocolTreeNode') and hasattr(c, 'toProtocolTreeNode')):
                continue
            k = 0
            for t in parse_examples(c.__doc__):
                try:
                    node = to_node(t)
                    if same(c.fromProtocolTreeNode(node).toProtocolTreeNode(), node):
                        k += 1
                        out.append((c, node, '%s(docstring#%d)' % (name, k)))
                except Exception:
                    continue
    return out


# entities whose child list is a MAPPING in the documentation (one child per key): variants that repeat a key are not documented shapes
KEYED_CHILDREN = {'ResultPrivacyIqProtocolEntity': ('privacy', 'category', 'name')}


def keyed_children_distinct(ecls, node):
    k = KEYED_CHILDREN.get(ecls.__name__)
    if k is None:
        return True
    parent = node.getChild(k[0])
    if parent is None:
        return True
    keys = [c[k[2]] for c in parent.getAllChildren(k[1])]
    return len(keys) == len(set(keys))


def pinned_corpus():
    """documented shapes that a fix made round-trip (known_findings.json, fixed: property=C09 ...).  Unlike docstring_corpus they are
    used UNCONDITIONALLY: if the defect comes back the shape no longer reproduces and that is reported, not filtered away."""
    from yowsup.structs import ProtocolTreeNode as N
    from yowsup.layers.protocol_ib.protocolentities import AccountIbProtocolEntity, OfflineIbProtocolEntity, DirtyIbProtocolEntity
    from yowsup.layers.protocol_groups.protocolentities import RemoveGroupsNotificationProtocolEntity
    from yowsup.layers.protocol_profiles.protocolentities import ResultGetPictureIqProtocolEntity, ResultPrivacyIqProtocolEntity
    from yowsup.layers.protocol_contacts.protocolentities import ResultSyncIqProtocolEntity
    S = 's.whatsapp.net'
    return [
        (AccountIbProtocolEntity, N('ib', {'from': S}, [N('account', {'status': 'active', 'kind': 'paid', 'creation': '1400000000',
                                                                      'expiration': '1500000000'})]), 'AccountIb(pinned)'),
        (OfflineIbProtocolEntity, N('ib', {'from': S}, [N('offline', {'count': '5'})]), 'OfflineIb(pinned)'),
        (DirtyIbProtocolEntity, N('ib', {'from': S}, [N('dirty', {'type': 'groups', 'timestamp': '1400000000'})]), 'DirtyIb(pinned)'),
        (RemoveGroupsNotificationProtocolEntity,
         N('notification', {'notify': 'x', 'id': '1', 't': '1420402514', 'participant': '4915100000001@' + S, 'from': '4915100000000-1400000000@g.us',
                            'type': 'w:gp2', 'mode': 'none', 'offline': '0'},
           [N('remove', {'subject': 's'}, [N('participant', {'jid': '4915100000002@' + S})])]), 'RemoveGroupsNotification(pinned)'),
        (ResultGetPictureIqProtocolEntity, N('iq', {'type': 'result', 'from': '4915100000001@' + S, 'id': '7'},
                                             [N('picture', {'type': 'image', 'id': '77'}, data=b'\xff\xd8abc')]), 'ResultGetPicture(pinned)'),
        (ResultPrivacyIqProtocolEntity, N('iq', {'type': 'result', 'from': '4915100000001@' + S, 'id': '8'},
                                          [N('privacy', {}, [N('category', {'name': 'last', 'value': 'all'}),
                                                             N('category', {'name': 'status', 'value': 'none'})])]), 'ResultPrivacy(pinned)'),
        (ResultSyncIqProtocolEntity, N('iq', {'type': 'result', 'from': '4915100000001@' + S, 'id': '9'},
                                       [N('sync', {'index': '0', 'last': 'false', 'version': '1417046548593182', 'sid': '130615237617000000'})]),
         'ResultSync(pinned)'),
    ]


def alternative_shapes():
    """stanza shapes that the serialiser of the class itself can emit but no fixture / docstring shows: one child out of a closed set of
    kinds.  The fixture of CallProtocolEntity has an <offer> child; the class reads and writes five kinds."""
    from yowsup.structs import ProtocolTreeNode as N
    from yowsup.layers.protocol_calls.protocolentities import CallProtocolEntity
    S = 's.whatsapp.net'
    out = []
    for kind in ('offer', 'transport', 'relaylatency', 'reject', 'terminate'):
        out.append((CallProtocolEntity, N('call', {'t': '1400000000', 'offline': '0', 'id': '1234-5', 'from': '4915100000001@' + S, 'notify': 'n',
                                                  'retry': '1', 'e': '0'}, [N(kind, {'call-id': 'c4ll1d'})]), 'Call(%s)' % kind))
    return out


def discover():
    classes = {}
    for p in sorted(glob.glob(os.path.join(REPO, 'yowsup', 'layers', '*', 'protocolentities', '*.py'))):
        if os.path.basename(p).startswith(('test_', '__')):
            continue
        src = open(p, encoding='utf-8').read()
        for m in re.finditer(r'^class\s+(\w+)', src, re.M):
            classes[m.group(1)] = os.path.relpath(p, REPO)
    return classes


JID_KEYS = {'from', 'to', 'participant', 'jid', 'creator', 'author', 'owner', 's_o', 'remote-jid', 'remote_jid', 'recipient', 'sender'}
NUM = re.compile(r'^(0|[1-9][0-9]*)$')
JID = re.compile(r'^[^@\s]*@[\w.\-]+$')


def candidates(key, v):
    """the values of the kind this position holds (kind from the attribute name, else from the documented value)"""
    if key == 'offline' and v in ('0', '1'):
        return ['0', '1']                    # documented as a flag
    if NUM.match(v):
        if key in ('t', 'timestamp', 'creation', 's_t', 'last', 'expiration'):
            return ['1', '1234567890', '1500012345']          # timestamps: positive
        return ['0', '1', '9', '10', '255', '1234567890', '98765432101']
    if key in JID_KEYS or JID.match(v):
        server = [v.split('@', 1)[1]] if JID.match(v) else ['s.whatsapp.net', 'g.us', 'broadcast']
        return [u + '@' + sv for sv in server for u in ('4915112345678', '1', '4915112345678-1500000000', '120363041234567890', 'status', 'Some.User_1')]
    if key in ('id',):
        return ['1', 'abc', '3EB0A1B2C3', '1500000000-42', 'A.b-c_d']
    if v in ('true', 'false'):
        return [v]
    if key in ('type', 'class', 'xmlns', 'mediatype', 'code', 'action', 'name', 'value', 'count', 'platform', 'reason', 'state',
               'priority', 'category', 'encoding', 'v', 'creation', 'origin') or len(v) <= 3:
        return [v]          # selectors of the shape: kept (other values are other shapes)
    return [v, 'x', 'Gr\xfc\xdfe \xe9', 'a b', v + '1', 'UPPER lower']


def vary_value(rng, key, v):
    return rng.choice(candidates(key, v))


def selectors(ecls, n, rng):
    """attributes / blobs whose value selects the shape: a varied value is refused by the parser (assertion, lookup, conversion).
    Found by probing one position at a time; these positions keep the documented value."""
    keep = set()

    def positions(x, path):
        for k in x.attributes:
            yield path, k
        if x.data is not None and x.tag not in ('proto', 'enc'):
            yield path, None
        for i, c in enumerate(x.children):
            for p in positions(c, path + (i,)):
                yield p

    def at(x, path):
        for i in path:
            x = x.children[i]
        return x
    for path, k in positions(n, ()):
        for _ in range(3):
            m = copy.deepcopy(n)
            t = at(m, path)
            if k is None:
                d = t.data if isinstance(t.data, bytes) else str(t.data).encode()
                try:
                    txt = d.decode()
                    if not txt.isprintable():
                        continue
                    t.data = vary_value(rng, 'data', txt).encode()
                except UnicodeDecodeError:
                    continue
            elif isinstance(t.attributes[k], str):
                t.attributes[k] = vary_value(rng, k, t.attributes[k])
                if _ == 2 and t.attributes[k] == at(n, path).attributes[k] and not NUM.match(t.attributes[k]):
                    t.attributes[k] = t.attributes[k] + '1'          # at least one probe differs from the documented value
            try:
                back = ecls.fromProtocolTreeNode(m).toProtocolTreeNode()
            except Exception:
                keep.add((path, k))
                break
            # a constant of the documented shape: whatever arrives, the entity emits the documented value at this position
            # (protocol constants such as the server domain or the key type); reported in the evidence as such
            try:
                bt, nt = at(back, path), at(n, path)
                vb = bt.data if k is None else bt.attributes.get(k)
                vn = nt.data if k is None else nt.attributes.get(k)
                vm = t.data if k is None else t.attributes.get(k)
                if vm != vn and vb == vn and same(back, n):
                    keep.add((path, k))
                    CONSTANTS.add('%s:%s' % (ecls.__name__, k or 'data'))
                    break
            except Exception:
                pass
    return keep


CONSTANTS = set()


def single_position_sweep(n, keep):
    """every attribute position x every value of its kind, one position at a time (deterministic part of the bound)"""
    def positions(x, path):
        for k in x.attributes:
            yield path, k
        for i, c in enumerate(x.children):
            for p in positions(c, path + (i,)):
                yield p
    for path, k in positions(n, ()):
        if (path, k) in keep:
            continue
        x = n
        for i in path:
            x = x.children[i]
        if not isinstance(x.attributes[k], str):
            continue
        for val in candidates(k, x.attributes[k]):
            if val == x.attributes[k]:
                continue
            m = copy.deepcopy(n)
            y = m
            for i in path:
                y = y.children[i]
            y.attributes[k] = val
            yield m


def vary_node(rng, n, keep=frozenset()):
    """same shape, other values"""
    m = copy.deepcopy(n)

    def walk(x, path=()):
        for k in list(x.attributes):
            if isinstance(x.attributes[k], str) and (path, k) not in keep and rng.random() < 0.7:
                x.attributes[k] = vary_value(rng, k, x.attributes[k])
        if x.data is not None and x.tag not in ('proto', 'enc') and (path, None) not in keep and rng.random() < 0.6:
            d = x.data
            if isinstance(d, bytes):
                try:
                    txt = d.decode()
                    if not txt.isprintable():
                        raise UnicodeDecodeError('x', b'', 0, 1, 'binary')
                    x.data = vary_value(rng, 'data', txt).encode() if NUM.match(txt) or JID.match(txt) else \
                        rng.choice([d, b'x', 'Gr\xfc\xdfe'.encode(), d + b'1'])
                except UnicodeDecodeError:
                    pass        # a binary blob (keys, big-endian numbers): its kind is not known here, the documented value stays
        # list children: same tag repeated under one parent -> repeat 1..n times (never below one: "0..n" only where the fixture shows it)
        tags = [c.tag for c in x.children]
        rep = [t for t in set(tags) if tags.count(t) >= 2]
        listed = False
        if rep and rng.random() < 0.5:
            listed = True
            t = rng.choice(rep)
            proto = [c for c in x.children if c.tag == t]
            others = [c for c in x.children if c.tag != t]
            k = rng.randrange(1, 5)
            x.children = others + [copy.deepcopy(rng.choice(proto)) for _ in range(k)]
        if not listed:
            for i, c in enumerate(x.children):
                walk(c, path + (i,))
    walk(m)
    return m


def node_text(n):
    return str(n)[:500]


def same(a, b):
    """stanza equality, attribute values as text and numbers by value, children as a multiset (ProtocolTreeNode.__eq__ semantics)"""
    if a.tag != b.tag:
        return False

    def normv(v):
        v = v if isinstance(v, str) else str(v)
        return str(int(v)) if NUM.match(v) else v
    aa = {k: normv(v) for k, v in a.attributes.items() if v is not None}
    bb = {k: normv(v) for k, v in b.attributes.items() if v is not None}
    if aa != bb:
        return False
    da, db = a.data, b.data
    if isinstance(da, str):
        da = da.encode()
    if isinstance(db, str):
        db = db.encode()
    if (da or None) != (db or None):
        return False
    if len(a.children) != len(b.children):
        return False
    rest = list(b.children)
    for c in a.children:
        for i, d in enumerate(rest):
            if same(c, d):
                del rest[i]
                break
        else:
            return False
    return True


def first_difference(a, b, path=''):
    """where two stanzas differ: 'child/child@attr=value-in-a' (stable name of a violation: the specific input position)"""
    here = path + a.tag
    if a.tag != b.tag:
        return here + ':tag'
    ka = {k: v for k, v in a.attributes.items() if v is not None}
    kb = {k: v for k, v in b.attributes.items() if v is not None}
    for k in sorted(set(ka) | set(kb)):
        va, vb = ka.get(k), kb.get(k)
        if va is None or vb is None or str(va) != str(vb):
            if va is not None and vb is not None and NUM.match(str(va)) and NUM.match(str(vb)) and int(va) == int(vb):
                continue
            return '%s@%s=%s' % (here, k, va if (va is None or len(str(va)) < 12) else 'text')
    if (a.data or None) != (b.data or None):
        return here + ':data'
    if len(a.children) != len(b.children):
        return here + ':children=%d' % len(a.children)
    for c in a.children:
        if not any(same(c, d) for d in b.children):
            cand = [d for d in b.children if d.tag == c.tag]
            return first_difference(c, cand[0], here + '/') if cand else here + '/' + c.tag + ':missing'
    return here + ':?'


def run(tier, seed, out):
    rng = random.Random(seed)
    res = {'evaluations': 0, 'distinct': 0, 'violations': [], 'samples': [], 'sections': {}}
    t0 = time.time()
    real_stdout = sys.stdout
    sys.stdout = io.StringIO()
    try:
        from yowsup.layers.coder.encoder import WriteEncoder
        from yowsup.layers.coder.decoder import ReadDecoder
        from yowsup.layers.coder.tokendictionary import TokenDictionary
        td = TokenDictionary()
        enc, dec = WriteEncoder(td), ReadDecoder(td)
        cases = corpus()
        classes = discover()
        with_fixture = {c.__name__ for c, _, _ in cases}
        doc_cases = docstring_corpus(with_fixture)
        cases = cases + doc_cases + pinned_corpus() + alternative_shapes()
        covered = {c.__name__ for c, _, _ in cases}
        res['samples'].append({'entity_classes_found': len(classes), 'with_fixture': len(with_fixture & set(classes)),
                               'docstring_shapes_used': len(doc_cases), 'classes_covered': len(covered & set(classes)),
                               'not_covered': sorted(set(classes) - covered)[:80]})
        reps = 12 if tier == 'quick' else 300

        def bad(cls, what, **kw):
            if len([v for v in res['violations'] if v['class'] == cls]) < 1:
                res['violations'].append(dict({'class': cls, 'what': what}, **kw))
        for ecls, node0, fname in cases:
            sec = res['sections'].setdefault(ecls.__name__, {'n': 0, 'bad': 0})
            # the documented example itself must round-trip, else the fixture (not the variation) is at fault
            try:
                base_ok = same(ecls.fromProtocolTreeNode(node0).toProtocolTreeNode(), node0)
            except Exception:
                base_ok = False
            keep = selectors(ecls, node0, rng) if base_ok else set()
            sendable = not re.match(r'^(Incoming|Result|Success|Failure|Error|List.*Result|Info.*Result)', ecls.__name__) \
                and not ecls.__name__.endswith(('NotificationProtocolEntity', 'EncryptNotification', 'Notification', 'IbProtocolEntity'))
            sweep = [node0] + (list(single_position_sweep(node0, keep)) if base_ok else [])
            for rep in range(len(sweep) + reps):
                node = sweep[rep] if rep < len(sweep) else vary_node(rng, node0, keep)
                if not keyed_children_distinct(ecls, node):
                    continue            # outside the documented shape: the children are a mapping, a key occurs once
                sec['n'] += 1
                res['evaluations'] += 1
                try:
                    ent = ecls.fromProtocolTreeNode(node)
                    back = ent.toProtocolTreeNode()
                except Exception as e:
                    sec['bad'] += 1
                    bad('roundtrip:%s:%s' % (ecls.__name__, type(e).__name__), '%s: %s' % (type(e).__name__, str(e)[:200]),
                        stanza=node_text(node), documented_example_roundtrips=base_ok,
                        where=traceback.format_exc().strip().splitlines()[-3][:160])
                    continue
                if not same(back, node):
                    sec['bad'] += 1
                    bad('roundtrip:%s:differs:%s' % (ecls.__name__, first_difference(node, back)), 'stanza -> entity -> stanza differs',
                        stanza=node_text(node), got=node_text(back), documented_example_roundtrips=base_ok)
                    continue
                if not sendable or any(v is None for v in back.attributes.values()):
                    continue            # only stanzas that are sent meet the codec from this side (name heuristic, reported in the evidence)
                try:
                    wire = enc.protocolTreeNodeToBytes(back)
                    again = dec.getProtocolTreeNode(bytearray(wire))
                    if not same(again, back):
                        sec['bad'] += 1
                        bad('codec:%s:differs' % ecls.__name__, 'the entity\'s stanza does not survive the binary codec', stanza=node_text(back), got=node_text(again))
                except Exception as e:
                    sec['bad'] += 1
                    bad('codec:%s:%s' % (ecls.__name__, type(e).__name__), 'the binary codec rejects the entity\'s stanza: %s: %s' % (type(e).__name__, str(e)[:200]),
                        stanza=node_text(back), where=traceback.format_exc().strip().splitlines()[-3][:160])
        # the listed finding: text beyond U+00FF in an attribute of a stanza that is sent
        sec = res['sections'].setdefault('codec-non-latin1', {'n': 0, 'bad': 0})
        from yowsup.layers.protocol_groups.protocolentities import CreateGroupsIqProtocolEntity
        from yowsup.layers.protocol_presence.protocolentities import PresenceProtocolEntity
        for ent in (CreateGroupsIqProtocolEntity('caf\xe9 \u2603', participants=['1@s.whatsapp.net']), PresenceProtocolEntity(name='J\u00fcrgen \u2603')):
            sec['n'] += 1
            res['evaluations'] += 1
            try:
                n_ = ent.toProtocolTreeNode()
                if not same(dec.getProtocolTreeNode(bytearray(enc.protocolTreeNodeToBytes(n_))), n_):
                    raise ValueError('differs after the codec')
            except Exception as e:
                sec['bad'] += 1
                bad('codec-non-latin1', 'a text attribute containing a character above U+00FF (%s) is rejected by the binary codec: %s: %s'
                    % (type(ent).__name__, type(e).__name__, str(e)[:100]))
    finally:
        sys.stdout = real_stdout
    res['samples'].append({'positions_treated_as_constants_of_the_shape': sorted(CONSTANTS)})
    res['distinct'] = res['evaluations']
    res['violations'] = res['violations'][:40]
    res['wall_s'] = round(time.time() - t0, 2)
    json.dump(res, open(out, 'w'), indent=1, default=str)
    return 1 if res['violations'] else 0


if __name__ == '__main__':
    try:
        sys.exit(run(sys.argv[1], int(sys.argv[2]), sys.argv[3]))
    except Exception:
        traceback.print_exc()
        sys.exit(3)
