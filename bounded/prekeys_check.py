"""Native facts and bounded stand-ins for C14.

    python bounded/prekeys_check.py <tier> <seed> <out.json>

(1) frame, by a scan of the whole repository's ASTs: the column prekeys.sent_to_server is written only by
    LitePreKeyStore.setAsSent; setAsSent is called only by AxolotlManager.set_prekeys_as_sent; that is called only by
    AxolotlControlLayer.on_keys_flushed; on_keys_flushed is referenced only inside flush_keys (the result continuation).
(2) adjustId(i) is the 3-byte big-endian form of i for all 0 <= i < 2**24 (thorough: all; quick: boundaries + sample);
    adjustArray is the identity on byte strings.
(3) the upload stanza built by the REAL flush_keys from real python-axolotl keys carries identity[1:], the 3-byte
    registration id, the signed prekey triple whose signature verifies under the identity key, and exactly the given
    prekeys id -> public key[1:].
(4) a bounded history over the real store: generate / upload lost / upload confirmed / restart.
"""
import ast
import json
import os
import random
import sqlite3
import sys
import tempfile
import time
import traceback

REPO = os.environ.get('PYVC_REPO', '/repo')
sys.path.insert(0, REPO)


def scan_frame(res):
    writes, calls_setAsSent, calls_setsent, refs_flushed = [], [], [], []
    for root, _, files in os.walk(os.path.join(REPO, 'yowsup')):
        for fn in files:
            if not fn.endswith('.py'):
                continue
            p = os.path.join(root, fn)
            rel = os.path.relpath(p, REPO)
            try:
                tree = ast.parse(open(p, encoding='utf-8').read())
            except Exception:
                continue
            for cls in [n for n in ast.walk(tree) if isinstance(n, ast.ClassDef)] + [tree]:
                for f in [n for n in (cls.body if hasattr(cls, 'body') else []) if isinstance(n, ast.FunctionDef)]:
                    where = '%s:%s.%s' % (rel, getattr(cls, 'name', ''), f.name)
                    for n in ast.walk(f):
                        if isinstance(n, ast.Constant) and isinstance(n.value, str) and 'sent_to_server' in n.value:
                            q = n.value.strip().upper()
                            if q.startswith(('UPDATE', 'INSERT', 'REPLACE', 'DELETE')):
                                writes.append(where)
                        if isinstance(n, ast.Attribute) and n.attr == 'setAsSent':
                            calls_setAsSent.append(where)
                        if isinstance(n, ast.Attribute) and n.attr == 'set_prekeys_as_sent':
                            calls_setsent.append(where)
                        if isinstance(n, ast.Attribute) and n.attr == 'on_keys_flushed':
                            refs_flushed.append(where)
    want = {
        'writes of sent_to_server': (sorted(set(writes)), ['yowsup/axolotl/store/sqlite/liteprekeystore.py:LitePreKeyStore.setAsSent']),
        'uses of setAsSent': (sorted(set(calls_setAsSent)), ['yowsup/axolotl/manager.py:AxolotlManager.set_prekeys_as_sent']),
        'uses of set_prekeys_as_sent': (sorted(set(calls_setsent)), ['yowsup/layers/axolotl/layer_control.py:AxolotlControlLayer.on_keys_flushed']),
        'uses of on_keys_flushed': (sorted(set(refs_flushed)), ['yowsup/layers/axolotl/layer_control.py:AxolotlControlLayer.flush_keys']),
    }
    for k, (got, exp) in want.items():
        res['evaluations'] += 1
        res['sections'].setdefault('frame-scan', {'n': 0, 'bad': 0})['n'] += 1
        if got != exp:
            res['sections']['frame-scan']['bad'] += 1
            res['violations'].append({'class': 'frame', 'what': '%s: %r (expected only %r)' % (k, got, exp)})


def run(tier, seed, out):
    rng = random.Random(seed)
    import io
    import logging
    logging.disable(logging.CRITICAL)
    real_stdout = sys.stdout
    sys.stdout = io.StringIO()
    res = {'evaluations': 0, 'distinct': 0, 'violations': [], 'samples': [], 'sections': {}}
    t0 = time.time()
    scan_frame(res)
    from yowsup.layers.axolotl.layer_control import AxolotlControlLayer
    from axolotl.util.keyhelper import KeyHelper
    from axolotl.ecc.curve import Curve
    layer = object.__new__(AxolotlControlLayer)
    ids = list(range(0, 2 ** 24)) if tier == 'thorough' else \
        [0, 1, 15, 16, 255, 256, 4095, 4096, 65535, 65536, 2 ** 20 - 1, 2 ** 20, 2 ** 24 - 2, 2 ** 24 - 1] + [rng.randrange(2 ** 24) for _ in range(3000)]
    sec = res['sections'].setdefault('adjustId', {'n': 0, 'bad': 0})
    for i in ids:
        sec['n'] += 1
        try:
            got = layer.adjustId(i)
            if got != i.to_bytes(3, 'big'):
                sec['bad'] += 1
                if sec['bad'] <= 2:
                    res['violations'].append({'class': 'adjustId', 'what': 'adjustId(%d) = %r' % (i, got)})
        except Exception as e:
            sec['bad'] += 1
            if sec['bad'] <= 2:
                res['violations'].append({'class': 'adjustId', 'what': 'adjustId(%d) raised %r' % (i, e)})
    res['evaluations'] += len(ids)
    sec = res['sections'].setdefault('adjustArray', {'n': 0, 'bad': 0})
    for _ in range(200):
        b = bytes(rng.randrange(256) for _ in range(rng.randrange(0, 40)))
        sec['n'] += 1
        res['evaluations'] += 1
        if bytes(layer.adjustArray(b)) != b:
            sec['bad'] += 1
            res['violations'].append({'class': 'adjustArray', 'what': 'adjustArray(%r) = %r' % (b, layer.adjustArray(b))})
    # (3) upload content
    sec = res['sections'].setdefault('upload-content', {'n': 0, 'bad': 0})
    for rep in range(5 if tier == 'quick' else 40):
        sec['n'] += 1
        res['evaluations'] += 1
        identity = KeyHelper.generateIdentityKeyPair()
        regid = KeyHelper.generateRegistrationId(True)
        start = rng.randrange(1, 2 ** 24 - 50)
        prekeys = KeyHelper.generatePreKeys(start, rng.randrange(0, 6))
        spk = KeyHelper.generateSignedPreKey(identity, rng.randrange(0, 2 ** 24 - 1))

        class M:
            pass
        m = M()
        m.identity = identity
        m.registration_id = regid
        layer._manager = m
        sent = []
        layer._sendIq = lambda e, ok, err: sent.append((e, ok, err))
        try:
            layer.flush_keys(spk, prekeys)
            e = sent[0][0]
            node = e.toProtocolTreeNode()
            probs = []
            if node.getChild('identity').data != identity.getPublicKey().serialize()[1:]:
                probs.append('identity')
            if node.getChild('registration').data != regid.to_bytes(max(3, (regid.bit_length() + 7) // 8), 'big'):
                probs.append('registration id')
            sk = node.getChild('skey')
            if sk.getChild('id').data != spk.getId().to_bytes(3, 'big') or sk.getChild('value').data != spk.getKeyPair().getPublicKey().serialize()[1:] \
                    or sk.getChild('signature').data != spk.getSignature():
                probs.append('signed prekey triple')
            if not Curve.verifySignature(identity.getPublicKey().getPublicKey(), spk.getKeyPair().getPublicKey().serialize(), spk.getSignature()):
                probs.append('signature does not verify under the identity key')
            got = {k.getChild('id').data: k.getChild('value').data for k in node.getChild('list').getAllChildren()}
            want = {p.getId().to_bytes(3, 'big'): p.getKeyPair().getPublicKey().serialize()[1:] for p in prekeys}
            if got != want:
                probs.append('prekey list')
            if probs:
                sec['bad'] += 1
                res['violations'].append({'class': 'upload-content', 'what': ', '.join(probs)})
        except Exception as ex:
            sec['bad'] += 1
            res['violations'].append({'class': 'upload-content', 'what': 'raised %r %s' % (ex, traceback.format_exc()[-300:])})
    # (4) bounded history on the real store + manager: pending until confirmed, never afterwards
    from yowsup.axolotl.store.sqlite.liteaxolotlstore import LiteAxolotlStore
    from yowsup.axolotl.manager import AxolotlManager
    sec = res['sections'].setdefault('history', {'n': 0, 'bad': 0})
    for rep in range(3 if tier == 'quick' else 30):
        d = tempfile.mkdtemp()
        db = os.path.join(d, 'axolotl.db')
        AxolotlManager.COUNT_GEN_PREKEYS = 6        # small generation batch (the quantifier of C14)
        confirmed, offered_log = set(), []
        try:
            for step in range(rng.randrange(3, 8)):
                sec['n'] += 1
                res['evaluations'] += 1
                mgr = AxolotlManager(LiteAxolotlStore(db), 'u')        # (re)start
                mgr.level_prekeys()
                unsent = mgr.load_unsent_prekeys()
                ids_ = sorted(k.getId() for k in unsent)
                if set(ids_) & confirmed:
                    sec['bad'] += 1
                    res['violations'].append({'class': 'history', 'what': 'confirmed keys offered again: %r' % sorted(set(ids_) & confirmed)})
                allids = {k.getId() for k in mgr._store.loadPreKeys()}
                if (allids - confirmed) != set(ids_):
                    sec['bad'] += 1
                    res['violations'].append({'class': 'history', 'what': 'unconfirmed keys not offered: %r' % sorted((allids - confirmed) - set(ids_))})
                offered_log.append(ids_)
                outcome = rng.choice(['result', 'error', 'lost'])
                if outcome == 'result' and unsent:
                    mgr.set_prekeys_as_sent(unsent)
                    confirmed |= set(ids_)
                if rng.random() < 0.3:
                    mgr.level_prekeys(force=True)
        except Exception as ex:
            sec['bad'] += 1
            res['violations'].append({'class': 'history', 'what': 'raised %r %s' % (ex, traceback.format_exc()[-300:])})
        if len(res['samples']) < 2:
            res['samples'].append({'history_offered_ids': offered_log[:4]})
    # (5) bounded history through the REAL control layer handlers (on_connected / onAuthed / key-count notification /
    #     result and error continuations as registered with _sendIq), uploads may overlap, confirmations may be lost
    from yowsup.layers import YowLayerEvent
    from yowsup.structs import ProtocolTreeNode
    sec = res['sections'].setdefault('layer-history', {'n': 0, 'bad': 0})
    for rep in range(25 if tier == 'quick' else 300):
        d = tempfile.mkdtemp()
        db = os.path.join(d, 'axolotl.db')
        AxolotlManager.COUNT_GEN_PREKEYS = 5
        confirmed, log = set(), []
        try:
            for session in range(rng.randrange(2, 5)):
                mgr = AxolotlManager(LiteAxolotlStore(db), 'u')        # process (re)start
                L = AxolotlControlLayer()
                inflight = []

                class Prof:
                    axolotl_manager = mgr
                props = {'profile': Prof()}
                L.getProp = lambda k, default=None: props.get(k, default)
                L.setProp = lambda k, v: props.__setitem__(k, v)
                L.toLower = lambda n: None
                L.toUpper = lambda n: None
                L.broadcastEvent = lambda ev: None
                L._sendIq = lambda e, ok, err: inflight.append((e, ok, err))
                L.on_connected(YowLayerEvent('org.openwhatsapp.yowsup.event.network.connected'))
                offered = sorted(k.getId() for k in L._unsent_prekeys)
                sec['n'] += 1
                res['evaluations'] += 1
                allids = {k.getId() for k in mgr._store.loadPreKeys()}
                if set(offered) & confirmed:
                    sec['bad'] += 1
                    res['violations'].append({'class': 'layer-history', 'what': 'confirmed keys offered again after %r: %r' % (log, sorted(set(offered) & confirmed))})
                if (allids - confirmed) - set(offered):
                    sec['bad'] += 1
                    res['violations'].append({'class': 'layer-history', 'what': 'unconfirmed keys no longer pending after %r: %r' % (log, sorted((allids - confirmed) - set(offered)))})
                L.onAuthed(YowLayerEvent('org.openwhatsapp.yowsup.event.auth.authed', passive=bool(props.get('org.openwhatsapp.yowsup.prop.auth.passive'))))
                log.append('login')
                for step in range(rng.randrange(0, 5)):
                    act = rng.choice(['count', 'result', 'result', 'error', 'lose'])
                    if act == 'count':
                        L.onRequestKeysEncryptNotification(ProtocolTreeNode('notification', {'id': '1', 'type': 'encrypt', 'from': 's.whatsapp.net', 't': '1'},
                                                                            [ProtocolTreeNode('count', {'value': '0'})]))
                        log.append('count')
                    elif inflight:
                        e, ok, err = inflight.pop(rng.randrange(len(inflight)))
                        ids_ = {int.from_bytes(k, 'big') for k in e.preKeys}
                        if act == 'result':
                            ok(None, e)
                            confirmed |= ids_
                            log.append('result%r' % sorted(ids_)[:2])
                        elif act == 'error':
                            try:
                                err(None, e)
                            except Exception:
                                pass
                            log.append('error')
                        else:
                            log.append('lost')
                del L, mgr
        except Exception as ex:
            sec['bad'] += 1
            res['violations'].append({'class': 'layer-history', 'what': 'raised %r %s' % (ex, traceback.format_exc()[-400:])})
    sys.stdout = real_stdout
    res['distinct'] = res['evaluations']
    res['violations'] = res['violations'][:10]
    res['wall_s'] = round(time.time() - t0, 2)
    json.dump(res, open(out, 'w'), indent=1, default=str)
    return 1 if res['violations'] else 0


if __name__ == '__main__':
    try:
        sys.exit(run(sys.argv[1], int(sys.argv[2]), sys.argv[3]))
    except Exception:
        traceback.print_exc()
        sys.exit(3)
