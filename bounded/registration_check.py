"""Bounded cross-check for C20 against independent computations (standard library / cryptography).

    python bounded/registration_check.py <tier> <seed> <out.json>
"""
import base64
import hashlib
import hmac
import json
import os
import random
import sys
import time
import traceback
import urllib.parse

sys.path.insert(0, os.environ.get('PYVC_REPO', '/repo'))
HERE = os.path.dirname(os.path.dirname(os.path.abspath(__file__)))
sys.path.insert(0, HERE)

from yowsup.env.env_android import AndroidYowsupEnv               # noqa: E402
from yowsup.common.http.warequest import WARequest                 # noqa: E402
from axolotl.ecc.curve import Curve                                # noqa: E402
from axolotl.ecc.djbec import DjbECPublicKey                       # noqa: E402
from cryptography.hazmat.primitives.ciphers.aead import AESGCM     # noqa: E402
from spec import registration as ref                               # noqa: E402


def rand_text(rng, n):
    pools = [range(32, 127), range(0, 256), range(0x100, 0x800), range(0x800, 0xD800), range(0x10000, 0x10400)]
    return ''.join(chr(rng.choice(rng.choice(pools))) for _ in range(n))


def run(tier, seed, out):
    rng = random.Random(seed)
    res = {'evaluations': 0, 'distinct': 0, 'violations': [], 'samples': [], 'sections': {}}
    n = {'quick': 300, 'thorough': 20000}[tier]
    seen = set()
    t0 = time.time()

    def bad(section, cls, what):
        res['sections'].setdefault(section, {'n': 0, 'bad': 0})['bad'] += 1
        if len(res['violations']) < 10:
            res['violations'].append({'section': section, 'class': cls, 'what': what[:400]})

    def count(section, key):
        res['evaluations'] += 1
        res['sections'].setdefault(section, {'n': 0, 'bad': 0})['n'] += 1
        seen.add((section, key))
    # --- assumed facts of the proofs
    count('facts', 'keylen')
    if len(base64.b64decode(ref.REF_KEY)) < 64:
        bad('facts', 'token', 'decoded key shorter than 64 bytes')
    for name, lib, rf in (('signature', AndroidYowsupEnv._SIGNATURE, ref.REF_SIGNATURE), ('classes', AndroidYowsupEnv._MD5_CLASSES, ref.REF_MD5_CLASSES),
                          ('key', AndroidYowsupEnv._KEY, ref.REF_KEY)):
        count('facts', name)
        if lib != rf:
            bad('facts', 'token', 'embedded constant %s differs from the reference copy' % name)
    # --- token == HMAC-SHA1(key[:64], sig || classes || phone), base64
    env = AndroidYowsupEnv()
    key = base64.b64decode(ref.REF_KEY)[:64]
    phones = ['', '0', '4915225256022', '1' * 40] + [''.join(rng.choice('0123456789') for _ in range(rng.randrange(1, 16))) for _ in range(n)] \
        + [rand_text(rng, rng.randrange(1, 8)) for _ in range(n // 10)]
    for p in phones:
        count('token', p)
        want = base64.b64encode(hmac.new(key, base64.b64decode(ref.REF_SIGNATURE) + base64.b64decode(ref.REF_MD5_CLASSES) + p.encode(), hashlib.sha1).digest())
        try:
            got = env.getToken(p)
            if got != want:
                bad('token', 'token', 'getToken(%r) = %r, independent HMAC-SHA1 gives %r' % (p, got, want))
        except Exception as e:
            bad('token', 'token', 'getToken(%r) raised %r' % (p, e))
    if len(res['samples']) < 3:
        res['samples'].append({'phone': phones[2], 'token': env.getToken(phones[2]).decode()})
    # --- percent-encoding: standard decoding returns the value; spec function agrees
    vals = ['', ' ', '-_~', 'a b&c=d', '%', '+', 'é', '€', '\U0001F600', '/?#[]@!$\'()*,;', b'', b'\x00\xff-_~ ', 0, 12345, -7]
    for _ in range(n):
        k = rng.randrange(3)
        if k == 0:
            vals.append(rand_text(rng, rng.randrange(0, 12)))
        elif k == 1:
            vals.append(bytes(rng.randrange(256) for _ in range(rng.randrange(0, 12))))
        else:
            vals.append(rng.randrange(-10**6, 10**12))
    # every single character of the BMP boundary classes and every byte value
    vals += [chr(c) for c in list(range(0, 0x300)) + [0x7FF, 0x800, 0xFFFF, 0x10000, 0x10FFFF]] + [bytes([b]) for b in range(256)]
    for v in vals:
        count('urlencode', repr(v))
        try:
            enc = WARequest.urlencode(v)
            expect = v if isinstance(v, bytes) else str(v).encode('utf-8') if not isinstance(v, str) else v.encode('utf-8')
            if isinstance(v, str) and any(0xD800 <= ord(c) < 0xE000 for c in v):
                continue
            if urllib.parse.unquote_to_bytes(enc) != expect:
                bad('urlencode', 'urlencode', 'urlencode(%r) = %r decodes to %r' % (v, enc, urllib.parse.unquote_to_bytes(enc)))
            if isinstance(v, str):
                want = ''.join(map(chr, ref.wa_urlencode([ord(c) for c in v])))
                if enc != want:
                    bad('urlencode', 'urlencode', 'urlencode(%r) = %r, spec function gives %r' % (v, enc, want))
            if any(c in enc for c in '-_~'):
                bad('urlencode', 'urlencode', 'unescaped - _ ~ in %r' % enc)
        except UnicodeEncodeError:
            continue
        except Exception as e:
            bad('urlencode', 'urlencode', 'urlencode(%r) raised %r' % (v, e))
    # --- parameter lists: order and joining
    for _ in range(n // 5):
        params = [(rand_text(rng, 1).replace('&', 'k').replace('=', 'k') or 'k', rng.choice(vals[:40])) for _ in range(rng.randrange(0, 5))]
        if params and _ % 3 == 0:
            # a parameter NAME may occur more than once: both occurrences are transmitted, in their positions
            params.insert(rng.randrange(0, len(params) + 1), (params[0][0], rng.choice(vals[:40])))
        count('urlencodeParams', repr(params))
        try:
            s = WARequest.urlencodeParams(params)
            want = '&'.join('%s=%s' % (k, WARequest.urlencode(v)) for k, v in params)
            if s != want:
                bad('urlencodeParams', 'urlencodeParams', '%r -> %r, expected %r' % (params, s, want))
        except UnicodeEncodeError:
            continue
        except Exception as e:
            bad('urlencodeParams', 'urlencodeParams', '%r raised %r' % (params, e))
    # --- encrypted blob: decrypts with the matching private key to exactly the encoded parameter string; fresh ephemeral key
    req = object.__new__(WARequest)
    for _ in range(max(10, n // 20)):
        params = [('cc', '49'), ('in', ''.join(rng.choice('0123456789') for _ in range(8))), ('t', rand_text(rng, rng.randrange(0, 6)))]
        count('encryptParams', repr(params))
        try:
            rk = Curve.generateKeyPair()
            a = req.encryptParams(params, rk.publicKey)
            b = req.encryptParams(params, rk.publicKey)
            if not (isinstance(a, list) and len(a) == 1 and a[0][0] == 'ENC'):
                bad('encryptParams', 'encryptParams', 'result shape %r' % (a,))
                continue
            blob = base64.b64decode(a[0][1])
            eph = DjbECPublicKey(blob[:32])
            ct = blob[32:]
            pt = AESGCM(Curve.calculateAgreement(eph, rk.privateKey)).decrypt(b'\x00' * 12, ct, b'')
            if pt != WARequest.urlencodeParams(params).encode():
                bad('encryptParams', 'encryptParams', 'decrypts to %r' % pt)
            if base64.b64decode(b[0][1])[:32] == blob[:32]:
                bad('encryptParams', 'encryptParams', 'ephemeral key reused across requests')
        except UnicodeEncodeError:
            continue
        except Exception as e:
            bad('encryptParams', 'encryptParams', 'raised %r' % (e,))
    res['distinct'] = len(seen)
    res['wall_s'] = round(time.time() - t0, 2)
    json.dump(res, open(out, 'w'), indent=1, default=str)
    return 1 if res['violations'] else 0


if __name__ == '__main__':
    try:
        sys.exit(run(sys.argv[1], int(sys.argv[2]), sys.argv[3]))
    except Exception:
        traceback.print_exc()
        sys.exit(3)
