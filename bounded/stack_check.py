"""Bounded stand-in for the whole-stack conjuncts of C18 (wiring of every composition, parallel fan-out, event walk
through assembled stacks, deferred events, interfaces by class, the 32 flag combinations of the default helpers).

    python bounded/stack_check.py <tier> <seed> <out.json>

Shapes: all stacks of depth 1..D over recording layers with parallel groups of 1..4 members at every position
(quick: D<=4 exhaustively over a shape alphabet + random to depth 6; thorough: more), both order conventions, classes
vs instances vs implicit tuples, every emitter / consumer position, detached and normal events."""
import itertools
import json
import os
import random
import sys
import time
import traceback
import logging
logging.disable(logging.CRITICAL)

HERE = os.path.dirname(os.path.dirname(os.path.abspath(__file__)))
sys.path.insert(0, os.environ.get('PYVC_REPO', '/repo'))

from yowsup.layers import YowLayer, YowParallelLayer, YowLayerEvent, YowLayerInterface   # noqa: E402
from yowsup.stacks import YowStack, YowStackBuilder                                       # noqa: E402

LOG = []


def mk(name):
    class Rec(YowLayer):
        consume = set()

        def __init__(self):
            super(Rec, self).__init__()
            self.interface = YowLayerInterface(self)

        def send(self, data):
            LOG.append(('send', name, data))
            self.toLower(data + [name])

        def receive(self, data):
            LOG.append(('recv', name, data))
            self.toUpper(data + [name])

        def onEvent(self, ev):
            LOG.append(('event', name, ev.getName()))
            return ev.getName() in Rec.consume
    Rec.__name__ = name
    Rec.tag = name
    return Rec


def flat(shape):
    out = []
    for s in shape:
        out.append(list(s) if isinstance(s, tuple) else [s])
    return out


def check_shape(shape, mode, res, rng):
    """shape: list of names or tuples of names (parallel group), bottom first."""
    classes = {}
    spec = []
    for s in shape:
        if isinstance(s, tuple):
            cs = tuple(classes.setdefault(n, mk(n)) for n in s)
            spec.append(YowParallelLayer(cs) if mode != 'implicit' else cs)
        else:
            c = classes.setdefault(s, mk(s))
            spec.append(c() if mode == 'instances' else c)
    rev = (mode == 'reversed')
    arr = tuple(spec[::-1]) if rev else tuple(spec)
    stack = YowStack(arr, reversed=rev)
    insts = stack._YowStack__stackInstances
    levels = flat(shape)
    bad = []
    if len(insts) != len(shape):
        bad.append('instance count %d != %d' % (len(insts), len(shape)))
    # data down from the top: every level sees it once per producing member of the level above
    del LOG[:]
    stack.send([])
    exp = []
    paths = [[]]
    for lvl in reversed(levels):
        nxt = []
        for p in paths:
            for n in lvl:
                exp.append(('send', n, p))
                nxt.append(p + [n])
        paths = nxt
    if sorted(map(repr, LOG)) != sorted(map(repr, exp)):
        bad.append('send fan-out differs: %r vs %r' % (LOG[:6], exp[:6]))
    del LOG[:]
    stack.receive([])
    exp = []
    paths = [[]]
    for lvl in levels:
        nxt = []
        for p in paths:
            for n in lvl:
                exp.append(('recv', n, p))
                nxt.append(p + [n])
        paths = nxt
    if sorted(map(repr, LOG)) != sorted(map(repr, exp)):
        bad.append('receive fan-out differs: %r vs %r' % (LOG[:6], exp[:6]))
    # order inside one path: strictly layer by layer
    # events: emitted from the bottom, seen once per layer in stack order until consumed
    for cons_level in list(range(len(levels))) + [None]:
        for detached in (False, True):
            for cl in classes.values():
                cl.consume = set()
            j = 0
            if cons_level is not None:
                # one member of the level consumes: the members before it see the event, the ones after it do not
                j = rng.randrange(len(levels[cons_level]))
                classes[levels[cons_level][j]].consume = {'E'}
            del LOG[:]
            ev = YowLayerEvent('E', detached=True) if detached else YowLayerEvent('E')
            stack.emitEvent(ev)
            # drain the deferred queue (what YowStack.loop does)
            q = YowStack._YowStack__detachedQueue
            while not q.empty():
                q.get(False)()
            seen = [n for k, n, e in LOG if k == 'event']
            if cons_level is None:
                expected = [n for lvl in levels for n in lvl]
            else:
                expected = [n for lvl in levels[:cons_level] for n in lvl] + levels[cons_level][:j + 1]
            if seen != expected:
                bad.append('emitEvent consumed at level %s member %d detached=%s: seen %r expected %r' % (cons_level, j, detached, seen, expected))
            del LOG[:]
            ev = YowLayerEvent('E', detached=True) if detached else YowLayerEvent('E')
            stack.broadcastEvent(ev)
            while not q.empty():
                q.get(False)()
            seen = [n for k, n, e in LOG if k == 'event']
            if cons_level is None:
                expected = [n for lvl in reversed(levels) for n in lvl]
            else:
                expected = [n for lvl in reversed(levels[cons_level + 1:]) for n in lvl] + levels[cons_level][:j + 1]
            if seen != expected:
                bad.append('broadcastEvent consumed at level %s member %d detached=%s: seen %r expected %r' % (cons_level, j, detached, seen, expected))
    for cl in classes.values():
        cl.consume = set()
    # interfaces by class, also inside parallel groups
    for n, c in classes.items():
        iface = stack.getLayerInterface(c)
        if iface is None or type(iface._layer).__name__ != n:
            bad.append('getLayerInterface(%s) -> %r' % (n, iface))
    res['evaluations'] += 1
    if bad:
        res['violations'].append({'class': 'shape', 'shape': repr(shape), 'mode': mode, 'what': bad[:3]})


def scan_links(res):
    """frame fact used by contracts/C18_stack.py (given= of the deferred callbacks): the layer links __upper / __lower are
    assigned only in YowLayer.setLayers (and the class-level None defaults), and setLayers is called only by YowLayer.__init__
    (None, None), the stack constructor and YowStack.addPostConstructLayer."""
    import ast
    repo = os.environ.get('PYVC_REPO', '/repo')
    writes, callers = set(), set()
    for root, _, files in os.walk(os.path.join(repo, 'yowsup')):
        for fn in files:
            if not fn.endswith('.py'):
                continue
            p = os.path.join(root, fn)
            rel = os.path.relpath(p, repo)
            try:
                tree = ast.parse(open(p, encoding='utf-8').read())
            except Exception:
                continue
            for cls in [n for n in ast.walk(tree) if isinstance(n, ast.ClassDef)]:
                for f in [n for n in cls.body if isinstance(n, ast.FunctionDef)]:
                    where = '%s:%s.%s' % (rel, cls.name, f.name)
                    for n in ast.walk(f):
                        tg = []
                        if isinstance(n, ast.Assign):
                            tg = n.targets
                        elif isinstance(n, (ast.AugAssign, ast.AnnAssign)):
                            tg = [n.target]
                        elif isinstance(n, ast.Delete):
                            tg = n.targets
                        for t in tg:
                            for a in ast.walk(t):
                                if isinstance(a, ast.Attribute) and (a.attr in ('_YowLayer__upper', '_YowLayer__lower') or
                                                                     (cls.name == 'YowLayer' and a.attr in ('__upper', '__lower'))):
                                    writes.add(where)
                        if isinstance(n, ast.Call) and isinstance(n.func, ast.Name) and n.func.id in ('setattr', 'delattr'):
                            if any(isinstance(x, ast.Constant) and isinstance(x.value, str) and x.value.endswith(('__upper', '__lower')) for x in n.args):
                                writes.add(where)
                        if isinstance(n, ast.Attribute) and n.attr == 'setLayers':
                            callers.add(where)
    sec = res['sections'].setdefault('link-frame-scan', {'n': 2, 'bad': 0})
    res['evaluations'] += 2
    want_w = {'yowsup/layers/__init__.py:YowLayer.setLayers'}
    want_c = {'yowsup/layers/__init__.py:YowLayer.__init__', 'yowsup/stacks/yowstack.py:YowStack._construct',
              'yowsup/stacks/yowstack.py:YowStack.addPostConstructLayer'}
    if writes != want_w:
        sec['bad'] += 1
        res['violations'].append({'class': 'link-frame', 'what': ['layer links written in %r (expected only %r)' % (sorted(writes), sorted(want_w))]})
    if not callers <= want_c:
        sec['bad'] += 1
        res['violations'].append({'class': 'link-frame', 'what': ['setLayers referenced in %r (expected within %r)' % (sorted(callers), sorted(want_c))]})


def post_construct(res):
    """a layer added on top of a constructed stack (YowStack.addPostConstructLayer) for every height 2..6, tuple and builder way:
    data and events must still visit every layer once, in order, in both directions"""
    sec = res['sections'].setdefault('post-construct', {'n': 0, 'bad': 0})
    for depth in range(2, 7):
        for how in ('tuple', 'builder'):
            sec['n'] += 1
            res['evaluations'] += 1
            names = ['L%d' % i for i in range(depth)]
            classes = [mk(n) for n in names]
            try:
                if how == 'tuple':
                    st = YowStack(tuple(classes[::-1]))            # top first
                else:
                    b = YowStackBuilder()
                    for c in classes:
                        b.push(c)
                    st = b.build()
                extra = mk('X')()
                st.addPostConstructLayer(extra)
                order = names + ['X']
                probs = []
                del LOG[:]
                st.send([])
                if [e[1] for e in LOG if e[0] == 'send'] != order[::-1]:
                    probs.append('send path %r' % [e[1] for e in LOG if e[0] == 'send'])
                del LOG[:]
                st.receive([])
                if [e[1] for e in LOG if e[0] == 'recv'] != order:
                    probs.append('receive path %r' % [e[1] for e in LOG if e[0] == 'recv'])
                del LOG[:]
                st.broadcastEvent(YowLayerEvent('ev'))
                if [e[1] for e in LOG if e[0] == 'event'] != order[::-1]:
                    probs.append('broadcast path %r' % [e[1] for e in LOG if e[0] == 'event'])
                del LOG[:]
                st.emitEvent(YowLayerEvent('ev'))
                if [e[1] for e in LOG if e[0] == 'event'] != order:
                    probs.append('emit path %r' % [e[1] for e in LOG if e[0] == 'event'])
                if probs:
                    sec['bad'] += 1
                    res['violations'].append({'class': 'post-construct', 'what': ['height %d (%s): %s' % (depth, how, '; '.join(probs))]})
            except Exception as e:
                sec['bad'] += 1
                res['violations'].append({'class': 'post-construct', 'what': ['height %d (%s): %r' % (depth, how, e)]})


def run(tier, seed, out):
    rng = random.Random(seed)
    res = {'evaluations': 0, 'distinct': 0, 'violations': [], 'samples': [], 'sections': {}}
    t0 = time.time()

    # watchdog: the whole script takes 1-3 s; an operation on an assembled stack that does not return (a mis-wired stack can make the
    # downward path circular, and toLower's lock is not re-entrant) is a finding of this check, not a reason to hang the check
    import signal

    limit = int(os.environ.get('STACK_CHECK_WATCHDOG_S', '120'))

    def no_return(signum, frame):
        where = ''.join(traceback.format_stack(frame)[-6:])
        res['violations'].append({'class': 'no-return', 'what': ['an operation on an assembled stack did not return within %d s' % limit, where[-1200:]]})
        res['wall_s'] = round(time.time() - t0, 2)
        json.dump(res, open(out, 'w'), indent=1, default=str)
        os._exit(1)
    signal.signal(signal.SIGALRM, no_return)
    signal.alarm(limit)
    scan_links(res)
    post_construct(res)
    names = ['A', 'B', 'C', 'D', 'E', 'F', 'G', 'H', 'I', 'J', 'K', 'L', 'M', 'N', 'O', 'P']
    shapes = []
    maxd = 3 if tier == 'quick' else 4
    for d in range(1, maxd + 1):
        for widths in itertools.product([0, 1, 2, 4], repeat=d):    # 0 = plain layer, k = parallel group of k
            it = iter(names)
            shape = []
            for w in widths:
                shape.append(next(it) if w == 0 else tuple(next(it) for _ in range(w)))
            if sum(max(1, w) for w in widths) <= 12:
                shapes.append(shape)
    for _ in range(20 if tier == 'quick' else 200):
        d = rng.randrange(4, 7)
        it = iter(names)
        shape = []
        for _k in range(d):
            w = rng.choice([0, 0, 1, 2, 3])
            shape.append(next(it) if w == 0 else tuple(next(it) for _ in range(w)))
        shapes.append(shape)
    seen = set()
    for shape in shapes:
        for mode in ('classes', 'instances', 'implicit', 'reversed'):
            try:
                check_shape(shape, mode, res, rng)
            except Exception as e:
                res['violations'].append({'class': 'shape-exception', 'shape': repr(shape), 'mode': mode, 'what': [repr(e), traceback.format_exc()[-400:]]})
            seen.add((repr(shape), mode))
    res['samples'] = [repr(s) for s in shapes[:3]]
    # the default helpers, all 32 flag combinations
    import yowsup.stacks.yowstack as ys
    for flags in itertools.product([False, True], repeat=5):
        ax, g, m, pv, pf = flags
        res['evaluations'] += 1
        seen.add(('default', flags))
        try:
            st = YowStackBuilder.getDefaultStack(None, ax, g, m, pv, pf)
            insts = st._YowStack__stackInstances
            got = [type(i).__name__ for i in insts]
            want = ['YowNetworkLayer', 'YowNoiseSegmentsLayer', 'YowNoiseLayer', 'YowCoderLayer', 'YowLoggerLayer', 'AxolotlControlLayer',
                    'YowParallelLayer', 'YowParallelLayer']
            subs = [type(x).__name__ for x in insts[-1].sublayers]
            opt = [('YowGroupsProtocolLayer', g), ('YowMediaProtocolLayer', m), ('YowPrivacyProtocolLayer', pv), ('YowProfilesProtocolLayer', pf)]
            problems = []
            if got != want:
                problems.append('layers %r' % got)
            for n, on in opt:
                if (n in subs) != on:
                    problems.append('%s present=%s selected=%s' % (n, n in subs, on))
            if [type(x).__name__ for x in insts[-2].sublayers] != ['AxolotlSendLayer', 'AxolotlReceivelayer']:
                problems.append('encryption group')
            for i, inst in enumerate(insts):
                up = inst._YowLayer__upper
                lo = inst._YowLayer__lower
                if up is not (insts[i + 1] if i + 1 < len(insts) else None) or lo is not (insts[i - 1] if i > 0 else None):
                    problems.append('wiring at %d' % i)
            if problems:
                res['violations'].append({'class': 'default-stack', 'flags': flags, 'what': problems[:3]})
        except Exception as e:
            res['violations'].append({'class': 'default-stack-exception', 'flags': flags, 'what': [repr(e)]})
    res['distinct'] = len(seen)
    res['violations'] = res['violations'][:10]
    res['wall_s'] = round(time.time() - t0, 2)
    json.dump(res, open(out, 'w'), indent=1, default=str)
    return 1 if res['violations'] else 0


if __name__ == '__main__':
    try:
        sys.exit(run(sys.argv[1], int(sys.argv[2]), sys.argv[3]))
    except Exception:
        traceback.print_exc()
        sys.exit(3)
