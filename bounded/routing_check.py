"""Native facts and bounded cross-check for C06 (labelled bounded; never counted as proved).

    python bounded/routing_check.py <tier> <seed> <out.json>

(1) class-facts (complete over the finite set): every entity class that a send guard tests BY CLASS has the namespace the
    composition lemma assumes (contracts/C06_routing.py entity_class_facts).
(2) handle-maps (complete over the finite set of layer classes): after construction every protocol layer's handleMap is exactly
    the tag -> (recv, send) table the composition lemmas are written against.
(3) assembled group: the REAL parallel group of protocol layers for each of the 16 module selections between a recording bottom
    and top; corpus = the stanza of every entity class that has a fixture in the repository's own test modules (+ value
    variations).  incoming: number of entities at the top == ups(n, groups, media) of the sidecar (evaluated natively on the real
    stanza), never more than one, and the entity serialises back to the stanza; outgoing: number of stanzas at the bottom ==
    downs(e, ...) of the sidecar, never more than one, equal to the entity's serialisation; iq request -> reply: exactly one entity.
"""
import glob
import importlib
import io
import itertools
import json
import os
import random
import sys
import time
import traceback
import unittest

HERE = os.path.dirname(os.path.dirname(os.path.abspath(__file__)))
REPO = os.environ.get('PYVC_REPO', '/repo')
sys.path.insert(0, REPO)
sys.path.insert(0, HERE)
import logging                                   # noqa: E402
logging.disable(logging.CRITICAL)

EXPECTED_MAPS = {
    'YowAckProtocolLayer': {'ack': ('recvAckNode', 'sendAckEntity')},
    'YowReceiptProtocolLayer': {'receipt': ('recvReceiptNode', 'sendReceiptEntity')},
    'YowChatstateProtocolLayer': {'chatstate': ('recvChatstateNode', 'sendChatstateEntity')},
    'YowPresenceProtocolLayer': {'presence': ('recvPresence', 'sendPresence'), 'iq': (None, 'sendIq')},
    'YowIbProtocolLayer': {'ib': ('recvIb', 'sendIb'), 'iq': (None, 'sendIb')},
    'YowPrivacyProtocolLayer': {'iq': ('recvIq', 'sendIq')},
    'YowContactsIqProtocolLayer': {'iq': ('recvIq', 'sendIq'), 'notification': ('recvNotification', None)},
    'YowProfilesProtocolLayer': {'iq': ('recvIq', 'sendIq')},
    'YowGroupsProtocolLayer': {'iq': (None, 'sendIq'), 'notification': ('recvNotification', None)},
    'YowMediaProtocolLayer': {'message': ('recvMessageStanza', 'sendMessageEntity'), 'iq': ('recvIq', 'sendIq')},
    'YowMessagesProtocolLayer': {'message': ('recvMessageStanza', 'sendMessageEntity')},
    'YowNotificationsProtocolLayer': {'notification': ('recvNotification', 'sendNotification')},
    'YowCallsProtocolLayer': {'call': ('recvCall', 'sendCall')},
    'YowIqProtocolLayer': {'iq': ('recvIq', 'sendIq')},
    'YowAuthenticationProtocolLayer': {'stream:features': ('handleStreamFeatures', None), 'failure': ('handleFailure', None),
                                       'success': ('handleSuccess', None), 'stream:error': ('handleStreamError', None)},
}


def sidecar_model():
    """the guard predicates of contracts/C06_routing.py, evaluated on real objects"""
    mod = importlib.import_module('contracts.C06_routing')
    c07 = importlib.import_module('contracts.C07_acks')
    env = {
        'attr': lambda n, k: None if n is None else n.getAttributeValue(k),
        'pure_child': lambda n, t: n.getChild(t),
        'truthy': bool,
        'getter': lambda name, o: getattr(o, name.split('.')[-1])(),
        'class_is': lambda o, name: type(o).__name__ == name,
        'inst_of': lambda o, name: any(c.__name__ == name for c in type(o).__mro__),
        'implies': lambda a, b: (not a) or b,
    }
    for m in (mod, c07):
        for k, v in env.items():
            setattr(m, k, v)
    return mod


def class_facts(res):
    from yowsup.layers.protocol_groups.protocolentities import (
        CreateGroupsIqProtocolEntity, InfoGroupsIqProtocolEntity, LeaveGroupsIqProtocolEntity, ListGroupsIqProtocolEntity,
        SubjectGroupsIqProtocolEntity, ParticipantsGroupsIqProtocolEntity, AddParticipantsIqProtocolEntity,
        PromoteParticipantsIqProtocolEntity, DemoteParticipantsIqProtocolEntity, RemoveParticipantsIqProtocolEntity)
    from yowsup.layers.protocol_groups.layer import YowGroupsProtocolLayer
    from yowsup.layers.protocol_ib.protocolentities import CleanIqProtocolEntity
    from yowsup.layers.protocol_profiles.protocolentities import GetStatusesIqProtocolEntity, SetStatusIqProtocolEntity
    g = '123-456@g.us'
    j = ['1@s.whatsapp.net']
    samples = [
        (CreateGroupsIqProtocolEntity('s', participants=j), 'w:g2'), (InfoGroupsIqProtocolEntity(g), 'w:g2'),
        (LeaveGroupsIqProtocolEntity([g]), 'w:g2'), (ListGroupsIqProtocolEntity(), 'w:g2'), (SubjectGroupsIqProtocolEntity(g, b's'), 'w:g2'),
        (ParticipantsGroupsIqProtocolEntity(g, j, "add"), 'w:g2'), (AddParticipantsIqProtocolEntity(g, j), 'w:g2'),
        (PromoteParticipantsIqProtocolEntity(g, j), 'w:g2'), (DemoteParticipantsIqProtocolEntity(g, j), 'w:g2'),
        (RemoveParticipantsIqProtocolEntity(g, j), 'w:g2'), (CleanIqProtocolEntity('groups', 's.whatsapp.net'), 'urn:xmpp:whatsapp:dirty'),
        (GetStatusesIqProtocolEntity(j), 'status'), (SetStatusIqProtocolEntity(b'hi'), 'status'),
    ]
    sec = res['sections'].setdefault('class-facts', {'n': 0, 'bad': 0})
    for e, ns in samples:
        sec['n'] += 1
        res['evaluations'] += 1
        if e.getXmlns() != ns or e.getTag() != 'iq':
            sec['bad'] += 1
            res['violations'].append({'class': 'class-facts', 'what': '%s: xmlns %r tag %r (the lemma assumes %r / iq)' % (type(e).__name__, e.getXmlns(), e.getTag(), ns)})
    handled = {c.__name__ for c in YowGroupsProtocolLayer.HANDLE}
    if handled != {type(e).__name__ for e, ns in samples if ns == 'w:g2'}:
        sec['bad'] += 1
        res['violations'].append({'class': 'class-facts', 'what': 'YowGroupsProtocolLayer.HANDLE is %r' % sorted(handled)})
    return [e for e, _ in samples]


def handle_maps(res):
    from yowsup.stacks import YowStackBuilder
    from yowsup.layers.auth import YowAuthenticationProtocolLayer
    sec = res['sections'].setdefault('handle-maps', {'n': 0, 'bad': 0})
    classes = list(YowStackBuilder.getProtocolLayers(True, True, True, True)) + [YowAuthenticationProtocolLayer]
    seen = set()
    for cls in classes:
        if cls.__name__ in seen:
            continue
        seen.add(cls.__name__)
        sec['n'] += 1
        res['evaluations'] += 1
        inst = cls()
        got = {t: tuple(None if f is None else f.__name__ for f in pair) for t, pair in inst.handleMap.items()}
        if cls.__name__ not in EXPECTED_MAPS:
            sec['bad'] += 1
            res['violations'].append({'class': 'handle-maps', 'what': 'protocol layer %s is not covered by the composition lemma' % cls.__name__})
        elif got != EXPECTED_MAPS[cls.__name__]:
            sec['bad'] += 1
            res['violations'].append({'class': 'handle-maps', 'what': '%s.handleMap is %r (the contracts are written against %r)' % (cls.__name__, got, EXPECTED_MAPS[cls.__name__])})
    missing = set(EXPECTED_MAPS) - seen
    if missing:
        sec['bad'] += 1
        res['violations'].append({'class': 'handle-maps', 'what': 'layers no longer in the default selection: %r' % sorted(missing)})


def corpus():
    """(entity class, stanza) of every fixture of the repository's own test modules that can be imported"""
    out = []
    for p in sorted(glob.glob(os.path.join(REPO, 'yowsup', 'layers', '*', 'protocolentities', 'test_*.py'))):
        modname = os.path.relpath(p, REPO)[:-3].replace('/', '.')
        try:
            m = importlib.import_module(modname)
        except Exception:
            continue
        for name in dir(m):
            c = getattr(m, name)
            if isinstance(c, type) and issubclass(c, unittest.TestCase) and hasattr(c, 'setUp') and c.__module__ == modname:
                try:
                    t = c('setUp')
                    t.setUp()
                    if getattr(t, 'node', None) is not None and getattr(t, 'ProtocolEntity', None) is not None:
                        if t.node.tag == 'message' and t.node['type'] == 'message_type':
                            t.node.setAttribute('type', 'text')      # the fixture's placeholder; real text messages say "text"
                        out.append((t.ProtocolEntity, t.node, name))
                except Exception:
                    continue
    return out


class Group:
    def __init__(self, flags):
        from yowsup.stacks import YowStackBuilder
        from yowsup.layers import YowParallelLayer
        import yowsup.stacks.yowstack as ys
        base = ys.YOWSUP_PROTOCOL_LAYERS_BASIC
        self.par = YowParallelLayer(YowStackBuilder.getProtocolLayers(*flags))
        assert ys.YOWSUP_PROTOCOL_LAYERS_BASIC == base
        self.up, self.down = [], []
        for s in self.par.sublayers:
            s.toLower = self.down.append
            s.toUpper = self.up.append
            s.getProp = lambda *a, **k: None
            s.broadcastEvent = lambda *a, **k: None
            s.emitEvent = lambda *a, **k: None


def vary(node, rng):
    """same kind, other values: attribute values that do not select the route are replaced"""
    import copy
    n = copy.deepcopy(node)
    for k in list(n.attributes):
        if k in ('id', 'from', 'to', 'participant', 'notify', 't') and rng.random() < 0.7:
            n.attributes[k] = {'id': 'id%d' % rng.randrange(10 ** 6), 't': str(rng.randrange(10 ** 9, 2 * 10 ** 9))}.get(
                k, '%d@s.whatsapp.net' % rng.randrange(10 ** 10) if k != 'notify' else 'n%d' % rng.randrange(100))
    return n


def assembled(res, tier, rng, class_entities):
    mod = sidecar_model()
    cases = corpus()
    sec = res['sections'].setdefault('assembled-group', {'n': 0, 'bad': 0, 'fixtures': len(cases), 'incoming_routed': 0, 'outgoing_routed': 0})
    reps = 1 if tier == 'quick' else 8

    def bad(cls, what, **kw):
        sec['bad'] += 1
        if len([v for v in res['violations'] if v['class'] == cls]) < 4:
            res['violations'].append(dict({'class': cls, 'what': what}, **kw))
    for flags in itertools.product([False, True], repeat=4):
        groups, media, privacy, profiles = flags
        for ecls, node0, fname in cases:
            for rep in range(reps):
                node = node0 if rep == 0 else vary(node0, rng)
                # ---- incoming
                G = Group(flags)
                sec['n'] += 1
                res['evaluations'] += 1
                try:
                    want, may = mod.ups_exact(node, groups, media), mod.ups_may(node)
                except Exception as e:
                    want, may = None, 0
                try:
                    G.par.receive(node)
                    got = len(G.up)
                    err = None
                except Exception as e:
                    got, err = len(G.up), e
                if got > 1:
                    bad('incoming-duplicated', '%s: %d entities for one stanza' % (fname, got), flags=list(flags), stanza=str(node)[:300])
                elif err is None and want is not None and not (want <= got <= want + may):
                    bad('incoming-count', '%s: %d entities at the top, the composed guards say %d..%d' % (fname, got, want, want + may), flags=list(flags), stanza=str(node)[:300])
                elif err is not None and want == 0 and may == 0:
                    bad('incoming-error', '%s: a stanza no layer of this selection owns raised %r' % (fname, err), flags=list(flags), stanza=str(node)[:300])
                if got == 1 and err is None:
                    sec['incoming_routed'] += 1
                    try:
                        back = G.up[0].toProtocolTreeNode()
                        selfcons = ecls.fromProtocolTreeNode(node).toProtocolTreeNode() == node      # the fixture itself round-trips (C09)
                        if selfcons and type(G.up[0]).__name__ == ecls.__name__ and back != node:
                            bad('incoming-fields', '%s: the entity does not carry the stanza\'s fields' % fname, flags=list(flags), stanza=str(node)[:300], entity=str(back)[:300])
                    except Exception:
                        pass
                # ---- outgoing
                try:
                    ent = ecls.fromProtocolTreeNode(node)
                except Exception:
                    continue
                G = Group(flags)
                sec['n'] += 1
                res['evaluations'] += 1
                try:
                    want = mod.downs(ent, groups, media, privacy, profiles)
                except Exception:
                    want = None
                try:
                    G.par.send(ent)
                    got, err = len(G.down), None
                except Exception as e:
                    got, err = len(G.down), e
                if got > 1:
                    bad('outgoing-duplicated', '%s: %d stanzas for one entity' % (fname, got), flags=list(flags))
                elif err is None and want is not None and got != want:
                    bad('outgoing-count', '%s: %d stanzas at the bottom, the composed guards say %d' % (fname, got, want), flags=list(flags), entity=str(node)[:300])
                elif err is not None:
                    bad('outgoing-error', '%s: send raised %r' % (fname, err), flags=list(flags))
                if got == 1 and err is None:
                    sec['outgoing_routed'] += 1
                    if G.down[0] != ent.toProtocolTreeNode():
                        bad('outgoing-serialisation', '%s: the stanza is not the entity\'s serialisation' % fname, flags=list(flags))
        # ---- the class-guarded requests, and request -> reply
        from yowsup.structs import ProtocolTreeNode
        for ent in class_entities:
            G = Group(flags)
            sec['n'] += 1
            res['evaluations'] += 1
            want = mod.downs(ent, groups, media, privacy, profiles)
            G.par.send(ent)
            if len(G.down) != want or len(G.down) > 1:
                bad('outgoing-count', '%s: %d stanzas at the bottom, the composed guards say %d' % (type(ent).__name__, len(G.down), want), flags=list(flags))
            if len(G.down) == 1:
                for typ in ('result', 'error'):
                    G2 = Group(flags)
                    G2.par.send(ent)
                    reply = ProtocolTreeNode('iq', {'id': ent.getId(), 'type': typ, 'from': 's.whatsapp.net'},
                                             [ProtocolTreeNode('error', {'code': '404', 'text': 'x'})] if typ == 'error' else None)
                    try:
                        G2.par.receive(reply)
                    except Exception:
                        pass            # the reply parser's demands on the result body are C09's business
                    if len(G2.up) > 1:
                        bad('reply-duplicated', '%s: %d entities for one %s reply' % (type(ent).__name__, len(G2.up), typ), flags=list(flags))
                    G2.up[:] = []
                    try:
                        G2.par.receive(reply)
                    except Exception:
                        pass
                    if G2.up:
                        bad('reply-replayed', '%s: a replayed %s reply surfaced again' % (type(ent).__name__, typ), flags=list(flags))
    res['samples'].append({'fixtures': [c[2] for c in cases][:8]})


def run(tier, seed, out):
    rng = random.Random(seed)
    res = {'evaluations': 0, 'distinct': 0, 'violations': [], 'samples': [], 'sections': {}}
    t0 = time.time()
    real_stdout = sys.stdout
    sys.stdout = io.StringIO()
    try:
        ents = class_facts(res)
        handle_maps(res)
        assembled(res, tier, rng, ents)
    finally:
        sys.stdout = real_stdout
    res['distinct'] = res['evaluations']
    res['violations'] = res['violations'][:12]
    res['wall_s'] = round(time.time() - t0, 2)
    json.dump(res, open(out, 'w'), indent=1, default=str)
    return 1 if res['violations'] else 0


if __name__ == '__main__':
    try:
        sys.exit(run(sys.argv[1], int(sys.argv[2]), sys.argv[3]))
    except Exception:
        traceback.print_exc()
        sys.exit(3)
