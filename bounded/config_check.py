"""Bounded stand-in for the parts of C19 that are outside the contracts (labelled bounded, never counted as proved).

    python bounded/config_check.py <tier> <seed> <out.json>

(1) round trip: configurations with any subset of the 16 optional fields (quick: empty, full, all singletons, all pairs with a
    binary field, 300 random subsets; thorough: all 65536 subsets) and generated values, through the REAL pipeline
    ConfigManager.save -> file -> ConfigManager.load, both formats, the three load paths (path with extension, path without
    extension, profile name) incl. a profile that has never been used; loaded == saved field by field, keys byte-identical.
    JSON values: arbitrary Unicode scalar values incl. control characters and astral code points (no lone surrogates: they are
    not Unicode text, and two adjacent ones are merged by any JSON reader).  key=value values: text
    without '#', ';' and without surrounding blanks (the statement's own restriction).
(2) crash injection: every file-system operation of a profile save (isdir / makedirs / open / each write, cut in half / flush /
    fsync / replace / isfile / remove) is made the crash point in turn, for previous config in either format or none; after the
    crash the profile must load as the previous or the new configuration.
(3) getStorageForProfile is a function of the name and touches no file inside the profile directory (assumed by the contract).
Known finding (known_findings.json): a key=value value that contains a line break does not survive.
"""
import builtins
import io
import itertools
import json
import os
import random
import shutil
import sys
import tempfile
import time
import traceback

REPO = os.environ.get('PYVC_REPO', '/repo')
sys.path.insert(0, REPO)
import logging                                   # noqa: E402
logging.disable(logging.CRITICAL)

TEXT_FIELDS = ['phone', 'cc', 'login', 'password', 'pushname', 'mcc', 'mnc', 'sim_mcc', 'sim_mnc', 'fdid', 'chat_dns_domain']
BYTES_FIELDS = ['id', 'expid', 'edge_routing_info']
KEY_FIELDS = ['client_static_keypair', 'server_static_public']
FIELDS = TEXT_FIELDS + BYTES_FIELDS + KEY_FIELDS


class Crash(BaseException):
    pass


def gen_text(rng, fmt):
    n = rng.choice([0, 1, 1, 3, 8, 20])
    out = []
    for _ in range(n):
        r = rng.random()
        if r < 0.5:
            c = chr(rng.randrange(0x20, 0x7f))
        elif r < 0.7:
            c = chr(rng.randrange(0xa0, 0x3000))
        elif r < 0.8:
            c = chr(rng.randrange(0x10000, 0x10ffff))
        elif r < 0.9:
            c = rng.choice(['"', '\\', '=', ':', ',', '{', '}', '/', "'", '%', ' ', '\t'])
        else:
            c = chr(rng.randrange(0, 0x20)) if fmt == 'json' else chr(rng.randrange(0x21, 0x7f))
        out.append(c)
    s = ''.join(out)
    if fmt == 'keyval':
        s = ''.join(ch for ch in s if ch not in '#;' and ch not in '\n\r' and not (0xd800 <= ord(ch) < 0xe000))
        s = s.strip()
        # str.strip() also strips the unicode blanks \x1c-\x1f \x85   ...; str.splitlines is not used by the code
    return s


def gen_config(rng, subset, fmt):
    from yowsup.config.v1.config import Config
    from consonance.structs.keypair import KeyPair
    from consonance.structs.publickey import PublicKey
    kw = {}
    for f in subset:
        if f in TEXT_FIELDS:
            kw[f] = gen_text(rng, fmt)
        elif f in BYTES_FIELDS:
            kw[f] = bytes(rng.randrange(256) for _ in range(rng.choice([0, 1, 16, 20, 33])))
        elif f == 'client_static_keypair':
            kw[f] = KeyPair.generate()
        else:
            kw[f] = PublicKey(bytes(rng.randrange(256) for _ in range(32)))
    return Config(**kw)


def view(c):
    """field-by-field value of a configuration, keys as bytes"""
    if c is None:
        return None
    out = {}
    for k, v in vars(c).items():
        if hasattr(v, 'private') and hasattr(v, 'public'):
            v = ('keypair', bytes(v.private.data), bytes(v.public.data))
        elif hasattr(v, 'data') and not isinstance(v, (bytes, str)):
            v = ('public', bytes(v.data))
        out[k] = v
    return out


class Sandbox:
    """a private XDG_CONFIG_HOME"""

    def __enter__(self):
        self.d = tempfile.mkdtemp(prefix='c19_')
        self.old = os.environ.get('XDG_CONFIG_HOME')
        os.environ['XDG_CONFIG_HOME'] = self.d
        return self.d

    def __exit__(self, *a):
        if self.old is None:
            os.environ.pop('XDG_CONFIG_HOME', None)
        else:
            os.environ['XDG_CONFIG_HOME'] = self.old
        shutil.rmtree(self.d, ignore_errors=True)


def subsets(tier, rng):
    if tier == 'thorough':
        for r in range(len(FIELDS) + 1):
            for s in itertools.combinations(FIELDS, r):
                yield s
        return
    yield ()
    yield tuple(FIELDS)
    for f in FIELDS:
        yield (f,)
    for f in BYTES_FIELDS + KEY_FIELDS:
        for g in FIELDS:
            if f != g:
                yield (f, g)
    for _ in range(300):
        yield tuple(f for f in FIELDS if rng.random() < 0.5)


def roundtrip(res, tier, rng):
    from yowsup.config.manager import ConfigManager
    m = ConfigManager()
    fmts = [('json', ConfigManager.TYPE_JSON, '.json'), ('keyval', ConfigManager.TYPE_KEYVAL, '.yo')]
    sec = res['sections'].setdefault('roundtrip', {'n': 0, 'bad': 0})
    with Sandbox() as d:
        n = 0
        for sub in subsets(tier, rng):
            for fname, ftype, ext in fmts:
                cfg = gen_config(rng, sub, fname)
                want = view(cfg)
                routes = ['profile'] if (tier == 'thorough' and n % 8) else ['path+ext', 'path', 'profile']
                n += 1
                for route in routes:
                    sec['n'] += 1
                    res['evaluations'] += 1
                    try:
                        if route == 'profile':
                            prof = 'p%d' % n                      # never used before
                            m.save(prof, cfg, ftype)
                            got = m.load(prof)
                            got2 = m.load(prof, profile_only=True)
                            shutil.rmtree(os.path.join(d, 'yowsup', prof), ignore_errors=True)
                            if view(got2) != want:
                                raise AssertionError('profile_only load differs')
                        else:
                            p = os.path.join(d, 'f%d%s' % (n, ext if route == 'path+ext' else ''))
                            m.save('unused', cfg, ftype, dest=p)
                            got = m.load(p)
                            os.remove(p)
                        if view(got) != want:
                            diff = {k: (want.get(k), (view(got) or {}).get(k)) for k in want if (view(got) or {}).get(k) != want.get(k)}
                            raise AssertionError('loaded configuration differs: %r' % (diff,))
                    except Exception as e:
                        sec['bad'] += 1
                        if len(res['violations']) < 10:
                            res['violations'].append({'class': 'roundtrip:%s:%s' % (fname, route), 'fields': list(sub),
                                                      'config': repr(want)[:600], 'what': '%s: %s' % (type(e).__name__, str(e)[:400])})
        if len(res['samples']) < 2:
            res['samples'].append({'roundtrip_last_config': repr(want)[:300]})


def known_linebreak(res, rng):
    """the listed finding: reported separately so that the check can name it"""
    from yowsup.config.manager import ConfigManager
    from yowsup.config.v1.config import Config
    m = ConfigManager()
    sec = res['sections'].setdefault('keyval-linebreak', {'n': 0, 'bad': 0})
    with Sandbox() as d:
        for v in ['a\nb', 'a\rb', 'x\r\ny']:
            sec['n'] += 1
            res['evaluations'] += 1
            cfg = Config(phone='1', pushname=v)
            p = os.path.join(d, 'k.yo')
            try:
                m.save('unused', cfg, ConfigManager.TYPE_KEYVAL, dest=p)
                got = m.load(p)
                ok = view(got) == view(cfg)
            except Exception:
                ok = False
            if not ok:
                sec['bad'] += 1
                res['violations'].append({'class': 'keyval-linebreak', 'what': 'key=value: a value containing a line break (%r) does not survive save/load' % v})
                return


class CrashFS:
    """counts file-system operations under `root`; operation number `at` crashes (a write first puts half of its data)"""

    def __init__(self, root, at):
        self.root, self.at, self.n, self.log = root, at, 0, []

    def tick(self, what):
        self.log.append(what)
        k = self.n
        self.n += 1
        if k == self.at:
            raise Crash(what)

    def __enter__(self):
        fs = self
        self.saved = {'open': builtins.open}
        for name in ('replace', 'rename', 'remove', 'makedirs', 'fsync'):
            self.saved[name] = getattr(os, name)
        self.saved['isdir'], self.saved['isfile'] = os.path.isdir, os.path.isfile
        real_open = builtins.open

        class F:
            def __init__(self, f):
                self._f = f

            def write(self, data):
                fs.log.append('write')
                k = fs.n
                fs.n += 1
                if k == fs.at:
                    self._f.write(data[:len(data) // 2])
                    self._f.flush()
                    raise Crash('write')
                return self._f.write(data)

            def flush(self):
                fs.tick('flush')
                return self._f.flush()

            def __getattr__(self, n):
                return getattr(self._f, n)

            def __enter__(self):
                return self

            def __exit__(self, *a):
                return self._f.__exit__(*a)

        def opn(path, mode='r', *a, **kw):
            if isinstance(path, str) and path.startswith(fs.root) and any(c in mode for c in 'wax+'):
                fs.tick('open(%s,%s)' % (os.path.basename(path), mode))
                return F(real_open(path, mode, *a, **kw))
            return real_open(path, mode, *a, **kw)

        def wrap(name, f):
            def g(*a, **kw):
                if a and isinstance(a[0], str) and a[0].startswith(fs.root):
                    fs.tick('%s(%s)' % (name, ','.join(os.path.basename(x) for x in a if isinstance(x, str))))
                elif name == 'fsync':
                    fs.tick('fsync')
                return f(*a, **kw)
            return g
        builtins.open = opn
        for name in ('replace', 'rename', 'remove', 'makedirs', 'fsync'):
            setattr(os, name, wrap(name, self.saved[name]))
        os.path.isdir = wrap('isdir', self.saved['isdir'])
        os.path.isfile = wrap('isfile', self.saved['isfile'])
        return self

    def __exit__(self, *a):
        builtins.open = self.saved['open']
        for name in ('replace', 'rename', 'remove', 'makedirs', 'fsync'):
            setattr(os, name, self.saved[name])
        os.path.isdir, os.path.isfile = self.saved['isdir'], self.saved['isfile']
        return False


def crash_points(res, tier, rng):
    from yowsup.config.manager import ConfigManager
    m = ConfigManager()
    T = {'json': ConfigManager.TYPE_JSON, 'keyval': ConfigManager.TYPE_KEYVAL}
    sec = res['sections'].setdefault('crash-points', {'n': 0, 'bad': 0, 'operations': []})
    reps = 1 if tier == 'quick' else 6
    for rep in range(reps):
        for prev_fmt in (None, 'json', 'keyval'):
            for new_fmt in ('json', 'keyval'):
                at = 0
                while True:
                    with Sandbox() as d:
                        prof = 'acct'
                        A = None
                        if prev_fmt is not None:
                            A = gen_config(rng, tuple(f for f in FIELDS if rng.random() < 0.7) + ('client_static_keypair',), prev_fmt)
                            m.save(prof, A, T[prev_fmt])
                        B = gen_config(rng, tuple(f for f in FIELDS if rng.random() < 0.7) + ('client_static_keypair',), new_fmt)
                        crashed = False
                        fs = CrashFS(d, at)
                        try:
                            with fs:
                                m.save(prof, B, T[new_fmt])
                        except Crash:
                            crashed = True
                        sec['n'] += 1
                        res['evaluations'] += 1
                        try:
                            got = view(m.load(prof))
                            ok = got == view(B) or got == view(A)
                            why = 'loads as neither the previous nor the new configuration'
                        except Exception as e:
                            ok, why = False, 'load raised %s: %s' % (type(e).__name__, str(e)[:200])
                        if not crashed and ok and view(m.load(prof)) != view(B):
                            ok, why = False, 'save completed but the profile loads as the previous configuration'
                        if not ok:
                            sec['bad'] += 1
                            if len(res['violations']) < 10:
                                res['violations'].append({'class': 'crash', 'previous': prev_fmt, 'new': new_fmt, 'crash_before_operation': at,
                                                          'operations': fs.log, 'what': why})
                        if not crashed:
                            if rep == 0 and len(sec['operations']) < 6:
                                sec['operations'].append({'previous': prev_fmt, 'new': new_fmt, 'ops': fs.log})
                            break
                    at += 1
                    if at > 60:
                        res['violations'].append({'class': 'crash', 'what': 'more than 60 file-system operations in one save'})
                        break


def storage_pure(res):
    from yowsup.common.tools import StorageTools
    sec = res['sections'].setdefault('storage-dir', {'n': 0, 'bad': 0})
    with Sandbox() as d:
        for name in ['a', 'b c', '49123', 'x/y']:
            sec['n'] += 1
            res['evaluations'] += 1
            p1 = StorageTools.getStorageForProfile(name)
            files = [os.path.join(r, f) for r, _, fs_ in os.walk(d) for f in fs_]
            p2 = StorageTools.getStorageForProfile(name)
            if p1 != p2 or files or not p1.startswith(d):
                sec['bad'] += 1
                res['violations'].append({'class': 'storage-dir', 'what': 'getStorageForProfile(%r): %r then %r, files created %r' % (name, p1, p2, files)})


def run(tier, seed, out):
    rng = random.Random(seed)
    res = {'evaluations': 0, 'distinct': 0, 'violations': [], 'samples': [], 'sections': {}}
    t0 = time.time()
    real_stdout = sys.stdout
    sys.stdout = io.StringIO()
    try:
        storage_pure(res)
        roundtrip(res, tier, rng)
        crash_points(res, tier, rng)
        known_linebreak(res, rng)
    finally:
        sys.stdout = real_stdout
    res['distinct'] = res['evaluations']
    res['wall_s'] = round(time.time() - t0, 2)
    json.dump(res, open(out, 'w'), indent=1, default=str)
    return 1 if res['violations'] else 0


if __name__ == '__main__':
    try:
        sys.exit(run(sys.argv[1], int(sys.argv[2]), sys.argv[3]))
    except Exception:
        traceback.print_exc()
        sys.exit(3)
