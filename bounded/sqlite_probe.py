"""Validates the rules of the assumed sqlite3 model (pyvc/sqlmodel.py, DESIGN.md appendix D) against the real
sqlite3 module: exits 0 iff every probe behaves as the model says."""
import os
import sqlite3
import sys
import tempfile

d = tempfile.mkdtemp()
db = os.path.join(d, 'p.db')
bad = []


def check(name, cond):
    if not cond:
        bad.append(name)


a = sqlite3.connect(db, check_same_thread=False)
a.text_factory = bytes
a.execute("CREATE TABLE IF NOT EXISTS t (_id INTEGER PRIMARY KEY AUTOINCREMENT, k INTEGER UNIQUE, f BOOLEAN, v BLOB);")
b = sqlite3.connect(db)          # a second connection sees only the durable state D
rows = lambda c, q="SELECT k, f, v FROM t ORDER BY k": c.execute(q).fetchall()
check('DDL is auto-committed', rows(b) == [])
a.cursor().execute("INSERT INTO t (k, v) VALUES(?,?)", (1, b'x'))
check('DML changes W only', rows(a) == [(1, None, b'x')] and rows(b) == [])
a.commit()
check('commit sets D := W', rows(b) == [(1, None, b'x')])
try:
    a.cursor().execute("INSERT INTO t (k, v) VALUES(?,?)", (1, b'y'))
    check('INSERT on an existing UNIQUE key raises', False)
except sqlite3.IntegrityError:
    check('failed INSERT leaves W unchanged', rows(a) == [(1, None, b'x')])
a.cursor().execute("DELETE FROM t WHERE k = ?", (1,))
a.cursor().execute("INSERT INTO t (k, v) VALUES(?,?)", (1, b'z'))
check('two statements share one implicit transaction (D untouched until commit)', rows(b) == [(1, None, b'x')])
a.commit()
check('after commit both are durable', rows(b) == [(1, None, b'z')])
a.cursor().execute("UPDATE t SET f = ? WHERE k = ?", (1, 1))
a.cursor().execute("UPDATE t SET f = ? WHERE k = ?", (1, 99))
a.commit()
check('UPDATE changes matching rows only', rows(b) == [(1, 1, b'z')])
a.execute("CREATE UNIQUE INDEX IF NOT EXISTS ti ON t (k, f);")
a.cursor().execute("INSERT OR REPLACE INTO t (k, v) VALUES(?,?)", (1, b'r'))
a.commit()
check('INSERT OR REPLACE replaces the row with that key (other columns NULL)', rows(b) == [(1, None, b'r')])
check('SELECT max on empty set is NULL', a.execute("SELECT max(k) FROM t WHERE k > 5").fetchone() == (None,))
check('IS NULL or = ? selects unset flags', a.execute("SELECT k FROM t WHERE f is NULL or f = ?", (0,)).fetchall() == [(1,)])
check('text_factory=bytes returns TEXT as bytes', a.execute("SELECT 'a'").fetchone() == (b'a',))
# crash = the process dies: what a reopened database shows is D
a.cursor().execute("DELETE FROM t WHERE k = ?", (1,))
import shutil
shutil.copy(db, db + '.crash')
c = sqlite3.connect(db + '.crash')
check('a crash before commit leaves the durable state', rows(c) == [(1, None, b'r')])
print('sqlite model probes:', 'OK' if not bad else 'FAILED: %r' % bad)
sys.exit(1 if bad else 0)
