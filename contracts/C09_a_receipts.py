"""C09 (part a) - receipts, chat states, presence, last-seen, calls: stanza -> entity -> stanza on the REAL classes.
One scenario per class.  The documented shape (class docstring + what fromProtocolTreeNode reads) is the precondition; every
documented attribute must come back with the same value, and nothing may be invented."""
from pyvc.lang import *
from contracts.C09_entities import *


@contract("yowsup/structs/protocoltreenode.py", "ProtocolTreeNode.getChild", assumed=True, pure=True,
          reason="first child with that tag, or None: a pure function of the node")
def getChild(self: Obj("ProtocolTreeNode"), identifier: Str) -> Opt(Obj("ProtocolTreeNode")):
    pass


def present(n, k):
    return attr(n, k) is not None


# =====================================================================================================================
# receipts
# =====================================================================================================================
@scenario
def receipt_roundtrip(n: Obj("ProtocolTreeNode")):
    """<receipt id=/>: the base class keeps the id and nothing else"""
    requires(n.tag == "receipt")
    e = ReceiptProtocolEntity.fromProtocolTreeNode(n)
    m = e.toProtocolTreeNode()
    ensures(m.tag == "receipt" and m.data is None)
    ensures(same_attr(m, n, "id"))
    ensures(attr(m, "to") is None and attr(m, "from") is None and attr(m, "type") is None and attr(m, "t") is None)
    ensures(n_children(m) == 0)


@scenario
def receipt_incoming_roundtrip(n: Obj("ProtocolTreeNode")):
    """<receipt id= from= t= [offline=(0|1)] [type=] [participant=]/>: the shapes WITHOUT a <list> of items.  The shape with
    <list><item id=/>...</list> is not covered: 'for loop #1 of ProtocolTreeNode.getAllChildren over a symbolic iterable without
    invariant' (engine subset).  t is kept as the string it was (str() of a str), so no numeric conversion is involved."""
    requires(n.tag == "receipt" and present(n, "id") and present(n, "from") and present(n, "t"))
    requires(implies(present(n, "offline"), attr(n, "offline") == "0" or attr(n, "offline") == "1"))
    requires(pure_child(n, "list") is None)
    e = IncomingReceiptProtocolEntity.fromProtocolTreeNode(n)
    m = e.toProtocolTreeNode()
    ensures(m.tag == "receipt" and m.data is None and n_children(m) == 0)
    ensures(same_attr(m, n, "id") and same_attr(m, n, "from") and same_attr(m, n, "t") and same_attr(m, n, "offline"))
    ensures(same_attr(m, n, "type") and same_attr(m, n, "participant"))
    ensures(attr(m, "to") is None)


@scenario
def receipt_outgoing_roundtrip(n: Obj("ProtocolTreeNode")):
    """<receipt id= [to=] [type="read"] [participant=]/>: the documented shapes WITHOUT a <list> of items.
    Not covered, because the real code fails there (findings, reported): the 'multiple items' shape <receipt ..><list><item id=/>..
    </list></receipt> ends in AttributeError (fromProtocolTreeNode calls listNode.getChildren(), a method ProtocolTreeNode does not
    have); type="played" (documented in the base class) is dropped, only type == "read" is kept.
    attr(m, "to") is "the value or None": for a stanza without to= the code stores the key "to" with the value None."""
    requires(n.tag == "receipt" and present(n, "id"))
    requires(attr(n, "type") is None or attr(n, "type") == "read")
    requires(nonempty_if_present(n, "participant"))         # `if self.participant:` cannot tell "" from absent
    requires(pure_child(n, "list") is None)
    e = OutgoingReceiptProtocolEntity.fromProtocolTreeNode(n)
    m = e.toProtocolTreeNode()
    ensures(m.tag == "receipt" and m.data is None and n_children(m) == 0)
    ensures(same_attr(m, n, "id") and same_attr(m, n, "to") and same_attr(m, n, "type") and same_attr(m, n, "participant"))
    ensures(attr(m, "from") is None and attr(m, "t") is None and attr(m, "offline") is None)


# =====================================================================================================================
# presence
# =====================================================================================================================
@scenario
def presence_available_roundtrip(n: Obj("ProtocolTreeNode")):
    """<presence type="available"/> and the response <presence from=/>: the class inherits parser and serialiser of
    PresenceProtocolEntity (the entity that comes back is a plain PresenceProtocolEntity)"""
    requires(n.tag == "presence" and (attr(n, "type") is None or attr(n, "type") == "available"))
    requires(nonempty_if_present(n, "name") and nonempty_if_present(n, "from") and nonempty_if_present(n, "last"))
    e = AvailablePresenceProtocolEntity.fromProtocolTreeNode(n)
    m = e.toProtocolTreeNode()
    ensures(m.tag == "presence" and m.data is None and n_children(m) == 0)
    ensures(same_attr(m, n, "type") and same_attr(m, n, "name") and same_attr(m, n, "from") and same_attr(m, n, "last"))
    ensures(attr(m, "to") is None and attr(m, "id") is None)


@scenario
def presence_unavailable_roundtrip(n: Obj("ProtocolTreeNode")):
    """<presence type="unavailable" [from=] [last=]/>: inherits parser and serialiser of PresenceProtocolEntity"""
    requires(n.tag == "presence" and attr(n, "type") == "unavailable")
    requires(nonempty_if_present(n, "name") and nonempty_if_present(n, "from") and nonempty_if_present(n, "last"))
    e = UnavailablePresenceProtocolEntity.fromProtocolTreeNode(n)
    m = e.toProtocolTreeNode()
    ensures(m.tag == "presence" and m.data is None and n_children(m) == 0)
    ensures(attr(m, "type") == "unavailable" and same_attr(m, n, "name") and same_attr(m, n, "from") and same_attr(m, n, "last"))
    ensures(attr(m, "to") is None and attr(m, "id") is None)


@scenario
def presence_subscribe_roundtrip(n: Obj("ProtocolTreeNode")):
    """<presence type="subscribe" to=/>"""
    requires(n.tag == "presence" and attr(n, "type") == "subscribe" and present(n, "to"))
    requires(nonempty_if_present(n, "name") and nonempty_if_present(n, "from") and nonempty_if_present(n, "last"))
    e = SubscribePresenceProtocolEntity.fromProtocolTreeNode(n)
    m = e.toProtocolTreeNode()
    ensures(m.tag == "presence" and m.data is None and n_children(m) == 0)
    ensures(attr(m, "type") == "subscribe" and same_attr(m, n, "to"))
    ensures(same_attr(m, n, "name") and same_attr(m, n, "from") and same_attr(m, n, "last"))
    ensures(attr(m, "id") is None)


@scenario
def presence_unsubscribe_roundtrip(n: Obj("ProtocolTreeNode")):
    """<presence type="unsubscribe" to=/>"""
    requires(n.tag == "presence" and attr(n, "type") == "unsubscribe" and present(n, "to"))
    requires(nonempty_if_present(n, "name") and nonempty_if_present(n, "from") and nonempty_if_present(n, "last"))
    e = UnsubscribePresenceProtocolEntity.fromProtocolTreeNode(n)
    m = e.toProtocolTreeNode()
    ensures(m.tag == "presence" and m.data is None and n_children(m) == 0)
    ensures(attr(m, "type") == "unsubscribe" and same_attr(m, n, "to"))
    ensures(same_attr(m, n, "name") and same_attr(m, n, "from") and same_attr(m, n, "last"))
    ensures(attr(m, "id") is None)


# =====================================================================================================================
# chat states
# =====================================================================================================================
@scenario
def chatstate_roundtrip(n: Obj("ProtocolTreeNode")):
    """<chatstate><composing|paused/></chatstate>: the state is the tag of the FIRST child (the code reads getAllChildren()[0], so the
    input child is named n.children[0] here, not through getChild)"""
    requires(n.tag == "chatstate")
    requires(n.children[0].tag == "composing" or n.children[0].tag == "paused")
    e = ChatstateProtocolEntity.fromProtocolTreeNode(n)
    m = e.toProtocolTreeNode()
    ensures(m.tag == "chatstate" and m.data is None and n_children(m) == 1)
    ensures(child(m, 0).tag == n.children[0].tag and child(m, 0).data is None and n_children(child(m, 0)) == 0)
    ensures(attr(m, "from") is None and attr(m, "to") is None)


@scenario
def chatstate_incoming_roundtrip(n: Obj("ProtocolTreeNode")):
    """<chatstate from=><composing|paused/></chatstate>"""
    requires(n.tag == "chatstate" and present(n, "from"))
    requires(n.children[0].tag == "composing" or n.children[0].tag == "paused")
    e = IncomingChatstateProtocolEntity.fromProtocolTreeNode(n)
    m = e.toProtocolTreeNode()
    ensures(m.tag == "chatstate" and m.data is None and n_children(m) == 1)
    ensures(child(m, 0).tag == n.children[0].tag and child(m, 0).data is None and n_children(child(m, 0)) == 0)
    ensures(same_attr(m, n, "from"))
    ensures(attr(m, "to") is None)


@scenario
def chatstate_outgoing_roundtrip(n: Obj("ProtocolTreeNode")):
    """<chatstate to=><composing|paused/></chatstate>"""
    requires(n.tag == "chatstate" and present(n, "to"))
    requires(n.children[0].tag == "composing" or n.children[0].tag == "paused")
    e = OutgoingChatstateProtocolEntity.fromProtocolTreeNode(n)
    m = e.toProtocolTreeNode()
    ensures(m.tag == "chatstate" and m.data is None and n_children(m) == 1)
    ensures(child(m, 0).tag == n.children[0].tag and child(m, 0).data is None and n_children(child(m, 0)) == 0)
    ensures(same_attr(m, n, "to"))
    ensures(attr(m, "from") is None)


# =====================================================================================================================
# last seen
# =====================================================================================================================
# LastseenIqProtocolEntity (iq_lastseen.py) has NO scenario: fromProtocolTreeNode builds LastseenIqProtocolEntity(node["to"]) and does
# not hand the id over, so the id of <iq type="get" id="X" xmlns="jabber:iq:last" to=><query/></iq> is replaced by a generated one
# (finding, reported; the verifier confirms: same_attr(m, n, "id") fails with int_to_str(1 + __ID_GEN) == n["id"]).

@scenario
def lastseen_result_roundtrip(n: Obj("ProtocolTreeNode"), k: Int):
    """<iq type="result" id= from=><query seconds=/></iq>"""
    requires(n.tag == "iq" and present(n, "id") and attr(n, "type") == "result")
    requires(present(n, "from") and len(attr(n, "from")) > 0 and attr(n, "to") is None and attr(n, "xmlns") is None)
    requires(pure_child(n, "query") is not None)
    # seconds is the decimal numeral of an integer (the code stores int(seconds) and writes str(...) back: "007" or "+7" would come
    # back as "7", a non-numeral raises ValueError)
    requires(attr(pure_child(n, "query"), "seconds") == str(k))
    e = ResultLastseenIqProtocolEntity.fromProtocolTreeNode(n)
    m = e.toProtocolTreeNode()
    ensures(m.tag == "iq" and m.data is None)
    ensures(attr(m, "type") == "result" and same_attr(m, n, "id") and same_attr(m, n, "from"))
    ensures(attr(m, "to") is None and attr(m, "xmlns") is None)
    ensures(n_children(m) == 1 and child(m, 0).tag == "query" and child(m, 0).data is None and n_children(child(m, 0)) == 0)
    ensures(attr(child(m, 0), "seconds") == attr(pure_child(n, "query"), "seconds"))


# =====================================================================================================================
# calls
# =====================================================================================================================
# CallProtocolEntity (protocol_calls/protocolentities/call.py): t goes through int()/str(), a stanza without offline= comes back with
# offline="0" (so the documented shape carries offline), an empty id is replaced by a generated one, and a child other than
# offer/transport/relaylatency/reject/terminate is dropped.  One scenario per position in the elif chain that picks the child kind.
def call_shape(n, k):
    return n.tag == "call" and present(n, "id") and len(attr(n, "id")) > 0 and attr(n, "t") == str(k) \
        and (attr(n, "offline") == "0" or attr(n, "offline") == "1")


def call_back(m, n, kind):
    return m.tag == "call" and m.data is None and n_children(m) == 1 and child(m, 0).tag == kind and child(m, 0).data is None \
        and n_children(child(m, 0)) == 0 and attr(child(m, 0), "call-id") == attr(pure_child(n, kind), "call-id") \
        and same_attr(m, n, "id") and same_attr(m, n, "t") and same_attr(m, n, "offline") and same_attr(m, n, "from") and same_attr(m, n, "to") \
        and same_attr(m, n, "notify") and same_attr(m, n, "retry") and same_attr(m, n, "e")


@scenario
def call_offer_roundtrip(n: Obj("ProtocolTreeNode"), k: Int):
    """<call id= t= offline= from= notify= retry= e=><offer call-id=/></call>"""
    requires(call_shape(n, k) and pure_child(n, "offer") is not None)
    m = CallProtocolEntity.fromProtocolTreeNode(n).toProtocolTreeNode()
    ensures(call_back(m, n, "offer"))


@scenario
def call_transport_roundtrip(n: Obj("ProtocolTreeNode"), k: Int):
    requires(call_shape(n, k) and pure_child(n, "offer") is None and pure_child(n, "transport") is not None)
    m = CallProtocolEntity.fromProtocolTreeNode(n).toProtocolTreeNode()
    ensures(call_back(m, n, "transport"))


@scenario
def call_relaylatency_roundtrip(n: Obj("ProtocolTreeNode"), k: Int):
    requires(call_shape(n, k) and pure_child(n, "offer") is None and pure_child(n, "transport") is None and pure_child(n, "relaylatency") is not None)
    m = CallProtocolEntity.fromProtocolTreeNode(n).toProtocolTreeNode()
    ensures(call_back(m, n, "relaylatency"))


@scenario
def call_reject_roundtrip(n: Obj("ProtocolTreeNode"), k: Int):
    requires(call_shape(n, k) and pure_child(n, "offer") is None and pure_child(n, "transport") is None and pure_child(n, "relaylatency") is None
             and pure_child(n, "reject") is not None)
    m = CallProtocolEntity.fromProtocolTreeNode(n).toProtocolTreeNode()
    ensures(call_back(m, n, "reject"))


@scenario
def call_terminate_roundtrip(n: Obj("ProtocolTreeNode"), k: Int):
    requires(call_shape(n, k) and pure_child(n, "offer") is None and pure_child(n, "transport") is None and pure_child(n, "relaylatency") is None
             and pure_child(n, "reject") is None and pure_child(n, "terminate") is not None)
    m = CallProtocolEntity.fromProtocolTreeNode(n).toProtocolTreeNode()
    ensures(call_back(m, n, "terminate"))
