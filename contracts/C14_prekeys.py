"""C14 - one-time prekeys: a key counts as pending upload until the server CONFIRMED an upload containing it, and never
afterwards.  The flag itself (prekeys.sent_to_server) is LitePreKeyStore.setAsSent / loadUnsentPendingPreKeys, under
contract in contracts/C13_store.py; here: who may set it, and when (manager + control layer)."""
from pyvc.lang import *
from contracts.C13_store import *

MGR = "yowsup/axolotl/manager.py"
CTRL = "yowsup/layers/axolotl/layer_control.py"
BASE = "yowsup/layers/axolotl/layer_base.py"
LAYERS = "yowsup/layers/__init__.py"

fields("AxolotlManager", _store=Opaque("store"), _username=Str, _identity=Opaque("identity"), _registration_id=Int)
extern("*.setAsSent", event="store.setAsSent", raises=True, readonly=True)
extern("*.loadUnsentPendingPreKeys", event="store.loadUnsentPendingPreKeys", returns=ListObj, raises=True)
extern("*.loadSignedPreKeys", event="store.loadSignedPreKeys", returns=ListObj, raises=True)
extern("prekey.getId", event="prekey.getId", returns=Int, pure=True)
event_sort("store.setAsSent", "obj")


@contract(MGR, "AxolotlManager.set_prekeys_as_sent")
def set_prekeys_as_sent(self: Obj("AxolotlManager"), prekeyIds: ListObj("prekey")):
    # exactly the ids of exactly the given keys are flagged, in one call to the store
    ensures(n_events("store.setAsSent") == 1 and len(event_arg("store.setAsSent", 0, 1)) == len(prekeyIds))
    ensures(forall(range(0, len(prekeyIds)), lambda i: event_arg("store.setAsSent", 0, 1)[i] == getter("prekey.getId", prekeyIds[i])))
    propagates("store.setAsSent")


@contract(MGR, "AxolotlManager.load_unsent_prekeys")
def load_unsent_prekeys(self: Obj("AxolotlManager")):
    ensures(n_events("store.loadUnsentPendingPreKeys") == 1 and same_obj(result, event_result("store.loadUnsentPendingPreKeys", 0))
            and n_events("store.setAsSent") == 0)
    propagates("store.loadUnsentPendingPreKeys")


# ---- control layer ---------------------------------------------------------------------------------------------------------
fields("AxolotlControlLayer", _manager=Opt(Opaque("manager")), iqRegistry=DictStrObj("callback"), handleMap=DictStrObj("handler"),
       _unsent_prekeys=ListObj("prekey"), _reboot_connection=Bool)
fields("YowLayerEvent", name=Str, detached=Bool, args=DictStrObj, __file__=LAYERS)
inline(LAYERS, "YowLayerEvent.__init__")
inline(LAYERS, "YowLayerEvent.getArg")
inline(BASE, "AxolotlBaseLayer.manager")
opaque(LAYERS, "YowLayer.broadcastEvent", event="broadcastEvent", raises=True)
opaque(LAYERS, "YowLayer.setProp", event="setProp")
opaque(LAYERS, "YowLayer.getProp", event="getProp", returns=Value)
opaque(LAYERS, "YowLayer.getLayerInterface", event="getLayerInterface", returns=Opaque("netiface"))
opaque(LAYERS, "YowProtocolLayer._sendIq", event="_sendIq", raises=True)
opaque(BASE, "AxolotlBaseLayer.on_connected", event="base.on_connected")
opaque(BASE, "AxolotlBaseLayer.on_disconnected", event="base.on_disconnected")
extern("netiface.connect", event="netiface.connect", raises=True)
extern("manager.set_prekeys_as_sent", event="manager.set_prekeys_as_sent", raises=True, readonly=True)
extern("manager.level_prekeys", event="manager.level_prekeys", returns=ListObj("prekey"), raises=True)
extern("manager.load_unsent_prekeys", event="manager.load_unsent_prekeys", returns=ListObj("prekey"), raises=True)
extern("manager.load_latest_signed_prekey", event="manager.load_latest_signed_prekey", returns=Opaque("signedprekey"), raises=True)
event_sort("manager.set_prekeys_as_sent", "obj")
event_sort("broadcastEvent", "obj")
event_sort("_sendIq", "obj")
E_DISCONNECT = "org.openwhatsapp.yowsup.event.network.disconnect"
P_PASSIVE = "org.openwhatsapp.yowsup.prop.auth.passive"


@contract(CTRL, "AxolotlControlLayer.on_keys_flushed")
def on_keys_flushed(self: Obj("AxolotlControlLayer"), prekeys: ListObj("prekey"), reboot_connection: Bool):
    requires(self._manager is not None)
    modifies(self._reboot_connection)
    # the result continuation of an upload: exactly the uploaded keys are marked as sent
    ensures(n_events("manager.set_prekeys_as_sent") == 1 and event_arg("manager.set_prekeys_as_sent", 0, 1) == prekeys)
    ensures(implies(reboot_connection, self._reboot_connection == True and n_events("broadcastEvent") == 1
                    and event_arg("broadcastEvent", 0).name == E_DISCONNECT))
    ensures(implies(not reboot_connection, self._reboot_connection == old(self._reboot_connection) and n_events("broadcastEvent") == 0))
    propagates("manager.set_prekeys_as_sent", ensures=n_events("broadcastEvent") == 0)
    propagates("broadcastEvent")


@contract(CTRL, "AxolotlControlLayer.onSentKeysError")
def onSentKeysError(self: Obj("AxolotlControlLayer"), errorNode: Opaque("node"), keysEntity: Opaque("entity")):
    # an upload that was not confirmed marks nothing as sent
    raises(Exception, ensures=n_events("manager.set_prekeys_as_sent") == 0)
    ensures(False)


@contract(CTRL, "AxolotlControlLayer.on_disconnected")
def ctrl_on_disconnected(self: Obj("AxolotlControlLayer"), yowLayerEvent: Obj("YowLayerEvent")):
    modifies(self._reboot_connection)
    # the disconnect this layer asked for (to switch passive mode off): passive off, then exactly one reconnect
    ensures(self._reboot_connection == False and n_events("netiface.connect") == (1 if old(self._reboot_connection) else 0))
    ensures(implies(old(self._reboot_connection), n_events("setProp") == 1 and event_arg("setProp", 0, 0) == P_PASSIVE
                    and event_arg("setProp", 0, 1) == False))
    ensures(n_events("manager.set_prekeys_as_sent") == 0)
    # the base class handler runs too (it forgets the manager of the closed connection), once, with this event
    ensures(n_events("base.on_disconnected") == 1 and same_obj(event_arg("base.on_disconnected", 0, 0), yowLayerEvent))
    propagates("netiface.connect", ensures=self._reboot_connection == False)


@contract(CTRL, "AxolotlControlLayer.onAuthed")
def ctrl_onAuthed(self: Obj("AxolotlControlLayer"), yowLayerEvent: Obj("YowLayerEvent")):
    requires(self._manager is not None)
    modifies(self._unsent_prekeys)
    # a passive login with unconfirmed keys offers them again: exactly one upload (flush_keys: one _sendIq whose result
    # continuation marks them), the queue is emptied; otherwise nothing is uploaded and nothing is forgotten; nothing is
    # marked as sent by logging in
    ensures(n_events("manager.set_prekeys_as_sent") == 0)
    ensures(implies(contains_key(yowLayerEvent.args, "passive") and truthy(map_get(yowLayerEvent.args, "passive")) and len(old(self._unsent_prekeys)) > 0,
                    n_events("_sendIq") == 1 and len(self._unsent_prekeys) == 0))
    ensures(implies(not (contains_key(yowLayerEvent.args, "passive") and truthy(map_get(yowLayerEvent.args, "passive")) and len(old(self._unsent_prekeys)) > 0),
                    n_events("_sendIq") == 0 and self._unsent_prekeys == old(self._unsent_prekeys)))
    propagates("manager.load_latest_signed_prekey", ensures=self._unsent_prekeys == old(self._unsent_prekeys))
    propagates("*", ensures=self._unsent_prekeys == old(self._unsent_prekeys))




@contract(CTRL, "AxolotlControlLayer.on_connected")
def ctrl_on_connected(self: Obj("AxolotlControlLayer"), yowLayerEvent: Obj("YowLayerEvent")):
    requires(self._manager is not None)         # established by the base class handler from the profile
    modifies(self._unsent_prekeys)
    # keys whose upload was never confirmed are offered again: they are queued for the next authenticated login and the
    # login is made passive; nothing is marked as sent here
    ensures(self._unsent_prekeys == old(self._unsent_prekeys) + event_result("manager.load_unsent_prekeys", 0))
    ensures(n_events("manager.set_prekeys_as_sent") == 0 and n_events("manager.level_prekeys") == 1)
    ensures(implies(len(self._unsent_prekeys) > 0, n_events("setProp") == 1 and event_arg("setProp", 0, 0) == P_PASSIVE and event_arg("setProp", 0, 1) == True))
    ensures(implies(len(self._unsent_prekeys) == 0, n_events("setProp") == 0))
    # the base class handler runs first (it installs the profile's key manager), once, with this event
    ensures(n_events("base.on_connected") == 1 and same_obj(event_arg("base.on_connected", 0, 0), yowLayerEvent)
            and at_event("manager.level_prekeys", 0, lambda: n_events("base.on_connected") == 1))
    propagates("manager.level_prekeys", ensures=self._unsent_prekeys == old(self._unsent_prekeys))
    propagates("manager.load_unsent_prekeys", ensures=self._unsent_prekeys == old(self._unsent_prekeys))


# ---- the upload itself ---------------------------------------------------------------------------------------------------
opaque("yowsup/layers/axolotl/protocolentities/iq_keys_set.py", "SetKeysIqProtocolEntity.__init__", event="SetKeysIq", raises=True)
extern("prekey.getKeyPair", event="prekey.getKeyPair", returns=Opaque("keypair"), pure=True)
extern("signedprekey.getKeyPair", event="signedprekey.getKeyPair", returns=Opaque("keypair"), pure=True)
extern("signedprekey.getId", event="signedprekey.getId", returns=Int, pure=True)
extern("signedprekey.getSignature", event="signedprekey.getSignature", returns=Bytes, pure=True)
extern("keypair.getPublicKey", event="keypair.getPublicKey", returns=Opaque("pubkey"), pure=True)
extern("pubkey.serialize", event="pubkey.serialize", returns=Bytes, pure=True)
extern("field.getPublicKey", event="identity.getPublicKey", returns=Opaque("pubkey"), pure=True)


@contract(CTRL, "AxolotlControlLayer.adjustId", assumed=True, pure=True,
          reason="3-byte big-endian form of an id below 2**24 (format/zfill/unhexlify): checked natively over ALL 2**24 ids (thorough) / a sample (quick)")
def adjustId(self: Obj("AxolotlControlLayer"), _id: Int) -> Bytes:
    pass


@contract(CTRL, "AxolotlControlLayer.adjustArray", assumed=True, pure=True, reason="identity on byte strings (hexlify then decodeHex): checked natively")
def adjustArray(self: Obj("AxolotlControlLayer"), arr: Bytes) -> Bytes:
    pass


def tail1(x):
    """x[1:] as Python computes it for every x (the empty string included): contract text does not clamp slice bounds by itself"""
    return x[(1 if 1 <= len(x) else len(x)):]


@contract(CTRL, "AxolotlControlLayer.flush_keys")
def flush_keys(self: Obj("AxolotlControlLayer"), signed_prekey: Opaque("signedprekey"), prekeys: ListObj("prekey"), reboot_connection: Bool):
    requires(self._manager is not None)
    # exactly one upload request; nothing is marked as sent by sending it
    ensures(n_events("_sendIq") == 1 and n_events("SetKeysIq") == 1 and same_obj(event_arg("_sendIq", 0, 0), event_self("SetKeysIq", 0)))
    ensures(n_events("manager.set_prekeys_as_sent") == 0)
    # its success continuation marks exactly the uploaded keys as sent (and only when the server's result arrives) ...
    ensures(in_closure(event_arg("_sendIq", 0, 1), lambda: n_events("manager.set_prekeys_as_sent") == 1
                       and event_arg("manager.set_prekeys_as_sent", 0, 1) == prekeys, nargs=2,
                       # it fires later, from receive() -> processIqRegistry, i.e. while connected (receive's precondition);
                       # every other field of the layer may have been reassigned since
                       given=lambda: self._manager is not None))
    # ... and its error continuation is the handler that touches nothing
    ensures(same_obj(event_arg("_sendIq", 0, 2), bound_method(self, "onSentKeysError")))
    # what is uploaded: the identity key and the signed prekey WITHOUT the leading key-type byte, the signature unchanged, ids as
    # big-endian bytes (adjustId / adjustArray: checked natively), the registration id; one entry per one-time key: id -> public key
    ensures(event_arg("SetKeysIq", 0, 0) == self.adjustArray(tail1(getter("pubkey.serialize", getter("field.getPublicKey", field(self._manager, "identity"))))))
    ensures(event_arg("SetKeysIq", 0, 1) == (self.adjustId(getter("signedprekey.getId", signed_prekey)),
                                            self.adjustArray(tail1(getter("pubkey.serialize", getter("keypair.getPublicKey", getter("signedprekey.getKeyPair", signed_prekey))))),
                                            self.adjustArray(getter("signedprekey.getSignature", signed_prekey))))
    ensures(event_arg("SetKeysIq", 0, 4) == self.adjustId(field(self._manager, "registration_id")))
    propagates("*")


@loop(CTRL, "AxolotlControlLayer.flush_keys", 1)
def flush_keys_loop(self, prekeys, preKeysDict: DictObjObj):
    invariant(n_events("_sendIq") == 0 and n_events("manager.set_prekeys_as_sent") == 0 and n_events("SetKeysIq") == 0)


# ---- refill: when fewer than 10 one-time keys remain (or on request), fresh keys whose ids continue after the highest stored id -----------
extern("*.loadPreKeys", event="store.loadPreKeys", returns=ListObj("prekey"), raises=True)
extern("field.loadMaxPreKeyId", event="prekeystore.loadMaxPreKeyId", returns=Int, raises=True)
extern("axolotl.util.keyhelper.KeyHelper.generatePreKeys", event="generatePreKeys", returns=ListObj("prekey"), raises=True)
extern("*.storePreKey", event="store.storePreKey", raises=True, readonly=True)
event_sort("store.storePreKey", "obj")
event_sort("generatePreKeys", "obj")


@contract(MGR, "AxolotlManager.level_prekeys")
def level_prekeys(self: Obj("AxolotlManager"), force: Bool) -> ListObj("prekey"):
    ensures(n_events("store.loadPreKeys") == 1 and n_events("store.setAsSent") == 0)
    # enough keys left and no request: nothing is generated, nothing stored, nothing to upload
    ensures(implies(not force and len(event_result("store.loadPreKeys", 0)) >= 10,
                    n_events("generatePreKeys") == 0 and n_events("store.storePreKey") == 0 and len(result) == 0))
    # otherwise ONE batch is generated, its ids starting right after the highest id ever stored; every generated key is stored exactly
    # once, under its own id, in order; the batch is returned for upload
    ensures(implies(force or len(event_result("store.loadPreKeys", 0)) < 10,
                    n_events("generatePreKeys") == 1 and n_events("prekeystore.loadMaxPreKeyId") == 1
                    and event_arg("generatePreKeys", 0, 0) == event_result("prekeystore.loadMaxPreKeyId", 0) + 1
                    and event_arg("generatePreKeys", 0, 1) > 0
                    and same_obj(result, event_result("generatePreKeys", 0))
                    and n_events("store.storePreKey") == len(event_result("generatePreKeys", 0))))
    ensures(forall(range(0, n_events("store.storePreKey")),
                   lambda i: same_obj(event_arg("store.storePreKey", i, 2), event_result("generatePreKeys", 0)[i])
                   and event_arg("store.storePreKey", i, 1) == getter("prekey.getId", event_result("generatePreKeys", 0)[i])))
    propagates("*")


@loop(MGR, "AxolotlManager.level_prekeys", 1)
def level_loop(self, force, prekeys):
    invariant(n_events("store.storePreKey") == loop_k() and n_events("generatePreKeys") == 1 and n_events("store.loadPreKeys") == 1
              and n_events("prekeystore.loadMaxPreKeyId") == 1 and n_events("store.setAsSent") == 0)
    invariant(forall(range(0, loop_k()), lambda i: same_obj(event_arg("store.storePreKey", i, 2), prekeys[i])
                     and event_arg("store.storePreKey", i, 1) == getter("prekey.getId", prekeys[i])))
