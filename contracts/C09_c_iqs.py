"""C09 (part c) - iq entities <-> stanzas: what each subclass of IqProtocolEntity adds (its xmlns, its child nodes and their
attributes / data).  The base class is covered by iq_roundtrip in C09_entities.py.  Every scenario: a symbolic stanza of the
documented shape -> X.fromProtocolTreeNode -> toProtocolTreeNode, executed on the REAL classes of /repo.

Notes
* PingIq, ResultIq, PongResultIq and GroupsIq have no fromProtocolTreeNode of their own: X.fromProtocolTreeNode is the inherited
  IqProtocolEntity.fromProtocolTreeNode and yields a plain IqProtocolEntity; their scenarios pin the documented shape of the subclass
  (xmlns, type, to / from, no children) on that path.
* Second level of the INPUT (a child of a child): the spec-level pure_child(pure_child(n, a), b) does not name the object the code
  gets from node.getChild(a).getChild(b); the scenario calls n.getChild(a).getChild(b) itself (iqc_privacylist).
* Lists of children (getAllChildren + loop): the scenario gives the input node a child list of exactly two symbolic nodes - bounded
  in the length of that list only (see the section below).
* Two scenarios are PARTIAL because the real code alters a documented field (marked FINDING at the clause that is weakened):
  iqc_picture_get (picture type), iqc_privacy_set (category value).  (iqc_sync was partial for `last` until the parser was repaired.)
* The assumed-pure getChild contract takes `identifier: Any` (a tag or an index): ListGroupsIq calls node.getChild(0).
* Not in this file - the real code loses a documented part of the stanza: PushIq / PropsIq / PictureIq (inherited parser: the child
  node is lost).
* Not in this file - engine: node.getChild("sync") on the OUTPUT node inside toProtocolTreeNode goes through the assumed-pure getChild
  contract (an arbitrary node, not the child that was just added; safety:attr-of-None[syncNode.setAttribute] fails): GetSyncIq,
  ResultSyncIq."""
from pyvc.lang import *
from contracts.C09_entities import *


@contract("yowsup/structs/protocoltreenode.py", "ProtocolTreeNode.getChild", assumed=True, pure=True,
          reason="first child with that tag (str) / the child at that index (int), or None: a pure function of the node")
def getChild(self: Obj("ProtocolTreeNode"), identifier: Any) -> Opt(Obj("ProtocolTreeNode")):
    pass


def iq_shape(n, typ):
    """<iq id= type=typ ...>: tag, id present, the documented type, never both to and from, optional attributes non-empty"""
    return n.tag == "iq" and attr(n, "id") is not None and attr(n, "type") == typ \
        and (attr(n, "to") is None or attr(n, "from") is None) \
        and nonempty_if_present(n, "xmlns") and nonempty_if_present(n, "to") and nonempty_if_present(n, "from")


def same_iq_attrs(m, n):
    return m.tag == "iq" and m.data is None and same_attr(m, n, "id") and same_attr(m, n, "type") and same_attr(m, n, "xmlns") \
        and same_attr(m, n, "to") and same_attr(m, n, "from")


# ---- protocol_iq -----------------------------------------------------------------------------------------------------
@scenario
def iqc_ping(n: Obj("ProtocolTreeNode")):
    """<iq type="get" xmlns="urn:xmpp:ping" from= id=/>  (received)  and  <iq type="get" xmlns="w:p" to= id=/>  (sent)"""
    requires(iq_shape(n, "get"))
    requires((attr(n, "xmlns") == "urn:xmpp:ping" and attr(n, "from") is not None) or (attr(n, "xmlns") == "w:p" and attr(n, "to") is not None))
    e = PingIqProtocolEntity.fromProtocolTreeNode(n)
    m = e.toProtocolTreeNode()
    ensures(same_iq_attrs(m, n))
    ensures(n_children(m) == 0)


@scenario
def iqc_result(n: Obj("ProtocolTreeNode")):
    """<iq type="result" id= [from=] [to=] [xmlns=]/>"""
    requires(iq_shape(n, "result"))
    e = ResultIqProtocolEntity.fromProtocolTreeNode(n)
    m = e.toProtocolTreeNode()
    ensures(same_iq_attrs(m, n))
    ensures(n_children(m) == 0)


@scenario
def iqc_pong(n: Obj("ProtocolTreeNode")):
    """<iq type="result" xmlns="w:p" to= id=/>"""
    requires(iq_shape(n, "result") and attr(n, "xmlns") == "w:p" and attr(n, "to") is not None)
    e = PongResultIqProtocolEntity.fromProtocolTreeNode(n)
    m = e.toProtocolTreeNode()
    ensures(same_iq_attrs(m, n))
    ensures(attr(m, "xmlns") == "w:p" and attr(m, "from") is None)
    ensures(n_children(m) == 0)


@scenario
def iqc_error(n: Obj("ProtocolTreeNode")):
    """<iq id= from= type="error"><error text= code= [backoff=]/></iq>"""
    requires(iq_shape(n, "error") and attr(n, "from") is not None and attr(n, "xmlns") is None)
    requires(pure_child(n, "error") is not None)
    requires(attr(pure_child(n, "error"), "text") is not None and attr(pure_child(n, "error"), "code") is not None)
    raises(ValueError)              # int(backoff) on a backoff that is not a numeral
    e = ErrorIqProtocolEntity.fromProtocolTreeNode(n)
    m = e.toProtocolTreeNode()
    ensures(same_iq_attrs(m, n))
    ensures(n_children(m) == 1 and child(m, 0).tag == "error" and child(m, 0).data is None)
    ensures(same_attr(child(m, 0), pure_child(n, "error"), "text") and same_attr(child(m, 0), pure_child(n, "error"), "code"))
    # backoff: numeric conversion (int() then str(); "0" and "" are dropped, "007" becomes "7"), not decided here: only "absent
    # stays absent" is (int() cannot be used in an ensures: "branch in pure (spec) evaluation: is_numeral")
    ensures(implies(attr(pure_child(n, "error"), "backoff") is None, attr(child(m, 0), "backoff") is None))


# ---- protocol_privacy ------------------------------------------------------------------------------------------------
@scenario
def iqc_privacylist(n: Obj("ProtocolTreeNode")):
    """<iq type="get" xmlns="jabber:iq:privacy" id=><query><list name=/></query></iq>"""
    requires(iq_shape(n, "get") and attr(n, "xmlns") == "jabber:iq:privacy" and pure_child(n, "query") is not None)
    # the second level of the input (<list> under <query>) is named through the same assumed-pure getChild the code calls; a
    # precondition cannot speak about it: the scenario probes it (None.tag raises) and the exceptional exit says that this is
    # the only way to leave with an exception - "there is a <list>" is the rest of the documented shape
    ln = n.getChild("query").getChild("list")
    ln.tag
    raises(AttributeError, ensures=ln is None)
    e = PrivacyListIqProtocolEntity.fromProtocolTreeNode(n)
    m = e.toProtocolTreeNode()
    ensures(ln is not None)
    ensures(same_iq_attrs(m, n))
    ensures(n_children(m) == 1 and child(m, 0).tag == "query" and child(m, 0).data is None and n_children(child(m, 0)) == 1)
    ensures(child(child(m, 0), 0).tag == "list" and child(child(m, 0), 0).data is None and n_children(child(child(m, 0), 0)) == 0)
    ensures(same_attr(child(child(m, 0), 0), ln, "name"))


# ---- protocol_profiles -----------------------------------------------------------------------------------------------
@scenario
def iqc_picture_get(n: Obj("ProtocolTreeNode")):
    """<iq type="get" id= xmlns="w:profile:picture" to=><picture type="image | preview"/></iq>"""
    requires(iq_shape(n, "get") and attr(n, "xmlns") == "w:profile:picture" and attr(n, "to") is not None)
    requires(pure_child(n, "picture") is not None)
    requires(attr(pure_child(n, "picture"), "type") == "image" or attr(pure_child(n, "picture"), "type") == "preview")
    e = GetPictureIqProtocolEntity.fromProtocolTreeNode(n)
    m = e.toProtocolTreeNode()
    ensures(same_iq_attrs(m, n))
    ensures(n_children(m) == 1 and child(m, 0).tag == "picture" and child(m, 0).data is None and n_children(child(m, 0)) == 0)
    # FINDING (reported, not claimed here): type="image" comes back as type="preview" - fromProtocolTreeNode stores the type STRING
    # in self.preview and toProtocolTreeNode tests its truth value.  Only the preview case is a round trip:
    ensures(implies(attr(pure_child(n, "picture"), "type") == "preview", same_attr(child(m, 0), pure_child(n, "picture"), "type")))



# ---- stanzas with a LIST of children ---------------------------------------------------------------------------------------
# The children of an input stanza are opaque to the engine, and the classes below read them with getAllChildren() and loop.  These
# scenarios therefore GIVE the relevant node of the input a child list of exactly two arbitrary nodes (u0, u1) before the round trip
# starts: they are bounded in the LENGTH of that list (2) and unbounded in everything else (every attribute / data of u0, u1 symbolic).
@scenario
def iqc_statuses_get(n: Obj("ProtocolTreeNode"), u0: Obj("ProtocolTreeNode"), u1: Obj("ProtocolTreeNode")):
    """<iq type="get" xmlns="status" to="s.whatsapp.net" id=><status><user jid=/><user jid=/></status></iq>"""
    requires(iq_shape(n, "get") and attr(n, "xmlns") == "status" and attr(n, "to") is not None and pure_child(n, "status") is not None)
    requires(u0.tag == "user" and u1.tag == "user" and attr(u0, "jid") is not None and attr(u1, "jid") is not None)
    n.getChild("status").children = [u0, u1]
    e = GetStatusesIqProtocolEntity.fromProtocolTreeNode(n)
    m = e.toProtocolTreeNode()
    ensures(same_iq_attrs(m, n))
    ensures(n_children(m) == 1 and child(m, 0).tag == "status" and child(m, 0).data is None and n_children(child(m, 0)) == 2)
    ensures(child(child(m, 0), 0).tag == "user" and child(child(m, 0), 1).tag == "user")
    ensures(same_attr(child(child(m, 0), 0), u0, "jid") and same_attr(child(child(m, 0), 1), u1, "jid"))


@scenario
def iqc_picture_set(n: Obj("ProtocolTreeNode"), u0: Obj("ProtocolTreeNode"), u1: Obj("ProtocolTreeNode")):
    """<iq type="set" id= xmlns="w:profile:picture" to=><picture type="image" id=>{{bytes}}</picture><picture type="preview">{{bytes}}</picture></iq>
    (the second <picture> is what the class itself sends next to the documented one)"""
    requires(iq_shape(n, "set") and attr(n, "xmlns") == "w:profile:picture" and attr(n, "to") is not None)
    requires(u0.tag == "picture" and attr(u0, "type") == "image" and attr(u0, "id") is not None and len(attr(u0, "id")) > 0)
    requires(u1.tag == "picture" and attr(u1, "type") == "preview")
    modifies(n.children)
    n.children = [u0, u1]
    e = SetPictureIqProtocolEntity.fromProtocolTreeNode(n)
    m = e.toProtocolTreeNode()
    ensures(same_iq_attrs(m, n))
    ensures(n_children(m) == 2 and child(m, 0).tag == "picture" and child(m, 1).tag == "picture")
    ensures(n_children(child(m, 0)) == 0 and n_children(child(m, 1)) == 0)
    ensures(same_attr(child(m, 0), u0, "type") and same_attr(child(m, 0), u0, "id") and child(m, 0).data == u0.data)
    ensures(same_attr(child(m, 1), u1, "type") and attr(child(m, 1), "id") is None and child(m, 1).data == u1.data)


@scenario
def iqc_pictures_list(n: Obj("ProtocolTreeNode"), u0: Obj("ProtocolTreeNode"), u1: Obj("ProtocolTreeNode")):
    """<iq type="get" id= xmlns="w:profile:picture" to=><list><user jid=/><user jid=/></list></iq>"""
    requires(iq_shape(n, "get") and attr(n, "xmlns") == "w:profile:picture" and attr(n, "to") is not None and pure_child(n, "list") is not None)
    requires(u0.tag == "user" and u1.tag == "user" and attr(u0, "jid") is not None and attr(u1, "jid") is not None)
    n.getChild("list").children = [u0, u1]
    e = ListPicturesIqProtocolEntity.fromProtocolTreeNode(n)
    m = e.toProtocolTreeNode()
    ensures(same_iq_attrs(m, n))
    ensures(n_children(m) == 1 and child(m, 0).tag == "list" and child(m, 0).data is None and n_children(child(m, 0)) == 2)
    ensures(attr(child(m, 0), "jid") is None)
    ensures(child(child(m, 0), 0).tag == "user" and child(child(m, 0), 1).tag == "user")
    ensures(child(child(m, 0), 0).data is None and child(child(m, 0), 1).data is None)
    ensures(same_attr(child(child(m, 0), 0), u0, "jid") and same_attr(child(child(m, 0), 1), u1, "jid"))


@scenario
def iqc_privacy_get(n: Obj("ProtocolTreeNode")):
    """<iq xmlns="privacy" type="get" id=><privacy/></iq>"""
    requires(iq_shape(n, "get") and attr(n, "xmlns") == "privacy" and pure_child(n, "privacy") is not None)
    e = GetPrivacyIqProtocolEntity.fromProtocolTreeNode(n)
    m = e.toProtocolTreeNode()
    ensures(same_iq_attrs(m, n))
    ensures(n_children(m) == 1 and child(m, 0).tag == "privacy" and child(m, 0).data is None and n_children(child(m, 0)) == 0)
    ensures(attr(child(m, 0), "name") is None and attr(child(m, 0), "value") is None)


@scenario
def iqc_status_set(n: Obj("ProtocolTreeNode")):
    """<iq to="s.whatsapp.net" xmlns="status" type="set" id=><status>{{MSG}}</status></iq>"""
    requires(iq_shape(n, "set") and attr(n, "xmlns") == "status" and attr(n, "to") == "s.whatsapp.net" and pure_child(n, "status") is not None)
    e = SetStatusIqProtocolEntity.fromProtocolTreeNode(n)
    m = e.toProtocolTreeNode()
    ensures(same_iq_attrs(m, n))
    ensures(n_children(m) == 1 and child(m, 0).tag == "status" and n_children(child(m, 0)) == 0)
    ensures(child(m, 0).data == pure_child(n, "status").data)


@scenario
def iqc_unregister(n: Obj("ProtocolTreeNode")):
    """<iq type="get" to="s.whatsapp.net" id=><remove xmlns="urn:xmpp:whatsapp:account"/></iq>"""
    requires(iq_shape(n, "get") and attr(n, "xmlns") is None and attr(n, "to") == "s.whatsapp.net" and pure_child(n, "remove") is not None)
    requires(attr(pure_child(n, "remove"), "xmlns") == "urn:xmpp:whatsapp:account")
    e = UnregisterIqProtocolEntity.fromProtocolTreeNode(n)
    m = e.toProtocolTreeNode()
    ensures(same_iq_attrs(m, n))
    ensures(n_children(m) == 1 and child(m, 0).tag == "remove" and child(m, 0).data is None and n_children(child(m, 0)) == 0)
    ensures(same_attr(child(m, 0), pure_child(n, "remove"), "xmlns"))


@scenario
def iqc_privacy_set(n: Obj("ProtocolTreeNode"), u0: Obj("ProtocolTreeNode"), u1: Obj("ProtocolTreeNode")):
    """<iq xmlns="privacy" type="set" id=><privacy><category name= value=/><category name= value=/></privacy></iq>"""
    requires(iq_shape(n, "set") and attr(n, "xmlns") == "privacy" and pure_child(n, "privacy") is not None)
    requires(u0.tag == "category" and u1.tag == "category")
    requires(attr(u0, "name") == "status" or attr(u0, "name") == "profile" or attr(u0, "name") == "last")
    requires(attr(u1, "name") == "status" or attr(u1, "name") == "profile" or attr(u1, "name") == "last")
    requires(attr(u0, "value") == "all" or attr(u0, "value") == "contacts" or attr(u0, "value") == "none")
    requires(attr(u1, "value") == attr(u0, "value"))
    n.getChild("privacy").children = [u0, u1]
    e = SetPrivacyIqProtocolEntity.fromProtocolTreeNode(n)
    m = e.toProtocolTreeNode()
    ensures(same_iq_attrs(m, n))
    ensures(n_children(m) == 1 and child(m, 0).tag == "privacy" and child(m, 0).data is None and n_children(child(m, 0)) == 2)
    ensures(child(child(m, 0), 0).tag == "category" and child(child(m, 0), 1).tag == "category")
    ensures(same_attr(child(child(m, 0), 0), u0, "name") and same_attr(child(child(m, 0), 1), u1, "name"))
    # FINDING (reported, not claimed here): the value is not read back - fromProtocolTreeNode ends with entity.setValue("all"), so
    # value="none" / "contacts" comes back as value="all".  Only value="all" is a round trip:
    ensures(implies(attr(u0, "value") == "all", same_attr(child(child(m, 0), 0), u0, "value") and same_attr(child(child(m, 0), 1), u1, "value")))


@scenario
def iqc_statuses_result(n: Obj("ProtocolTreeNode"), u0: Obj("ProtocolTreeNode"), u1: Obj("ProtocolTreeNode")):
    """<iq type="result" from="s.whatsapp.net" id=><status><user jid= t=>{{status}}</user><user jid= t=>{{status}}</user></status></iq>"""
    requires(iq_shape(n, "result") and attr(n, "from") is not None and pure_child(n, "status") is not None)
    requires(u0.tag == "user" and u1.tag == "user" and attr(u0, "jid") is not None and attr(u1, "jid") is not None)
    requires(attr(u0, "t") is not None and attr(u1, "t") is not None)
    # the entity keeps the statuses in a dict keyed by jid: two <user> with the SAME jid collapse into one (checked: without this
    # line the child count fails) - a result that lists a jid twice is taken to be outside the documented shape
    requires(attr(u0, "jid") != attr(u1, "jid"))
    n.getChild("status").children = [u0, u1]
    e = ResultStatusesIqProtocolEntity.fromProtocolTreeNode(n)
    m = e.toProtocolTreeNode()
    ensures(same_iq_attrs(m, n))
    ensures(n_children(m) == 1 and child(m, 0).tag == "status" and child(m, 0).data is None and n_children(child(m, 0)) == 2)
    ensures(child(child(m, 0), 0).tag == "user" and child(child(m, 0), 1).tag == "user")
    ensures(same_attr(child(child(m, 0), 0), u0, "jid") and same_attr(child(child(m, 0), 1), u1, "jid"))
    ensures(same_attr(child(child(m, 0), 0), u0, "t") and same_attr(child(child(m, 0), 1), u1, "t"))
    ensures(child(child(m, 0), 0).data == u0.data and child(child(m, 0), 1).data == u1.data)


# ---- protocol_contacts -----------------------------------------------------------------------------------------------
@scenario
def iqc_sync(n: Obj("ProtocolTreeNode")):
    """<iq type="get" id= xmlns="urn:xmpp:whatsapp:sync"><sync sid= index= last="true | false"/></iq>"""
    requires(iq_shape(n, "get") and attr(n, "xmlns") == "urn:xmpp:whatsapp:sync" and pure_child(n, "sync") is not None)
    requires(attr(pure_child(n, "sync"), "sid") is not None and len(attr(pure_child(n, "sync"), "sid")) > 0)
    requires(attr(pure_child(n, "sync"), "index") is not None)
    requires(attr(pure_child(n, "sync"), "last") == "true" or attr(pure_child(n, "sync"), "last") == "false")
    raises(ValueError)              # int(index) on an index that is not a numeral
    e = SyncIqProtocolEntity.fromProtocolTreeNode(n)
    m = e.toProtocolTreeNode()
    ensures(same_iq_attrs(m, n))
    ensures(n_children(m) == 1 and child(m, 0).tag == "sync" and child(m, 0).data is None and n_children(child(m, 0)) == 0)
    ensures(same_attr(child(m, 0), pure_child(n, "sync"), "sid"))
    # index: numeric conversion (int() then str()), not decided here; only that it is still there
    ensures(attr(child(m, 0), "index") is not None)
    ensures(same_attr(child(m, 0), pure_child(n, "sync"), "last"))          # both values (the parser keeps last != "false")


# ---- protocol_groups -------------------------------------------------------------------------------------------------
@scenario
def iqc_groups(n: Obj("ProtocolTreeNode")):
    """<iq type="get | set" id= xmlns="w:g2" to={{group_jid}}/>"""
    requires((iq_shape(n, "get") or iq_shape(n, "set")) and attr(n, "xmlns") == "w:g2" and attr(n, "to") is not None)
    e = GroupsIqProtocolEntity.fromProtocolTreeNode(n)
    m = e.toProtocolTreeNode()
    ensures(same_iq_attrs(m, n))
    ensures(attr(m, "xmlns") == "w:g2" and attr(m, "from") is None)
    ensures(n_children(m) == 0)


# ---- second round: classes whose serialiser was repaired in /repo, and the `super(C, C).fromProtocolTreeNode` classes ---------------
@scenario
def iqc_picture_get_result(n: Obj("ProtocolTreeNode")):
    """<iq type="result" from= id=><picture type="image | preview" id=>{{bytes}}</picture></iq>"""
    requires(iq_shape(n, "result") and attr(n, "from") is not None and attr(n, "xmlns") is None)
    requires(pure_child(n, "picture") is not None and attr(pure_child(n, "picture"), "id") is not None)
    requires(attr(pure_child(n, "picture"), "type") == "image" or attr(pure_child(n, "picture"), "type") == "preview")
    e = ResultGetPictureIqProtocolEntity.fromProtocolTreeNode(n)
    m = e.toProtocolTreeNode()
    ensures(same_iq_attrs(m, n))
    ensures(n_children(m) == 1 and child(m, 0).tag == "picture" and n_children(child(m, 0)) == 0)
    ensures(same_attr(child(m, 0), pure_child(n, "picture"), "type") and same_attr(child(m, 0), pure_child(n, "picture"), "id"))
    ensures(child(m, 0).data == pure_child(n, "picture").data)


@scenario
def iqc_privacy_result(n: Obj("ProtocolTreeNode"), u0: Obj("ProtocolTreeNode"), u1: Obj("ProtocolTreeNode")):
    """<iq type="result" from= id=><privacy><category name= value=/><category name= value=/></privacy></iq>"""
    requires(iq_shape(n, "result") and attr(n, "from") is not None and attr(n, "xmlns") is None and pure_child(n, "privacy") is not None)
    requires(u0.tag == "category" and u1.tag == "category" and attr(u0, "name") is not None and attr(u1, "name") is not None)
    requires(attr(u0, "value") is not None and attr(u1, "value") is not None)
    # the entity keeps the settings in a dict keyed by name: two categories with the same name collapse into one
    requires(attr(u0, "name") != attr(u1, "name"))
    n.getChild("privacy").children = [u0, u1]
    e = ResultPrivacyIqProtocolEntity.fromProtocolTreeNode(n)
    m = e.toProtocolTreeNode()
    ensures(same_iq_attrs(m, n))
    ensures(n_children(m) == 1 and child(m, 0).tag == "privacy" and child(m, 0).data is None and n_children(child(m, 0)) == 2)
    ensures(child(child(m, 0), 0).tag == "category" and child(child(m, 0), 1).tag == "category")
    ensures(child(child(m, 0), 0).data is None and child(child(m, 0), 1).data is None)
    ensures(same_attr(child(child(m, 0), 0), u0, "name") and same_attr(child(child(m, 0), 1), u1, "name"))
    ensures(same_attr(child(child(m, 0), 0), u0, "value") and same_attr(child(child(m, 0), 1), u1, "value"))


@scenario
def iqc_groups_info(n: Obj("ProtocolTreeNode")):
    """<iq id= type="get" to={{group_jid}} xmlns="w:g2"><query request="interactive"/></iq>"""
    requires(iq_shape(n, "get") and attr(n, "xmlns") == "w:g2" and attr(n, "to") is not None and pure_child(n, "query") is not None)
    requires(attr(pure_child(n, "query"), "request") == "interactive")
    e = InfoGroupsIqProtocolEntity.fromProtocolTreeNode(n)
    m = e.toProtocolTreeNode()
    ensures(same_iq_attrs(m, n))
    ensures(n_children(m) == 1 and child(m, 0).tag == "query" and child(m, 0).data is None and n_children(child(m, 0)) == 0)
    ensures(same_attr(child(m, 0), pure_child(n, "query"), "request"))


@scenario
def iqc_groups_leave(n: Obj("ProtocolTreeNode"), u0: Obj("ProtocolTreeNode"), u1: Obj("ProtocolTreeNode")):
    """<iq id= type="set" to="g.us" xmlns="w:g2"><leave action="delete"><group id=/><group id=/></leave></iq>"""
    requires(iq_shape(n, "set") and attr(n, "xmlns") == "w:g2" and attr(n, "to") is not None and pure_child(n, "leave") is not None)
    requires(attr(pure_child(n, "leave"), "action") == "delete")
    requires(u0.tag == "group" and u1.tag == "group" and attr(u0, "id") is not None and attr(u1, "id") is not None)
    n.getChild("leave").children = [u0, u1]
    e = LeaveGroupsIqProtocolEntity.fromProtocolTreeNode(n)
    m = e.toProtocolTreeNode()
    ensures(same_iq_attrs(m, n))
    ensures(n_children(m) == 1 and child(m, 0).tag == "leave" and child(m, 0).data is None and n_children(child(m, 0)) == 2)
    ensures(same_attr(child(m, 0), pure_child(n, "leave"), "action"))
    ensures(child(child(m, 0), 0).tag == "group" and child(child(m, 0), 1).tag == "group")
    ensures(child(child(m, 0), 0).data is None and child(child(m, 0), 1).data is None)
    ensures(same_attr(child(child(m, 0), 0), u0, "id") and same_attr(child(child(m, 0), 1), u1, "id"))


@scenario
def iqc_groups_subject(n: Obj("ProtocolTreeNode")):
    """<iq type="set" id= xmlns="w:g2" to={{group_jid}}><subject>{{NEW_VAL}}</subject></iq>"""
    requires(iq_shape(n, "set") and attr(n, "xmlns") == "w:g2" and attr(n, "to") is not None and pure_child(n, "subject") is not None)
    e = SubjectGroupsIqProtocolEntity.fromProtocolTreeNode(n)
    m = e.toProtocolTreeNode()
    ensures(same_iq_attrs(m, n))
    ensures(n_children(m) == 1 and child(m, 0).tag == "subject" and n_children(child(m, 0)) == 0)
    ensures(child(m, 0).data == pure_child(n, "subject").data)


@scenario
def iqc_groups_create(n: Obj("ProtocolTreeNode"), u0: Obj("ProtocolTreeNode"), u1: Obj("ProtocolTreeNode")):
    """<iq type="set" id= xmlns="w:g2" to="g.us"><create subject=><participant jid=/><participant jid=/></create></iq>"""
    requires(iq_shape(n, "set") and attr(n, "xmlns") == "w:g2" and attr(n, "to") is not None and pure_child(n, "create") is not None)
    requires(attr(pure_child(n, "create"), "subject") is not None)
    requires(u0.tag == "participant" and u1.tag == "participant" and attr(u0, "jid") is not None and attr(u1, "jid") is not None)
    n.getChild("create").children = [u0, u1]
    e = CreateGroupsIqProtocolEntity.fromProtocolTreeNode(n)
    m = e.toProtocolTreeNode()
    ensures(same_iq_attrs(m, n))
    ensures(n_children(m) == 1 and child(m, 0).tag == "create" and child(m, 0).data is None and n_children(child(m, 0)) == 2)
    ensures(same_attr(child(m, 0), pure_child(n, "create"), "subject"))
    ensures(child(child(m, 0), 0).tag == "participant" and child(child(m, 0), 1).tag == "participant")
    ensures(child(child(m, 0), 0).data is None and child(child(m, 0), 1).data is None)
    ensures(same_attr(child(child(m, 0), 0), u0, "jid") and same_attr(child(child(m, 0), 1), u1, "jid"))


@scenario
def iqc_groups_list(n: Obj("ProtocolTreeNode")):
    """<iq id= type="get" to="g.us" xmlns="w:g2"><participating/></iq>  or  <owning/>"""
    requires(iq_shape(n, "get") and attr(n, "xmlns") == "w:g2" and attr(n, "to") is not None and pure_child(n, 0) is not None)
    requires(pure_child(n, 0).tag == "participating" or pure_child(n, 0).tag == "owning")
    e = ListGroupsIqProtocolEntity.fromProtocolTreeNode(n)
    m = e.toProtocolTreeNode()
    ensures(same_iq_attrs(m, n))
    ensures(n_children(m) == 1 and child(m, 0).tag == pure_child(n, 0).tag and child(m, 0).data is None and n_children(child(m, 0)) == 0)
