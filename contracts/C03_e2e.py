"""C03 - end-to-end messaging.  The statement is about conversations between several accounts through a server and about what the
Signal library does; contracts cannot decide it.  What they decide is the GLUE on this side of python-axolotl (DESIGN.md section 7,
C03: partial, glue conjuncts only):
  * only ciphertext goes down: the send path hands the plaintext payload to the cipher and to nothing else; what goes down is an
    enc envelope built from the cipher's output, never the stanza that carried the plaintext;
  * padding: what is encrypted is payload || padding, and unpad(payload || padding) == payload for every payload (lemma by scenario);
  * the sent queue (originals kept for retry requests) is bounded by 100 and finds a message by id;
  * receipts: a retry receipt for a queued message is acked once and triggers one key fetch; other receipts go up once;
  * receive side: a decrypted message is forwarded exactly once with the plaintext re-attached and nothing is sent down;
    a retry request carries a counter that grows by one per request for the same message and is reset after a success.
(duplicate -> one receipt, invalid key / message -> one retry, no session -> parked + one key fetch: contracts/C17_identity.py,
handleEncMessage.)"""
from pyvc.lang import *
from contracts.C17_identity import *
from contracts.C08_iq import *

MGR = "yowsup/axolotl/manager.py"
SEND = "yowsup/layers/axolotl/layer_send.py"

# =====================================================================================================================
# padding
# =====================================================================================================================
fields("AxolotlManager")


@contract("<ext>", "random.randint", assumed=True, reason="random.randint(a, b) returns an integer in [a, b] (standard library)")
def randint(a: Int, b: Int) -> Int:
    requires(a <= b)
    ensures(a <= result and result <= b)


@contract(MGR, "AxolotlManager._generate_random_padding")
def _generate_random_padding(self: Obj("AxolotlManager")) -> Bytes:
    # 1..255 bytes, each equal to their number
    ensures(1 <= len(result) and len(result) <= 255 and forall(range(0, len(result)), lambda i: result[i] == len(result)))


@contract(MGR, "AxolotlManager._unpad", pure=True)
def _unpad(self: Obj("AxolotlManager"), data: Bytes) -> Bytes:
    requires(len(data) >= 1 and 1 <= data[len(data) - 1] and data[len(data) - 1] <= len(data))
    ensures(result == data[:len(data) - data[len(data) - 1]])


@scenario
def pad_then_unpad(m: Obj("AxolotlManager"), payload: Bytes):
    """unpad(payload || padding) == payload for every payload and every padding the generator can produce"""
    p = m._generate_random_padding()
    q = payload + p
    r = m._unpad(q)
    ensures(r == payload)


# =====================================================================================================================
# send side
# =====================================================================================================================
fields("AxolotlSendLayer", _manager=Opt(Opaque("manager")), skipEncJids=ListObj("jid"), sentQueue=ListObj("node"),
       iqRegistry=DictStrObj("callback"))
opaque(SEND, "AxolotlSendLayer.processPlaintextNodeAndSend", event="processPlaintextNodeAndSend", raises=True)
opaque(SEND, "AxolotlSendLayer.sendEncEntities", event="sendEncEntities", raises=True)
opaque(SEND, "AxolotlSendLayer.enqueueSent", event="enqueueSent", raises=True)
opaque(SEND, "AxolotlSendLayer.getEnqueuedMessageNode", event="getEnqueuedMessageNode", returns=Opt(Opaque("node")), raises=True)
event_sort("getEnqueuedMessageNode", "obj")
event_sort("processPlaintextNodeAndSend", "obj")
event_sort("sendEncEntities", "obj")
event_sort("enqueueSent", "obj")


@contract(SEND, "AxolotlSendLayer.send")
def send(self: Obj("AxolotlSendLayer"), node: Obj("ProtocolTreeNode")):
    # a message stanza never goes down as it came (it carries the plaintext payload): it is handed to the encrypting path, once
    # (the one exception the library makes: a recipient for whom the server returned NO key bundle at all was put on skipEncJids by
    # getKeysFor and is written to unencrypted from then on - by design; in a conversation among accounts that run this stack every
    # account has uploaded keys, so the list stays empty: contracts/C03_sendpaths.py, getKeysFor)
    ensures(implies(node.tag == "message" and attr(node, "to") not in self.skipEncJids,
                    n_events("processPlaintextNodeAndSend") == 1 and n_events("toLower") == 0))
    ensures(implies(node.tag != "message", n_events("toLower") == 1 and same_obj(event_arg("toLower", 0), node)
                    and n_events("processPlaintextNodeAndSend") == 0))
    ensures(n_events("toLower") + n_events("processPlaintextNodeAndSend") == 1)
    ensures(implies(n_events("processPlaintextNodeAndSend") == 1, node.tag == "message" and same_obj(event_arg("processPlaintextNodeAndSend", 0, 0), node)))
    propagates("*")


extern("manager.encrypt", event="manager.encrypt", returns=Opaque("ciphertext"), raises=True)
extern("ciphertext.serialize", event="ciphertext.serialize", returns=Bytes, pure=True)
opaque("yowsup/layers/axolotl/protocolentities/enc.py", "EncProtocolEntity.__init__", event="EncProtocolEntity", raises=True)
inline(PTN, "ProtocolTreeNode.getData")


@contract(SEND, "AxolotlSendLayer.sendToContact")
def sendToContact(self: Obj("AxolotlSendLayer"), node: Obj("ProtocolTreeNode")):
    requires(self._manager is not None and pure_child(node, "proto") is not None and attr(node, "to") is not None)
    # the payload goes to the cipher, once, and to nothing else; the envelope is built from the cipher's output
    ensures(n_events("manager.encrypt") == 1 and event_arg("manager.encrypt", 0, 2) == pure_child(node, "proto").data)
    ensures(n_events("EncProtocolEntity") == 1 and event_arg("EncProtocolEntity", 0, 2) == getter("ciphertext.serialize", event_result("manager.encrypt", 0)))
    # ... as a version-2 msg / pkmsg envelope (by the kind of ciphertext the session produced) carrying the payload's media type
    ensures(event_arg("EncProtocolEntity", 0, 1) == 2 and (event_arg("EncProtocolEntity", 0, 0) == "msg" or event_arg("EncProtocolEntity", 0, 0) == "pkmsg")
            and event_arg("EncProtocolEntity", 0, 3) == attr(pure_child(node, "proto"), "mediatype")
            and event_arg("manager.encrypt", 0, 1) == attr(node, "to").split("@")[0])
    ensures(n_events("sendEncEntities") == 1 and same_obj(event_arg("sendEncEntities", 0, 0), node) and n_events("toLower") == 0)
    propagates("*")


opaque("yowsup/layers/protocol_messages/protocolentities/attributes/attributes_message_meta.py", "MessageMetaAttributes.from_message_protocoltreenode",
       event="meta.fromNode", returns=Opaque("meta"), raises=True)
opaque("yowsup/layers/axolotl/protocolentities/message_encrypted.py", "EncryptedMessageProtocolEntity.__init__", event="EncryptedMessage", raises=True)
opaque("yowsup/layers/axolotl/protocolentities/message_encrypted.py", "EncryptedMessageProtocolEntity.toProtocolTreeNode", event="EncryptedMessage.toNode",
       returns=Opaque("encnode"), raises=True)


@contract(SEND, "AxolotlSendLayer.sendEncEntities", opaque_at_calls=True)
def sendEncEntities(self: Obj("AxolotlSendLayer"), node: Obj("ProtocolTreeNode"), encEntities: Opaque("encs"), participant: Opt(Str)):
    # exactly one stanza goes down: the serialisation of the encrypted envelope built from the enc entities - not the plaintext stanza
    ensures(n_events("toLower") == 1 and same_obj(event_arg("toLower", 0), event_result("EncryptedMessage.toNode", 0)) and n_events("toUpper") == 0)
    ensures(n_events("EncryptedMessage") == 1 and same_obj(event_arg("EncryptedMessage", 0, 0), encEntities)
            and event_arg("EncryptedMessage", 0, 1) == attr(node, "type"))         # the envelope keeps the message type (text / media)
    # the original is kept for retry requests unless this IS a retry directed at one participant
    ensures(n_events("enqueueSent") == (1 if participant is None else 0))
    ensures(implies(participant is None, same_obj(event_arg("enqueueSent", 0, 0), node) and at_event("toLower", 0, lambda: n_events("enqueueSent") == 1)))
    propagates("*")


def appended(new, old_, x):
    return len(new) == len(old_) + 1 and same_obj(new[len(old_)], x) and forall(range(0, len(old_)), lambda i: new[i] == old_[i])


@contract(SEND, "AxolotlSendLayer.enqueueSent", opaque_at_calls=True)
def enqueueSent(self: Obj("AxolotlSendLayer"), node: Obj("ProtocolTreeNode")):
    requires(len(self.sentQueue) <= 100)
    modifies(self.sentQueue)
    # fewer than 100 unacknowledged messages: nothing is forgotten; at 100 the oldest is dropped (the bound of the statement)
    ensures(implies(len(old(self.sentQueue)) < 100, appended(self.sentQueue, old(self.sentQueue), node)))
    ensures(implies(len(old(self.sentQueue)) == 100, appended(self.sentQueue, old(self.sentQueue)[1:], node)))
    ensures(len(self.sentQueue) <= 100)


# ---- what is encrypted is payload || padding (the plaintext reaches the cipher and nothing else) ----------------------------------
opaque(MGR, "AxolotlManager._get_session_cipher", event="get_session_cipher", returns=Opaque("cipher"), raises=True)
opaque(MGR, "AxolotlManager._get_group_cipher", event="get_group_cipher", returns=Opaque("cipher"), raises=True)
extern("cipher.encrypt", event="cipher.encrypt", returns=Opaque("ciphertext"), raises=True)


def is_padded(x, message):
    return len(x) > len(message) and len(x) <= len(message) + 255 and x[:len(message)] == message \
        and x[len(x) - 1] == len(x) - len(message)


@contract(MGR, "AxolotlManager.encrypt")
def mgr_encrypt(self: Obj("AxolotlManager"), recipient_id: Str, message: Bytes) -> Opaque("ciphertext"):
    ensures(n_events("cipher.encrypt") == 1 and is_padded(event_arg("cipher.encrypt", 0, 1), message)
            and same_obj(result, event_result("cipher.encrypt", 0)))
    ensures(n_events("get_session_cipher") == 1 and event_arg("get_session_cipher", 0, 0) == recipient_id)
    propagates("*")


@contract(MGR, "AxolotlManager.group_encrypt")
def mgr_group_encrypt(self: Obj("AxolotlManager"), groupid: Str, message: Bytes) -> Opaque("ciphertext"):
    ensures(n_events("cipher.encrypt") == 1 and is_padded(event_arg("cipher.encrypt", 0, 1), message)
            and same_obj(result, event_result("cipher.encrypt", 0)))
    # with OUR sender key for THIS group
    ensures(n_events("get_group_cipher") == 1 and event_arg("get_group_cipher", 0, 0) == groupid and event_arg("get_group_cipher", 0, 1) == self._username)
    propagates("*")


# ---- the sent queue finds a message by id -------------------------------------------------------------------------------------------
def qid(q, i):
    return attr(q[i], "id")


@contract(SEND, "AxolotlSendLayer.getEnqueuedMessageNode", opaque_at_calls=True)
def getEnqueuedMessageNode(self: Obj("AxolotlSendLayer"), messageId: Opt(Str), keepEnqueued: Bool) -> Opt(Opaque("node")):
    requires(forall(range(0, len(self.sentQueue)), lambda i: self.sentQueue[i] is not None))       # the queue holds stanzas
    modifies(self.sentQueue)
    # None iff no queued message has that id; otherwise the FIRST such message; removed unless it is to be kept
    ensures(implies(result is None, forall(range(0, len(old(self.sentQueue))), lambda i: not (qid(old(self.sentQueue), i) == messageId))
                    and self.sentQueue == old(self.sentQueue)))
    ensures(implies(result is not None, attr(result, "id") == messageId))
    ensures(implies(result is not None and keepEnqueued, self.sentQueue == old(self.sentQueue)))
    ensures(implies(result is not None and not keepEnqueued, len(self.sentQueue) == len(old(self.sentQueue)) - 1))


@loop(SEND, "AxolotlSendLayer.getEnqueuedMessageNode", 1)
def getEnqueued_loop(self, messageId):
    invariant(self.sentQueue == old(self.sentQueue))
    invariant(forall(range(0, loop_k()), lambda j: not (qid(self.sentQueue, j) == messageId)))


# ---- receipts at the send layer: a retry request for a queued message is acked once and re-keyed; everything else goes up once ------
opaque("yowsup/layers/axolotl/protocolentities/receipt_incoming_retry.py", "RetryIncomingReceiptProtocolEntity.fromProtocolTreeNode",
       event="retry.fromNode", returns=Opaque("retryentity"), raises=True)
extern("retryentity.ack", event="retryentity.ack", returns=Opaque("entity"), raises=True)
opaque("yowsup/layers/axolotl/layer_base.py", "AxolotlBaseLayer.getKeysFor", event="getKeysFor", raises=True)


@contract(SEND, "AxolotlSendLayer.receive")
def send_layer_receive(self: Obj("AxolotlSendLayer"), protocolTreeNode: Obj("ProtocolTreeNode")):
    modifies(self.iqRegistry)
    ensures(implies(is_reply(old(self.iqRegistry), protocolTreeNode), n_events("toUpper") == 0 and n_events("toLower") == 0))
    # anything that is not a receipt is the receive layer's business (the two layers sit side by side)
    ensures(implies(not is_reply(old(self.iqRegistry), protocolTreeNode) and protocolTreeNode.tag != "receipt", n_events("toUpper") == 0 and n_events("toLower") == 0))
    # a receipt: retry request for a message we still hold -> one ack, one key fetch, nothing upward; any other receipt -> upward once
    ensures(implies(not is_reply(old(self.iqRegistry), protocolTreeNode) and protocolTreeNode.tag == "receipt",
                    n_events("getEnqueuedMessageNode") == 1 and event_arg("getEnqueuedMessageNode", 0, 0) == attr(protocolTreeNode, "id")
                    # the original of a GROUP message stays queued whatever the receipt says: every other participant may still ask for a retry;
                    # the original of a 1:1 message is released by its first receipt
                    and event_arg("getEnqueuedMessageNode", 0, 1) == (attr(protocolTreeNode, "participant") is not None)))
    ensures(implies(not is_reply(old(self.iqRegistry), protocolTreeNode) and protocolTreeNode.tag == "receipt"
                    and truthy(event_result("getEnqueuedMessageNode", 0)) and attr(protocolTreeNode, "type") == "retry",
                    n_events("toLower") == 1 and n_events("getKeysFor") == 1 and n_events("toUpper") == 0
                    and same_obj(event_arg("toLower", 0), event_result("entity.toProtocolTreeNode", 0))))
    # ... and when the requester's keys have arrived: the queued ORIGINAL is encrypted again for that retry (once); a reported error
    # (unknown user, identity refused) -> nothing is re-sent
    ensures(implies(not is_reply(old(self.iqRegistry), protocolTreeNode) and protocolTreeNode.tag == "receipt" and n_events("getKeysFor") == 1,
                    in_closure(event_arg("getKeysFor", 0, 1), lambda successJids, errors: n_events("processPlaintextNodeAndSend") == 1
                               and same_obj(event_arg("processPlaintextNodeAndSend", 0, 0), outer(event_result("getEnqueuedMessageNode", 0)))
                               and same_obj(event_arg("processPlaintextNodeAndSend", 0, 1), outer(event_result("retry.fromNode", 0))),
                               argtypes=(ListObj("jid"), DictObjObj), given=lambda successJids, errors: len(errors) == 0 and len(successJids) == 1,
                               total=True)
                    and in_closure(event_arg("getKeysFor", 0, 1), lambda successJids, errors: n_events("processPlaintextNodeAndSend") == 0
                                   and n_events("toLower") == 0,
                                   argtypes=(ListObj("jid"), DictObjObj), given=lambda successJids, errors: len(errors) > 0, total=True)))
    ensures(implies(not is_reply(old(self.iqRegistry), protocolTreeNode) and protocolTreeNode.tag == "receipt"
                    and not (truthy(event_result("getEnqueuedMessageNode", 0)) and attr(protocolTreeNode, "type") == "retry"),
                    n_events("toUpper") == 1 and same_obj(event_arg("toUpper", 0), protocolTreeNode) and n_events("toLower") == 0 and n_events("getKeysFor") == 0))
    propagates("*")


# ---- receive side: the retry counter -------------------------------------------------------------------------------------------------
fields("AxolotlReceivelayer", _retries=DictStrObj("count"))
opaque("yowsup/layers/axolotl/protocolentities/receipt_outgoing_retry.py", "RetryOutgoingReceiptProtocolEntity.fromMessageNode",
       event="retry.fromMessageNode", returns=Opaque("retryout"), raises=True)
extern("retryout.toProtocolTreeNode", event="retryout.toProtocolTreeNode", returns=Opaque("node"), raises=True)


@contract(RECV, "AxolotlReceivelayer.reset_retries", opaque_at_calls=True)
def reset_retries(self: Obj("AxolotlReceivelayer"), message_id: Str):
    modifies(self._retries)
    ensures(map_eq(self._retries, map_del(old(self._retries), message_id)))


@contract(RECV, "AxolotlReceivelayer.receive")
def recv_layer_receive(self: Obj("AxolotlReceivelayer"), protocolTreeNode: Obj("ProtocolTreeNode")):
    modifies(self.iqRegistry)
    # receipts are the send layer's business; messages are decrypted; everything else goes upward exactly once, unchanged
    ensures(implies(is_reply(old(self.iqRegistry), protocolTreeNode), n_events("toUpper") == 0 and n_events("onMessage") == 0))
    ensures(implies(not is_reply(old(self.iqRegistry), protocolTreeNode) and protocolTreeNode.tag == "message",
                    n_events("onMessage") == 1 and same_obj(event_arg("onMessage", 0, 0), protocolTreeNode) and n_events("toUpper") == 0))
    ensures(implies(not is_reply(old(self.iqRegistry), protocolTreeNode) and protocolTreeNode.tag == "receipt", n_events("onMessage") == 0 and n_events("toUpper") == 0))
    ensures(implies(not is_reply(old(self.iqRegistry), protocolTreeNode) and protocolTreeNode.tag != "message" and protocolTreeNode.tag != "receipt",
                    n_events("toUpper") == 1 and same_obj(event_arg("toUpper", 0), protocolTreeNode) and n_events("onMessage") == 0))
    propagates("*")


opaque(RECV, "AxolotlReceivelayer.onMessage", event="onMessage", raises=True)
event_sort("onMessage", "obj")


@contract(RECV, "AxolotlReceivelayer.send_retry", opaque_at_calls=True)
def send_retry(self: Obj("AxolotlReceivelayer"), message_node: Obj("ProtocolTreeNode"), registration_id: Int):
    requires(attr(message_node, "id") is not None)
    modifies(self._retries)
    # one retry receipt goes down, built from THIS message and our registration id; its counter is one more than the last request
    # for the same message (1 for the first); the counter is remembered under the message id
    ensures(n_events("toLower") == 1 and same_obj(event_arg("toLower", 0), event_result("retryout.toProtocolTreeNode", 0)) and n_events("toUpper") == 0)
    ensures(n_events("retry.fromMessageNode") == 1 and same_obj(event_arg("retry.fromMessageNode", 0, 0), message_node)
            and event_arg("retry.fromMessageNode", 0, 1) == registration_id)
    ensures(contains_key(self._retries, attr(message_node, "id")))
    ensures(implies(not contains_key(old(self._retries), attr(message_node, "id")), map_get(self._retries, attr(message_node, "id")) == 1))
    ensures(implies(contains_key(old(self._retries), attr(message_node, "id")),
                    map_get(self._retries, attr(message_node, "id")) == map_get(old(self._retries), attr(message_node, "id")) + 1))
    ensures(event_arg("setattr:count", 0, 1) == map_get(self._retries, attr(message_node, "id")))
    propagates("*")


# =====================================================================================================================
# native generators (replay / directed search on the real functions)
# =====================================================================================================================
def gen__unpad(rng, n):
    """payload || padding for every padding length, payloads that END in the padding byte included"""
    for it in range(n):
        k = 1 + (it % 255)
        body = [rng.randrange(256) for _ in range(rng.choice([0, 1, 5, 40]))]
        if it % 3 == 0:
            body = body + [k] * rng.choice([1, 2, 7])
        yield {'inputs': {'self': {}, 'data': body + [k] * k}}


def gen_enqueueSent(rng, n):
    for it in range(n):
        q = rng.choice([0, 1, 5, 99, 100])
        yield {'inputs': {'self': {'_manager': None, 'skipEncJids': [], 'sentQueue': [{'$node': i} for i in range(q)], 'iqRegistry': []},
                          'node': {'tag': 'message', 'attributes': {'id': 'm%d' % it, 'to': 'x@s.whatsapp.net'}, 'children': []}}}
