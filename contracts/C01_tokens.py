"""C01 / C02 stage B - the token dictionary: lookups against the two tables as sequences of strings (the tables themselves are
compared entry by entry with the reference copy natively, bounded/codec_check.py)."""
from pyvc.lang import *

TD = "yowsup/layers/coder/tokendictionary.py"
DEC = "yowsup/layers/coder/decoder.py"
fields("TokenDictionary", dictionary=SeqStr, secondaryDictionary=SeqStr)


@contract(TD, "TokenDictionary.getToken")
def td_getToken(self: Obj("TokenDictionary"), index: Int, secondary: Bool) -> Opt(Str):
    # secondary table: entry `index` when it exists, else nothing
    ensures(implies(secondary and 0 <= index and index < len(self.secondaryDictionary), result == self.secondaryDictionary[index]))
    ensures(implies(secondary and not (0 <= index and index < len(self.secondaryDictionary)), result is None))
    # primary table: entries 0..235 are primary tokens - EVERY one of them, the last included
    ensures(implies(not secondary and 0 <= index and index < len(self.dictionary) and index <= 236, result == self.dictionary[index]))
    ensures(implies(not secondary and index < 0, result is None))


@contract(TD, "TokenDictionary.getIndex")
def td_getIndex(self: Obj("TokenDictionary"), token: Str) -> Opt(Tup(Int, Bool)):
    # the FIRST position in the primary table, else the first in the secondary table, else nothing
    ensures(implies(result is not None and not result[1], 0 <= result[0] and result[0] < len(self.dictionary) and self.dictionary[result[0]] == token
                    and forall(range(0, result[0]), lambda j: not (self.dictionary[j] == token))))
    ensures(implies(result is not None and result[1], 0 <= result[0] and result[0] < len(self.secondaryDictionary) and self.secondaryDictionary[result[0]] == token
                    and forall(range(0, len(self.dictionary)), lambda j: not (self.dictionary[j] == token))))
    ensures(implies(result is None, forall(range(0, len(self.dictionary)), lambda j: not (self.dictionary[j] == token))
                    and forall(range(0, len(self.secondaryDictionary)), lambda j: not (self.secondaryDictionary[j] == token))))


# ---- the decoder's token lookups -------------------------------------------------------------------------------------------------
fields("ReadDecoder", tokenDictionary=Obj("TokenDictionary"))
opaque(DEC, "ReadDecoder.readInt8", event="readInt8", returns=Int, raises=True)


def d1(self):
    return self.tokenDictionary.dictionary


def d2(self):
    return self.tokenDictionary.secondaryDictionary


@contract(DEC, "ReadDecoder.getToken")
def dec_getToken(self: Obj("ReadDecoder"), index: Int, data: ByteArray) -> Str:
    requires(2 < index and index < 236 and index < len(d1(self)))          # how readString calls it: a primary token byte
    raises(ValueError)
    raises(IndexError)          # the fall-back path reads one more byte: a truncated frame
    modifies(data)      # only on the fall-back path (an empty primary entry): the next byte selects a secondary entry
    # a primary token byte decodes to its table entry, consuming nothing more
    ensures(implies(len(d1(self)[index]) > 0, result == d1(self)[index] and n_events("readInt8") == 0 and data == old(data)))
    propagates("readInt8")


@contract(DEC, "ReadDecoder.getTokenDouble")
def dec_getTokenDouble(self: Obj("ReadDecoder"), n: Int, n2: Int) -> Str:
    requires(0 <= n and n <= 3 and 0 <= n2 and n2 < 256)
    raises(ValueError, when=not (n2 + n * 256 < len(d2(self)) and len(d2(self)[n2 + n * 256]) > 0))
    # the double-byte token (236 + n, n2) is entry n * 256 + n2 of the secondary table
    ensures(result == d2(self)[n2 + n * 256])
