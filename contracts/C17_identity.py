"""C17 - contact identity keys are pinned.  The trust decision itself (trusted iff unknown or byte-equal to the pinned
key; the pin is replaced atomically and survives restarts) is LiteIdentityKeyStore.isTrustedIdentity / saveIdentity,
under contract in contracts/C13_store.py.  Here: what the manager and the receive layer DO with that decision."""
from pyvc.lang import *
from contracts.C13_store import *

MGR = "yowsup/axolotl/manager.py"
RECV = "yowsup/layers/axolotl/layer_receive.py"
LAYERS = "yowsup/layers/__init__.py"
BASE = "yowsup/layers/axolotl/layer_base.py"
R = "assumed contract of python-axolotl (read from the installed source: SessionBuilder.processPreKeyBundle checks " \
    "identityKeyStore.isTrustedIdentity first and raises UntrustedIdentityException(name, key) before storing anything)"

P_AUTOTRUST = "org.openwhatsapp.yowsup.prop.axolotl.INDENTITY_AUTOTRUST"
fields("AxolotlManager", _store=Opaque("store"), _username=Str)
fields("SessionBuilder", store=Opaque("store"), recipient=Opaque("name"))
extern("store.saveIdentity", event="store.saveIdentity", raises=True)
extern("store.storeSession", event="store.storeSession")
extern("bundle.getIdentityKey", event="bundle.getIdentityKey", returns=Opaque("identitykey"), pure=True)
event_sort("store.saveIdentity", "obj")


@spec(uninterpreted=True)
def trusted(store: Opaque, name: Opaque, key: Opaque) -> Bool:
    """identityKeyStore.isTrustedIdentity(name, key) at the time of the call"""
    return True


@contract("<ext>", "axolotl.sessionbuilder.SessionBuilder", assumed=True, reason=R)
def SessionBuilder(sessionStore: Opaque("store"), preKeyStore: Opaque("store"), signedPreKeyStore: Opaque("store"),
                   identityKeyStore: Opaque("store"), recepientId: Opaque("name"), deviceId: Int) -> Obj("SessionBuilder"):
    ensures(same_obj(result.store, identityKeyStore) and same_obj(result.recipient, recepientId))


@contract("<ext>", "SessionBuilder.processPreKeyBundle", assumed=True, reason=R)
def processPreKeyBundle(self: Obj("SessionBuilder"), preKey: Opaque("bundle")):
    raises(UntrustedIdentityException, when=not trusted(self.store, self.recipient, getter("bundle.getIdentityKey", preKey)),
           ensures=same_obj(exc_get("getName"), self.recipient) and same_obj(exc_get("getIdentityKey"), getter("bundle.getIdentityKey", preKey)))


@contract(MGR, "AxolotlManager.trust_identity")
def trust_identity(self: Obj("AxolotlManager"), recipientid: Opaque("name"), identitykey: Opaque("identitykey")):
    ensures(n_events("store.saveIdentity") == 1 and same_obj(event_arg("store.saveIdentity", 0, 1), recipientid)
            and same_obj(event_arg("store.saveIdentity", 0, 2), identitykey))
    propagates("store.saveIdentity")


@contract(MGR, "AxolotlManager.create_session")
def create_session(self: Obj("AxolotlManager"), username: Opaque("name"), prekeybundle: Opaque("bundle"), autotrust: Bool):
    # a bundle presenting an identity that is not the pinned one is REFUSED: the library's own exception is raised and the
    # pinned key is not touched ...
    raises(UntrustedIdentityException, when=not autotrust and not trusted(self._store, username, getter("bundle.getIdentityKey", prekeybundle)),
           ensures=n_events("store.saveIdentity") == 0 and same_obj(exc_arg(0), username)
           and same_obj(exc_arg(1), getter("bundle.getIdentityKey", prekeybundle)))
    # ... unless the application switched on automatic trust: then the new key replaces the pin (exactly one saveIdentity
    # of exactly that key for exactly that contact)
    ensures(implies(autotrust and not trusted(self._store, username, getter("bundle.getIdentityKey", prekeybundle)),
                    n_events("store.saveIdentity") == 1 and same_obj(event_arg("store.saveIdentity", 0, 1), username)
                    and same_obj(event_arg("store.saveIdentity", 0, 2), getter("bundle.getIdentityKey", prekeybundle))))
    ensures(implies(trusted(self._store, username, getter("bundle.getIdentityKey", prekeybundle)), n_events("store.saveIdentity") == 0))
    propagates("store.saveIdentity")


# =====================================================================================================================
# receive layer: what happens to an incoming encrypted message, per outcome of the decryption
# (also the C03 conjuncts: duplicate -> receipt only; undecryptable -> retry; no session -> park and fetch keys)
# =====================================================================================================================
PTN = "yowsup/structs/protocoltreenode.py"
PE = "yowsup/structs/protocolentity.py"
REC = "yowsup/layers/protocol_receipts/protocolentities/receipt.py"
RECO = "yowsup/layers/protocol_receipts/protocolentities/receipt_outgoing.py"
fields("ProtocolTreeNode", tag=Str, attributes=DictStrStr, children=Opaque("children"), data=Opt(Bytes), __file__=PTN)
inline(PTN, "ProtocolTreeNode.__init__")
inline(PTN, "ProtocolTreeNode.__getitem__")
inline(PTN, "ProtocolTreeNode.getAttributeValue")
inline(PTN, "ProtocolTreeNode.setAttribute")
inline(PE, "ProtocolEntity.__init__")
inline(PE, "ProtocolEntity.getTag")
inline(PE, "ProtocolEntity._createProtocolTreeNode")
inline(REC, "ReceiptProtocolEntity.__init__")
inline(REC, "ReceiptProtocolEntity.toProtocolTreeNode")
inline(RECO, "OutgoingReceiptProtocolEntity.__init__")
inline(RECO, "OutgoingReceiptProtocolEntity.setOutgoingData")
inline(RECO, "OutgoingReceiptProtocolEntity.toProtocolTreeNode")
inline(BASE, "AxolotlBaseLayer.manager")


@contract(PTN, "ProtocolTreeNode.getChild", assumed=True, pure=True, reason="first child with that tag, or None: a pure function of the node")
def getChild(self: Obj("ProtocolTreeNode"), identifier: Str) -> Opt(Obj("ProtocolTreeNode")):
    pass


fields("AxolotlReceivelayer", _manager=Opt(Opaque("manager")), v2Jids=ListObj, pendingIncomingMessages=DictObjObj, _retries=DictStrObj,
       iqRegistry=DictStrObj("callback"), handleMap=DictStrObj("handler"))
event_sort("toLower", "obj")
opaque(LAYERS, "YowLayer.toLower", event="toLower", raises=True)
opaque(LAYERS, "YowLayer.toUpper", event="toUpper", raises=True)
opaque(LAYERS, "YowLayer.getProp", event="getProp", returns=Value)
opaque("yowsup/layers/axolotl/protocolentities/message_encrypted.py", "EncryptedMessageProtocolEntity.fromProtocolTreeNode",
       event="enc.fromNode", returns=Opaque("encmsg"), raises=True)
extern("encmsg.getEnc", event="encmsg.getEnc", returns=Value("enc"))
extern("encmsg.getAuthor", event="encmsg.getAuthor", returns=Str)
opaque(RECV, "AxolotlReceivelayer.handlePreKeyWhisperMessage", event="decrypt", raises=True)
opaque(RECV, "AxolotlReceivelayer.handleWhisperMessage", event="decrypt", raises=True)
opaque(RECV, "AxolotlReceivelayer.handleSenderKeyMessage", event="decrypt", raises=True)
opaque(RECV, "AxolotlReceivelayer.send_retry", event="send_retry", raises=True)
opaque(RECV, "AxolotlReceivelayer.reset_retries", event="reset_retries")
opaque(BASE, "AxolotlBaseLayer.getKeysFor", event="getKeysFor", raises=True)
extern("manager.trust_identity", event="manager.trust_identity", raises=True)
extern("manager.registration_id", event="manager.registration_id", returns=Int)


@contract(RECV, "AxolotlReceivelayer.handleEncMessage", max_paths=6000)
def handleEncMessage(self: Obj("AxolotlReceivelayer"), node: Obj("ProtocolTreeNode")):
    requires(self._manager is not None and pure_child(node, "enc") is not None)
    requires(attr(node, "id") is not None and attr(node, "from") is not None)        # a message stanza carries id and from
    modifies(self.v2Jids, self.pendingIncomingMessages)
    partial("the auto-trust branch re-handles the message recursively; that the second attempt is trusted depends on python-axolotl")
    # whatever the decryption raises, the handler deals with it: nothing escapes except what a neighbouring layer raises
    ensures(n_events("toLower") <= 1 and n_events("send_retry") <= 1 and n_events("getKeysFor") <= 1)
    # the pinned key is only ever touched when the application switched on automatic trust
    ensures(implies(n_events("manager.trust_identity") >= 1, truthy(event_result("getProp", 0))))
    # ... and "switched on" means the stack property, with default OFF: an application that never set it gets the refusal
    ensures(implies(n_events("getProp") >= 1, event_arg("getProp", 0, 0) == P_AUTOTRUST and event_arg("getProp", 0, 1) == False))
    # a receipt is sent from here only for a duplicate, and then it names this message (id, to, participant)
    ensures(implies(n_events("toLower") == 1, event_arg("toLower", 0).tag == "receipt"
                    and attr(event_arg("toLower", 0), "id") == attr(node, "id") and attr(event_arg("toLower", 0), "to") == attr(node, "from")))
    propagates("*")
