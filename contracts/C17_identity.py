"""C17 - contact identity keys are pinned.  The trust decision itself (trusted iff unknown or byte-equal to the pinned
key; the pin is replaced atomically and survives restarts) is LiteIdentityKeyStore.isTrustedIdentity / saveIdentity,
under contract in contracts/C13_store.py.  Here: what the manager and the receive layer DO with that decision."""
from pyvc.lang import *
from contracts.C13_store import *

MGR = "yowsup/axolotl/manager.py"
RECV = "yowsup/layers/axolotl/layer_receive.py"
LAYERS = "yowsup/layers/__init__.py"
BASE = "yowsup/layers/axolotl/layer_base.py"
R = "assumed contract of python-axolotl (read from the installed source: SessionBuilder.processPreKeyBundle checks " \
    "identityKeyStore.isTrustedIdentity first and raises UntrustedIdentityException(name, key) before storing anything)"

P_AUTOTRUST = "org.openwhatsapp.yowsup.prop.axolotl.INDENTITY_AUTOTRUST"
fields("AxolotlManager", _store=Opaque("store"), _username=Str)
fields("SessionBuilder", store=Opaque("store"), recipient=Opaque("name"))
extern("store.saveIdentity", event="store.saveIdentity", raises=True)
extern("store.storeSession", event="store.storeSession")
extern("bundle.getIdentityKey", event="bundle.getIdentityKey", returns=Opaque("identitykey"), pure=True)
event_sort("store.saveIdentity", "obj")


@spec(uninterpreted=True)
def trusted(store: Opaque, name: Opaque, key: Opaque) -> Bool:
    """identityKeyStore.isTrustedIdentity(name, key) at the time of the call"""
    return True


@contract("<ext>", "axolotl.sessionbuilder.SessionBuilder", assumed=True, reason=R)
def SessionBuilder(sessionStore: Opaque("store"), preKeyStore: Opaque("store"), signedPreKeyStore: Opaque("store"),
                   identityKeyStore: Opaque("store"), recepientId: Opaque("name"), deviceId: Int) -> Obj("SessionBuilder"):
    requires(deviceId == 1)        # WhatsApp addresses device 1 everywhere (session_exists, the session cipher): a session for another device id is never found again
    ensures(same_obj(result.store, identityKeyStore) and same_obj(result.recipient, recepientId))


@contract("<ext>", "SessionBuilder.processPreKeyBundle", assumed=True, reason=R)
def processPreKeyBundle(self: Obj("SessionBuilder"), preKey: Opaque("bundle")):
    raises(UntrustedIdentityException, when=not trusted(self.store, self.recipient, getter("bundle.getIdentityKey", preKey)),
           ensures=same_obj(exc_get("getName"), self.recipient) and same_obj(exc_get("getIdentityKey"), getter("bundle.getIdentityKey", preKey)))


@contract(MGR, "AxolotlManager.trust_identity")
def trust_identity(self: Obj("AxolotlManager"), recipientid: Opaque("name"), identitykey: Opaque("identitykey")):
    ensures(n_events("store.saveIdentity") == 1 and same_obj(event_arg("store.saveIdentity", 0, 1), recipientid)
            and same_obj(event_arg("store.saveIdentity", 0, 2), identitykey))
    propagates("store.saveIdentity")


@contract(MGR, "AxolotlManager.create_session")
def create_session(self: Obj("AxolotlManager"), username: Opaque("name"), prekeybundle: Opaque("bundle"), autotrust: Bool):
    # a bundle presenting an identity that is not the pinned one is REFUSED: the library's own exception is raised and the
    # pinned key is not touched ...
    raises(UntrustedIdentityException, when=not autotrust and not trusted(self._store, username, getter("bundle.getIdentityKey", prekeybundle)),
           ensures=n_events("store.saveIdentity") == 0 and same_obj(exc_arg(0), username)
           and same_obj(exc_arg(1), getter("bundle.getIdentityKey", prekeybundle)))
    # ... unless the application switched on automatic trust: then the new key replaces the pin (exactly one saveIdentity
    # of exactly that key for exactly that contact)
    ensures(implies(autotrust and not trusted(self._store, username, getter("bundle.getIdentityKey", prekeybundle)),
                    n_events("store.saveIdentity") == 1 and same_obj(event_arg("store.saveIdentity", 0, 1), username)
                    and same_obj(event_arg("store.saveIdentity", 0, 2), getter("bundle.getIdentityKey", prekeybundle))))
    ensures(implies(trusted(self._store, username, getter("bundle.getIdentityKey", prekeybundle)), n_events("store.saveIdentity") == 0))
    propagates("store.saveIdentity")


# =====================================================================================================================
# receive layer: what happens to an incoming encrypted message, per outcome of the decryption
# (also the C03 conjuncts: duplicate -> receipt only; undecryptable -> retry; no session -> park and fetch keys)
# =====================================================================================================================
PTN = "yowsup/structs/protocoltreenode.py"
PE = "yowsup/structs/protocolentity.py"
REC = "yowsup/layers/protocol_receipts/protocolentities/receipt.py"
RECO = "yowsup/layers/protocol_receipts/protocolentities/receipt_outgoing.py"
fields("ProtocolTreeNode", tag=Str, attributes=DictStrStr, children=Opaque("children"), data=Opt(Bytes), __file__=PTN)
inline(PTN, "ProtocolTreeNode.__init__")
inline(PTN, "ProtocolTreeNode.__getitem__")
inline(PTN, "ProtocolTreeNode.getAttributeValue")
inline(PTN, "ProtocolTreeNode.setAttribute")
inline(PE, "ProtocolEntity.__init__")
inline(PE, "ProtocolEntity.getTag")
inline(PE, "ProtocolEntity._createProtocolTreeNode")
inline(REC, "ReceiptProtocolEntity.__init__")
inline(REC, "ReceiptProtocolEntity.toProtocolTreeNode")
inline(RECO, "OutgoingReceiptProtocolEntity.__init__")
inline(RECO, "OutgoingReceiptProtocolEntity.setOutgoingData")
inline(RECO, "OutgoingReceiptProtocolEntity.toProtocolTreeNode")
inline(BASE, "AxolotlBaseLayer.manager")


@contract(PTN, "ProtocolTreeNode.getChild", assumed=True, pure=True, reason="first child with that tag, or None: a pure function of the node")
def getChild(self: Obj("ProtocolTreeNode"), identifier: Str) -> Opt(Obj("ProtocolTreeNode")):
    pass


fields("AxolotlReceivelayer", _manager=Opt(Opaque("manager")), v2Jids=ListObj, pendingIncomingMessages=DictObjObj, _retries=DictStrObj,
       iqRegistry=DictStrObj("callback"), handleMap=DictStrObj("handler"))
event_sort("toLower", "obj")
opaque(LAYERS, "YowLayer.toLower", event="toLower", raises=True)
opaque(LAYERS, "YowLayer.toUpper", event="toUpper", raises=True)
opaque(LAYERS, "YowLayer.getProp", event="getProp", returns=Value)
opaque("yowsup/layers/axolotl/protocolentities/message_encrypted.py", "EncryptedMessageProtocolEntity.fromProtocolTreeNode",
       event="enc.fromNode", returns=Opaque("encmsg"), raises=True)
extern("encmsg.getEnc", event="encmsg.getEnc", returns=Value("enc"))
extern("encmsg.getAuthor", event="encmsg.getAuthor", returns=Str)
opaque(RECV, "AxolotlReceivelayer.handlePreKeyWhisperMessage", event="decrypt", raises=True)
opaque(RECV, "AxolotlReceivelayer.handleWhisperMessage", event="decrypt", raises=True)
opaque(RECV, "AxolotlReceivelayer.handleSenderKeyMessage", event="decrypt", raises=True)
opaque(RECV, "AxolotlReceivelayer.send_retry", event="send_retry", raises=True)
opaque(RECV, "AxolotlReceivelayer.processPendingIncomingMessages", event="processPending", raises=True)
event_sort("processPending", "obj")
opaque(RECV, "AxolotlReceivelayer.reset_retries", event="reset_retries")
opaque(BASE, "AxolotlBaseLayer.getKeysFor", event="getKeysFor", raises=True)
extern("manager.trust_identity", event="manager.trust_identity", raises=True)
extern("manager.registration_id", event="manager.registration_id", returns=Int)


def dec_raised(cname):
    """the decrypt handler that ran last raised an exception of that class"""
    return n_events("decrypt") >= 1 and event_raised_class("decrypt", n_events("decrypt") - 1, cname)


@contract(RECV, "AxolotlReceivelayer.handleEncMessage", max_paths=6000)
def handleEncMessage(self: Obj("AxolotlReceivelayer"), node: Obj("ProtocolTreeNode")):
    requires(self._manager is not None and pure_child(node, "enc") is not None)
    requires(attr(node, "id") is not None and attr(node, "from") is not None)        # a message stanza carries id and from
    modifies(self.v2Jids, self.pendingIncomingMessages)
    partial("the auto-trust branch re-handles the message recursively; that the second attempt is trusted depends on python-axolotl")
    # whatever the decryption raises, the handler deals with it: nothing escapes except what a neighbouring layer raises
    ensures(n_events("toLower") <= 1 and n_events("send_retry") <= 1 and n_events("getKeysFor") <= 1)
    # the pinned key is only ever touched when the application switched on automatic trust
    ensures(implies(n_events("manager.trust_identity") >= 1, truthy(event_result("getProp", 0))))
    # ... and "switched on" means the stack property, with default OFF: an application that never set it gets the refusal
    ensures(implies(n_events("getProp") >= 1, event_arg("getProp", 0, 0) == P_AUTOTRUST and event_arg("getProp", 0, 1) == False))
    # ---- which decrypt handler runs: a pkmsg envelope -> the prekey handler, else a msg envelope -> the session handler; an skmsg
    # envelope (group payload) is handled AFTER that, in the same call; an envelope with none of them decrypts nothing
    ensures(implies(n_events("manager.trust_identity") == 0 and truthy(event_result("encmsg.getEnc", 0)),
                    n_events("decrypt") >= 1 and event_callee("decrypt", 0) == "AxolotlReceivelayer.handlePreKeyWhisperMessage"))
    ensures(implies(n_events("manager.trust_identity") == 0 and not truthy(event_result("encmsg.getEnc", 0)) and n_events("encmsg.getEnc") >= 2
                    and truthy(event_result("encmsg.getEnc", 1)),
                    n_events("decrypt") >= 1 and event_callee("decrypt", 0) == "AxolotlReceivelayer.handleWhisperMessage"))
    ensures(implies(n_events("manager.trust_identity") == 0 and n_events("decrypt") >= 1 and not event_raised("decrypt", 0)
                    and truthy(event_result("encmsg.getEnc", n_events("encmsg.getEnc") - 1))
                    and event_callee("decrypt", 0) != "AxolotlReceivelayer.handleSenderKeyMessage",
                    n_events("decrypt") == 2 and event_callee("decrypt", 1) == "AxolotlReceivelayer.handleSenderKeyMessage"))
    ensures(implies(n_events("manager.trust_identity") == 0 and n_events("decrypt") >= 1, same_obj(event_arg("decrypt", 0, 0), node)))
    ensures(implies(n_events("manager.trust_identity") == 0 and n_events("decrypt") >= 2, same_obj(event_arg("decrypt", 1, 0), node)))
    # ---- what each outcome of the decryption leads to (the class of the exception the decrypt handler raised decides) ----------------
    # decrypted: the retry counter of this message is reset, nothing is sent from here
    ensures(implies(n_events("decrypt") >= 1 and not event_raised("decrypt", n_events("decrypt") - 1) and n_events("manager.trust_identity") == 0,
                    n_events("reset_retries") == 1 and event_arg("reset_retries", 0, 0) == attr(node, "id")
                    and n_events("toLower") == 0 and n_events("send_retry") == 0 and n_events("getKeysFor") == 0))
    # a message the server delivered twice: acknowledged again (one receipt), not shown again, no retry, no key fetch
    ensures(implies(dec_raised("DuplicateMessageException") and n_events("manager.trust_identity") == 0,
                    n_events("toLower") == 1 and n_events("send_retry") == 0 and n_events("getKeysFor") == 0 and n_events("reset_retries") == 0))
    # undecryptable (invalid message, unknown prekey id): ONE retry request for THIS message with our registration id, nothing else
    ensures(implies((dec_raised("InvalidMessageException") or dec_raised("InvalidKeyIdException")) and n_events("manager.trust_identity") == 0,
                    n_events("send_retry") == 1 and same_obj(event_arg("send_retry", 0, 0), node)
                    and same_obj(event_arg("send_retry", 0, 1), field(self._manager, "registration_id"))
                    and n_events("toLower") == 0 and n_events("getKeysFor") == 0 and n_events("reset_retries") == 0))
    # no session with the sender: the message is parked and the SENDER's keys (the participant of a group message) are fetched, once
    ensures(implies(dec_raised("NoSessionException") and n_events("manager.trust_identity") == 0,
                    n_events("getKeysFor") == 1 and len(event_arg("getKeysFor", 0, 0)) == 1
                    and event_arg("getKeysFor", 0, 0)[0] == (attr(node, "participant") if attr(node, "participant") is not None else attr(node, "from"))
                    and n_events("toLower") == 0 and n_events("send_retry") == 0 and n_events("reset_retries") == 0))
    # ... and when the keys have arrived (a session could be made) the parked messages of THIS conversation are processed, once;
    # when they could not, nothing is processed (the message stays parked)
    ensures(implies(dec_raised("NoSessionException") and n_events("manager.trust_identity") == 0,
                    in_closure(event_arg("getKeysFor", 0, 1),
                               lambda successJids, b: n_events("processPending") == (1 if len(successJids) > 0 else 0)
                               and implies(len(successJids) > 0, event_arg("processPending", 0, 0) == attr(node, "from")
                                           and event_arg("processPending", 0, 1) == attr(node, "participant")),
                               argtypes=(ListObj("jid"), DictObjObj), stable=("attributes",))))      # (the stanza itself is not edited later)
    # an identity that is not the pinned one: refused and ignored (nothing sent, nothing fetched, the pin untouched) unless auto-trust is on;
    # with auto-trust the new key is pinned - the key and the name the library reported - before the message is handled again
    ensures(implies(dec_raised("UntrustedIdentityException") and not truthy(event_result("getProp", 0)),
                    n_events("manager.trust_identity") == 0 and n_events("toLower") == 0 and n_events("send_retry") == 0
                    and n_events("getKeysFor") == 0 and n_events("reset_retries") == 0))
    ensures(implies(n_events("decrypt") >= 1 and event_raised_class("decrypt", 0, "UntrustedIdentityException") and truthy(event_result("getProp", 0)),
                    n_events("manager.trust_identity") >= 1))
    # a receipt is sent from here only for a duplicate, and then it names this message (id, to, participant)
    ensures(implies(n_events("toLower") == 1, event_arg("toLower", 0).tag == "receipt"
                    and attr(event_arg("toLower", 0), "id") == attr(node, "id") and attr(event_arg("toLower", 0), "to") == attr(node, "from")))
    propagates("*")
