"""C06 - exactly-once routing.  Three layers of argument, all on the real code:
 1. dispatch: YowProtocolLayer.receive (C08) / send hand a stanza / entity to the handler registered for its tag, once;
 2. every handler of every protocol layer: under its guard exactly one entity goes up (the one its parser made of THIS stanza) /
    exactly one stanza goes down (the serialisation of THIS entity); outside its guard nothing happens - no second answer, no error;
 3. composition: the guards of all layers, as used in (2), are pairwise exclusive for EVERY stanza (nothing is duplicated by the
    parallel groups, whatever the module selection) and cover the supported kinds (lemmas at the end of this file).
The fan-out of the parallel layer itself (each sublayer exactly once) is C18; acknowledgements are C07."""
from pyvc.lang import *
from contracts.C07_acks import *

ACKS = "yowsup/layers/protocol_acks/layer.py"
RCPT = "yowsup/layers/protocol_receipts/layer.py"
CHAT = "yowsup/layers/protocol_chatstate/layer.py"
PRES = "yowsup/layers/protocol_presence/layer.py"
IB = "yowsup/layers/protocol_ib/layer.py"
PRIV = "yowsup/layers/protocol_privacy/layer.py"
CONT = "yowsup/layers/protocol_contacts/layer.py"
PROF = "yowsup/layers/protocol_profiles/layer.py"
GRP = "yowsup/layers/protocol_groups/layer.py"
MEDIA = "yowsup/layers/protocol_media/layer.py"

# every entity parser is an opaque event (C09 is about what they compute): the routing contracts say WHICH stanza is parsed,
# how often, and where the result goes
opaque("*", "*.fromProtocolTreeNode", event="entity.fromNode", returns=Opaque("entity"), raises=True)
extern("entity.getXmlns", event="entity.getXmlns", returns=Opt(Str), pure=True)
extern("entity.ack", event="entity.ack", returns=Opaque("entity"), raises=True)
inline(LAYERS, "YowProtocolLayer.entityToLower")


def up_once(node):
    """this stanza is parsed once, by one parser, and exactly that entity goes up; nothing goes down"""
    return n_events("toUpper") == 1 and n_events("entity.fromNode") == 1 and same_obj(event_arg("entity.fromNode", 0, 0), node) \
        and same_obj(event_arg("toUpper", 0), event_result("entity.fromNode", 0)) and n_events("toLower") == 0


def silent():
    return n_events("toUpper") == 0 and n_events("toLower") == 0 and n_events("entity.fromNode") == 0


def down_once(entity):
    """the serialisation of this entity goes down once; nothing goes up"""
    return n_events("toLower") == 1 and n_events("entity.toProtocolTreeNode") == 1 and same_obj(event_arg("entity.toProtocolTreeNode", 0, 0), entity) \
        and same_obj(event_arg("toLower", 0), event_result("entity.toProtocolTreeNode", 0)) and n_events("toUpper") == 0


def has(node, tag):
    return truthy(pure_child(node, tag))


# =====================================================================================================================
# 1. dispatch of outgoing entities (incoming: contracts/C08_iq.py YowProtocolLayer.receive)
# =====================================================================================================================
@contract(LAYERS, "YowProtocolLayer.send")
def proto_send(self: Obj("YowProtocolLayer"), entity: Opaque("entity")):
    ensures(implies(contains_key(self.handleMap, getter("entity.getTag", entity)) and truthy(proj(map_get(self.handleMap, getter("entity.getTag", entity)), 2, 1)),
                    n_events("call:handler") == 1 and same_obj(event_arg("call:handler", 0, 1), entity)
                    and same_obj(event_arg("call:handler", 0, 0), proj(map_get(self.handleMap, getter("entity.getTag", entity)), 2, 1))))
    ensures(implies(not contains_key(self.handleMap, getter("entity.getTag", entity)), n_events("call:handler") == 0))
    ensures(n_events("call:handler") <= 1 and n_events("toLower") == 0 and n_events("toUpper") == 0)
    ensures(map_eq(self.handleMap, old(self.handleMap)) and map_eq(self.iqRegistry, old(self.iqRegistry)))
    propagates("call:handler")


# =====================================================================================================================
# 2. handlers.  One stanza kind per layer: acks, receipts, chat states, presence
# =====================================================================================================================
fields("YowAckProtocolLayer")
fields("YowReceiptProtocolLayer")
fields("YowChatstateProtocolLayer")
fields("YowPresenceProtocolLayer", iqRegistry=DictStrObj("callback"))


@contract(ACKS, "YowAckProtocolLayer.recvAckNode")
def recvAckNode(self: Obj("YowAckProtocolLayer"), node: Obj("ProtocolTreeNode")):
    ensures(up_once(node))
    propagates("*")


@contract(ACKS, "YowAckProtocolLayer.sendAckEntity")
def sendAckEntity(self: Obj("YowAckProtocolLayer"), entity: Opaque("entity")):
    ensures(down_once(entity))
    propagates("*")


@contract(RCPT, "YowReceiptProtocolLayer.recvReceiptNode")
def recvReceiptNode(self: Obj("YowReceiptProtocolLayer"), node: Obj("ProtocolTreeNode")):
    ensures(up_once(node))
    propagates("*")


@contract(RCPT, "YowReceiptProtocolLayer.sendReceiptEntity")
def sendReceiptEntity(self: Obj("YowReceiptProtocolLayer"), entity: Opaque("entity")):
    ensures(down_once(entity))
    propagates("*")


@contract(CHAT, "YowChatstateProtocolLayer.recvChatstateNode")
def recvChatstateNode(self: Obj("YowChatstateProtocolLayer"), node: Obj("ProtocolTreeNode")):
    ensures(up_once(node))
    propagates("*")


@contract(CHAT, "YowChatstateProtocolLayer.sendChatstateEntity")
def sendChatstateEntity(self: Obj("YowChatstateProtocolLayer"), entity: Opaque("entity")):
    ensures(down_once(entity))
    propagates("*")


@contract(PRES, "YowPresenceProtocolLayer.recvPresence")
def recvPresence(self: Obj("YowPresenceProtocolLayer"), node: Obj("ProtocolTreeNode")):
    ensures(up_once(node))
    propagates("*")


@contract(PRES, "YowPresenceProtocolLayer.sendPresence")
def sendPresence(self: Obj("YowPresenceProtocolLayer"), entity: Opaque("entity")):
    ensures(down_once(entity))
    propagates("*")


# ---- iq requests: each namespace belongs to one layer; a request the layer owns goes down once (registered when a reply is
#      expected), anything else is not this layer's business ------------------------------------------------------------------
def iq_request_sent(self, entity):
    """handed to _sendIq (C08: registered under its id with both continuations, then its serialisation sent down once)"""
    return n_events("toLower") == 1 and n_events("toUpper") == 0 \
        and n_events("entity.toProtocolTreeNode") == 1 and same_obj(event_arg("entity.toProtocolTreeNode", 0, 0), entity) \
        and same_obj(event_arg("toLower", 0), event_result("entity.toProtocolTreeNode", 0)) \
        and contains_key(self.iqRegistry, getter("entity.getId", entity))


def iq_not_mine(self):
    return n_events("toLower") == 0 and n_events("toUpper") == 0 and map_eq(self.iqRegistry, old(self.iqRegistry))


def xmlns_is(entity, ns):
    return getter("entity.getXmlns", entity) is not None and getter("entity.getXmlns", entity) == ns


@contract(PRES, "YowPresenceProtocolLayer.sendIq")
def pres_sendIq(self: Obj("YowPresenceProtocolLayer"), entity: Opaque("entity")):
    modifies(self.iqRegistry)
    ensures(implies(xmlns_is(entity, "jabber:iq:last"), iq_request_sent(self, entity)))
    ensures(implies(not xmlns_is(entity, "jabber:iq:last"), iq_not_mine(self)))
    propagates("*")


@contract(PRES, "YowPresenceProtocolLayer.onLastSeenSuccess")
def onLastSeenSuccess(self: Obj("YowPresenceProtocolLayer"), protocolTreeNode: Obj("ProtocolTreeNode"), lastSeenEntity: Opaque("entity")):
    ensures(up_once(protocolTreeNode))
    propagates("*")


@contract(PRES, "YowPresenceProtocolLayer.onLastSeenError")
def onLastSeenError(self: Obj("YowPresenceProtocolLayer"), protocolTreeNode: Obj("ProtocolTreeNode"), lastSeenEntity: Opaque("entity")):
    ensures(up_once(protocolTreeNode))
    propagates("*")


fields("YowPrivacyProtocolLayer")


@contract(PRIV, "YowPrivacyProtocolLayer.sendIq")
def priv_sendIq(self: Obj("YowPrivacyProtocolLayer"), entity: Opaque("entity")):
    ensures(implies(xmlns_is(entity, "jabber:iq:privacy"), down_once(entity)))
    ensures(implies(not xmlns_is(entity, "jabber:iq:privacy"), silent()))
    propagates("*")


@contract(PRIV, "YowPrivacyProtocolLayer.recvIq")
def priv_recvIq(self: Obj("YowPrivacyProtocolLayer"), node: Obj("ProtocolTreeNode")):
    ensures(silent())


# ---- contacts ---------------------------------------------------------------------------------------------------------------
fields("YowContactsIqProtocolLayer")


def up_contacts_notification(node):
    return attr(node, "type") == "contacts" and (has(node, "remove") or has(node, "add") or has(node, "update") or has(node, "sync"))


@contract(CONT, "YowContactsIqProtocolLayer.recvNotification")
def cont_recvNotification(self: Obj("YowContactsIqProtocolLayer"), node: Obj("ProtocolTreeNode")):
    ensures(implies(up_contacts_notification(node), up_once(node)))
    ensures(implies(not up_contacts_notification(node), silent()))
    propagates("*")


def up_contacts_iq(node):
    return attr(node, "type") == "result" and has(node, "sync")


@contract(CONT, "YowContactsIqProtocolLayer.recvIq")
def cont_recvIq(self: Obj("YowContactsIqProtocolLayer"), node: Obj("ProtocolTreeNode")):
    ensures(implies(up_contacts_iq(node), up_once(node)))
    ensures(implies(not up_contacts_iq(node), silent()))
    propagates("*")


@contract(CONT, "YowContactsIqProtocolLayer.sendIq")
def cont_sendIq(self: Obj("YowContactsIqProtocolLayer"), entity: Opaque("entity")):
    ensures(implies(xmlns_is(entity, "urn:xmpp:whatsapp:sync"), down_once(entity)))
    ensures(implies(not xmlns_is(entity, "urn:xmpp:whatsapp:sync"), silent()))
    propagates("*")


# ---- ib ---------------------------------------------------------------------------------------------------------------------
fields("YowIbProtocolLayer")


def up_ib(node):
    return has(node, "dirty") or has(node, "offline") or has(node, "account")


@contract(IB, "YowIbProtocolLayer.recvIb")
def recvIb(self: Obj("YowIbProtocolLayer"), node: Obj("ProtocolTreeNode")):
    ensures(implies(up_ib(node), up_once(node)))
    ensures(implies(not up_ib(node), silent()))            # edge_routing / attestation / fbip / unknown: ignored, not an error
    propagates("*")


# ---- groups notifications ----------------------------------------------------------------------------------------------------
fields("YowGroupsProtocolLayer")


def up_groups_notification(node):
    return attr(node, "type") == "w:gp2" and (has(node, "subject") or has(node, "create") or has(node, "remove") or has(node, "add"))


@contract(GRP, "YowGroupsProtocolLayer.recvNotification")
def grp_recvNotification(self: Obj("YowGroupsProtocolLayer"), node: Obj("ProtocolTreeNode")):
    ensures(implies(up_groups_notification(node), up_once(node)))
    ensures(implies(not up_groups_notification(node), silent()))
    propagates("*")


# ---- media messages ------------------------------------------------------------------------------------------------------------
fields("YowMediaProtocolLayer", iqRegistry=DictStrObj("callback"))


def mediatype(node):
    return attr(pure_child(node, "proto"), "mediatype")


def known_mediatype(node):
    return mediatype(node) is not None and (
        mediatype(node) == "image" or mediatype(node) == "sticker" or mediatype(node) == "audio" or mediatype(node) == "ptt"
        or mediatype(node) == "video" or mediatype(node) == "gif" or mediatype(node) == "location" or mediatype(node) == "contact"
        or mediatype(node) == "document" or mediatype(node) == "url")


@contract(MEDIA, "YowMediaProtocolLayer.recvMessageStanza")
def media_recvMessageStanza(self: Obj("YowMediaProtocolLayer"), node: Obj("ProtocolTreeNode")):
    requires(implies(attr(node, "type") == "media", pure_child(node, "proto") is not None))     # a media message carries its payload
    ensures(implies(attr(node, "type") != "media", silent()))
    ensures(implies(attr(node, "type") == "media" and known_mediatype(node), up_once(node)))
    # a media type the library cannot present: one receipt instead of an entity (C07)
    ensures(implies(attr(node, "type") == "media" and not known_mediatype(node), n_events("toUpper") == 0 and n_events("toLower") == 1))
    # ... and that receipt is the (read) acknowledgement of the entity parsed from THIS stanza, serialised - nothing else
    ensures(implies(attr(node, "type") == "media" and not known_mediatype(node),
                    n_events("entity.fromNode") == 1 and same_obj(event_arg("entity.fromNode", 0, 0), node)
                    and n_events("entity.ack") == 1 and same_obj(event_arg("entity.ack", 0, 0), event_result("entity.fromNode", 0))
                    and event_arg("entity.ack", 0, 1) == True
                    and n_events("entity.toProtocolTreeNode") == 1 and same_obj(event_arg("entity.toProtocolTreeNode", 0, 0), event_result("entity.ack", 0))
                    and same_obj(event_arg("toLower", 0), event_result("entity.toProtocolTreeNode", 0))))
    propagates("*")


@contract(MEDIA, "YowMediaProtocolLayer.sendMessageEntity")
def media_sendMessageEntity(self: Obj("YowMediaProtocolLayer"), entity: Opaque("entity")):
    ensures(implies(getter("entity.getType", entity) == "media", down_once(entity)))
    ensures(implies(getter("entity.getType", entity) != "media", silent()))
    propagates("*")


@contract(MSG, "YowMessagesProtocolLayer.sendMessageEntity")
def msg_sendMessageEntity(self: Obj("YowMessagesProtocolLayer"), entity: Opaque("entity")):
    ensures(implies(getter("entity.getType", entity) == "text", down_once(entity)))
    ensures(implies(getter("entity.getType", entity) != "text", silent()))
    propagates("*")


@contract(MEDIA, "YowMediaProtocolLayer.sendIq")
def media_sendIq(self: Obj("YowMediaProtocolLayer"), entity: Opaque("entity")):
    modifies(self.iqRegistry)
    ensures(implies(getter("entity.getType", entity) == "set" and xmlns_is(entity, "w:m"), iq_request_sent(self, entity)))
    ensures(implies(not (getter("entity.getType", entity) == "set" and xmlns_is(entity, "w:m")), iq_not_mine(self)))
    propagates("*")


@contract(MEDIA, "YowMediaProtocolLayer.recvIq")
def media_recvIq(self: Obj("YowMediaProtocolLayer"), node: Obj("ProtocolTreeNode")):
    ensures(silent())


@contract(MEDIA, "YowMediaProtocolLayer.onRequestUploadSuccess")
def onRequestUploadSuccess(self: Obj("YowMediaProtocolLayer"), resultNode: Obj("ProtocolTreeNode"), requestUploadEntity: Opaque("entity")):
    ensures(up_once(resultNode))
    propagates("*")


@contract(MEDIA, "YowMediaProtocolLayer.onRequestUploadError")
def onRequestUploadError(self: Obj("YowMediaProtocolLayer"), errorNode: Obj("ProtocolTreeNode"), requestUploadEntity: Opaque("entity")):
    ensures(up_once(errorNode))
    propagates("*")


fields("YowIqProtocolLayer", iqRegistry=DictStrObj("callback"))


# ---- iq layer: requests it owns -------------------------------------------------------------------------------------------------
def iq_plain_ns(entity):
    return xmlns_is(entity, "urn:xmpp:whatsapp:push") or xmlns_is(entity, "w") or xmlns_is(entity, "urn:xmpp:whatsapp:account") or xmlns_is(entity, "encrypt")


@contract(IQL, "YowIqProtocolLayer.sendIq")
def iql_sendIq(self: Obj("YowIqProtocolLayer"), entity: Opaque("entity")):
    modifies(self.iqRegistry)
    ensures(implies(xmlns_is(entity, "w:p"), iq_request_sent(self, entity)))
    ensures(implies(not xmlns_is(entity, "w:p") and iq_plain_ns(entity), n_events("toLower") == 1 and n_events("toUpper") == 0
                    and same_obj(event_arg("toLower", 0), event_result("entity.toProtocolTreeNode", 0)) and map_eq(self.iqRegistry, old(self.iqRegistry))))
    ensures(implies(not xmlns_is(entity, "w:p") and not iq_plain_ns(entity), iq_not_mine(self)))
    propagates("*")


# ---- ib: the only request it owns is the "clean dirty" iq -------------------------------------------------------------------------
@contract(IB, "YowIbProtocolLayer.sendIb")
def sendIb(self: Obj("YowIbProtocolLayer"), entity: Opaque("entity")):
    ensures(implies(class_is(entity, "CleanIqProtocolEntity"), down_once(entity)))
    ensures(implies(not class_is(entity, "CleanIqProtocolEntity"), silent()))
    propagates("*")


# ---- profiles ------------------------------------------------------------------------------------------------------------------------
fields("YowProfilesProtocolLayer", iqRegistry=DictStrObj("callback"))


def profiles_owns(entity):
    return (xmlns_is(entity, "w:profile:picture") and (getter("entity.getType", entity) == "get" or getter("entity.getType", entity) == "set"
                                                        or getter("entity.getType", entity) == "delete")) \
        or (not xmlns_is(entity, "w:profile:picture") and (xmlns_is(entity, "privacy") or inst_of(entity, "GetStatusesIqProtocolEntity")
                                                           or inst_of(entity, "SetStatusIqProtocolEntity")))


@contract(PROF, "YowProfilesProtocolLayer.sendIq")
def prof_sendIq(self: Obj("YowProfilesProtocolLayer"), entity: Opaque("entity")):
    modifies(self.iqRegistry)
    ensures(implies(profiles_owns(entity), iq_request_sent(self, entity)))
    ensures(implies(not profiles_owns(entity), iq_not_mine(self)))
    propagates("*")


@contract(PROF, "YowProfilesProtocolLayer.recvIq")
def prof_recvIq(self: Obj("YowProfilesProtocolLayer"), node: Obj("ProtocolTreeNode")):
    ensures(silent())


# ---- groups requests -----------------------------------------------------------------------------------------------------------------
fields("YowGroupsProtocolLayer", iqRegistry=DictStrObj("callback"))


def groups_owns(entity):
    return class_is(entity, "CreateGroupsIqProtocolEntity") or class_is(entity, "InfoGroupsIqProtocolEntity") \
        or class_is(entity, "LeaveGroupsIqProtocolEntity") or class_is(entity, "ListGroupsIqProtocolEntity") \
        or class_is(entity, "SubjectGroupsIqProtocolEntity") or class_is(entity, "ParticipantsGroupsIqProtocolEntity") \
        or class_is(entity, "AddParticipantsIqProtocolEntity") or class_is(entity, "PromoteParticipantsIqProtocolEntity") \
        or class_is(entity, "DemoteParticipantsIqProtocolEntity") or class_is(entity, "RemoveParticipantsIqProtocolEntity")


@contract(GRP, "YowGroupsProtocolLayer.sendIq")
def grp_sendIq(self: Obj("YowGroupsProtocolLayer"), entity: Opaque("entity")):
    modifies(self.iqRegistry)
    ensures(implies(groups_owns(entity), iq_request_sent(self, entity)))
    ensures(implies(not groups_owns(entity), iq_not_mine(self)))
    propagates("*")


# ---- reply continuations of YowProfilesProtocolLayer: the reply is parsed once and exactly that entity goes up -----------------

@contract(PROF, "YowProfilesProtocolLayer.onPrivacyResult")
def prof_onPrivacyResult(self: Obj("YowProfilesProtocolLayer"), resultNode: Obj("ProtocolTreeNode"), originIqRequestEntity: Opaque("entity")):
    ensures(up_once(resultNode))
    propagates("*")


@contract(PROF, "YowProfilesProtocolLayer.onPrivacyError")
def prof_onPrivacyError(self: Obj("YowProfilesProtocolLayer"), errorNode: Obj("ProtocolTreeNode"), originalIqRequestEntity: Opaque("entity")):
    ensures(up_once(errorNode))
    propagates("*")


@contract(PROF, "YowProfilesProtocolLayer.onGetStatusesResult")
def prof_onGetStatusesResult(self: Obj("YowProfilesProtocolLayer"), resultNode: Obj("ProtocolTreeNode"), originIqRequestEntity: Opaque("entity")):
    ensures(up_once(resultNode))
    propagates("*")


@contract(PROF, "YowProfilesProtocolLayer.onGetStatusesError")
def prof_onGetStatusesError(self: Obj("YowProfilesProtocolLayer"), errorNode: Obj("ProtocolTreeNode"), originalIqRequestEntity: Opaque("entity")):
    ensures(up_once(errorNode))
    propagates("*")


@contract(PROF, "YowProfilesProtocolLayer.onSetStatusResult")
def prof_onSetStatusResult(self: Obj("YowProfilesProtocolLayer"), resultNode: Obj("ProtocolTreeNode"), originIqRequestEntity: Opaque("entity")):
    ensures(up_once(resultNode))
    propagates("*")


@contract(PROF, "YowProfilesProtocolLayer.onSetStatusError")
def prof_onSetStatusError(self: Obj("YowProfilesProtocolLayer"), errorNode: Obj("ProtocolTreeNode"), originalIqRequestEntity: Opaque("entity")):
    ensures(up_once(errorNode))
    propagates("*")


@contract(PROF, "YowProfilesProtocolLayer.onGetPictureResult")
def prof_onGetPictureResult(self: Obj("YowProfilesProtocolLayer"), resultNode: Obj("ProtocolTreeNode"), originalIqRequestEntity: Opaque("entity")):
    ensures(up_once(resultNode))
    propagates("*")


@contract(PROF, "YowProfilesProtocolLayer.onGetPictureError")
def prof_onGetPictureError(self: Obj("YowProfilesProtocolLayer"), errorNode: Obj("ProtocolTreeNode"), originalIqRequestEntity: Opaque("entity")):
    ensures(up_once(errorNode))
    propagates("*")


@contract(PROF, "YowProfilesProtocolLayer.onSetPictureResult")
def prof_onSetPictureResult(self: Obj("YowProfilesProtocolLayer"), resultNode: Obj("ProtocolTreeNode"), originalIqRequestEntity: Opaque("entity")):
    ensures(up_once(resultNode))
    propagates("*")


@contract(PROF, "YowProfilesProtocolLayer.onSetPictureError")
def prof_onSetPictureError(self: Obj("YowProfilesProtocolLayer"), errorNode: Obj("ProtocolTreeNode"), originalIqRequestEntity: Opaque("entity")):
    ensures(up_once(errorNode))
    propagates("*")


@contract(PROF, "YowProfilesProtocolLayer.onDeletePictureResult")
def prof_onDeletePictureResult(self: Obj("YowProfilesProtocolLayer"), resultNode: Obj("ProtocolTreeNode"), originalIqRequestEntity: Opaque("entity")):
    ensures(up_once(resultNode))
    propagates("*")


@contract(PROF, "YowProfilesProtocolLayer.onDeletePictureError")
def prof_onDeletePictureError(self: Obj("YowProfilesProtocolLayer"), errorNode: Obj("ProtocolTreeNode"), originalIqRequestEntity: Opaque("entity")):
    ensures(up_once(errorNode))
    propagates("*")




# ---- reply continuations of YowGroupsProtocolLayer: the reply is parsed once and exactly that entity goes up -----------------

@contract(GRP, "YowGroupsProtocolLayer.onCreateGroupSuccess")
def grp_onCreateGroupSuccess(self: Obj("YowGroupsProtocolLayer"), node: Obj("ProtocolTreeNode"), originalIqEntity: Opaque("entity")):
    ensures(up_once(node))
    propagates("*")


@contract(GRP, "YowGroupsProtocolLayer.onCreateGroupFailed")
def grp_onCreateGroupFailed(self: Obj("YowGroupsProtocolLayer"), node: Obj("ProtocolTreeNode"), originalIqEntity: Opaque("entity")):
    ensures(up_once(node))
    propagates("*")


@contract(GRP, "YowGroupsProtocolLayer.onSetSubjectSuccess")
def grp_onSetSubjectSuccess(self: Obj("YowGroupsProtocolLayer"), node: Obj("ProtocolTreeNode"), originalIqEntity: Opaque("entity")):
    ensures(up_once(node))
    propagates("*")


@contract(GRP, "YowGroupsProtocolLayer.onSetSubjectFailed")
def grp_onSetSubjectFailed(self: Obj("YowGroupsProtocolLayer"), node: Obj("ProtocolTreeNode"), originalIqEntity: Opaque("entity")):
    ensures(up_once(node))
    propagates("*")


@contract(GRP, "YowGroupsProtocolLayer.onGetParticipantsResult")
def grp_onGetParticipantsResult(self: Obj("YowGroupsProtocolLayer"), node: Obj("ProtocolTreeNode"), originalIqEntity: Opaque("entity")):
    ensures(up_once(node))
    propagates("*")


@contract(GRP, "YowGroupsProtocolLayer.onAddParticipantsSuccess")
def grp_onAddParticipantsSuccess(self: Obj("YowGroupsProtocolLayer"), node: Obj("ProtocolTreeNode"), originalIqEntity: Opaque("entity")):
    ensures(up_once(node))
    propagates("*")


@contract(GRP, "YowGroupsProtocolLayer.onRemoveParticipantsFailed")
def grp_onRemoveParticipantsFailed(self: Obj("YowGroupsProtocolLayer"), node: Obj("ProtocolTreeNode"), originalIqEntity: Opaque("entity")):
    ensures(up_once(node))
    propagates("*")


@contract(GRP, "YowGroupsProtocolLayer.onRemoveParticipantsSuccess")
def grp_onRemoveParticipantsSuccess(self: Obj("YowGroupsProtocolLayer"), node: Obj("ProtocolTreeNode"), originalIqEntity: Opaque("entity")):
    ensures(up_once(node))
    propagates("*")


@contract(GRP, "YowGroupsProtocolLayer.onPromoteParticipantsFailed")
def grp_onPromoteParticipantsFailed(self: Obj("YowGroupsProtocolLayer"), node: Obj("ProtocolTreeNode"), originalIqEntity: Opaque("entity")):
    ensures(up_once(node))
    propagates("*")


@contract(GRP, "YowGroupsProtocolLayer.onPromoteParticipantsSuccess")
def grp_onPromoteParticipantsSuccess(self: Obj("YowGroupsProtocolLayer"), node: Obj("ProtocolTreeNode"), originalIqEntity: Opaque("entity")):
    ensures(up_once(node))
    propagates("*")


@contract(GRP, "YowGroupsProtocolLayer.onDemoteParticipantsFailed")
def grp_onDemoteParticipantsFailed(self: Obj("YowGroupsProtocolLayer"), node: Obj("ProtocolTreeNode"), originalIqEntity: Opaque("entity")):
    ensures(up_once(node))
    propagates("*")


@contract(GRP, "YowGroupsProtocolLayer.onDemoteParticipantsSuccess")
def grp_onDemoteParticipantsSuccess(self: Obj("YowGroupsProtocolLayer"), node: Obj("ProtocolTreeNode"), originalIqEntity: Opaque("entity")):
    ensures(up_once(node))
    propagates("*")


@contract(GRP, "YowGroupsProtocolLayer.onAddParticipantsFailed")
def grp_onAddParticipantsFailed(self: Obj("YowGroupsProtocolLayer"), node: Obj("ProtocolTreeNode"), originalIqEntity: Opaque("entity")):
    ensures(up_once(node))
    propagates("*")


@contract(GRP, "YowGroupsProtocolLayer.onListGroupsResult")
def grp_onListGroupsResult(self: Obj("YowGroupsProtocolLayer"), node: Obj("ProtocolTreeNode"), originalIqEntity: Opaque("entity")):
    ensures(up_once(node))
    propagates("*")


@contract(GRP, "YowGroupsProtocolLayer.onLeaveGroupSuccess")
def grp_onLeaveGroupSuccess(self: Obj("YowGroupsProtocolLayer"), node: Obj("ProtocolTreeNode"), originalIqEntity: Opaque("entity")):
    ensures(up_once(node))
    propagates("*")


@contract(GRP, "YowGroupsProtocolLayer.onLeaveGroupFailed")
def grp_onLeaveGroupFailed(self: Obj("YowGroupsProtocolLayer"), node: Obj("ProtocolTreeNode"), originalIqEntity: Opaque("entity")):
    ensures(up_once(node))
    propagates("*")


@contract(GRP, "YowGroupsProtocolLayer.onInfoGroupSuccess")
def grp_onInfoGroupSuccess(self: Obj("YowGroupsProtocolLayer"), node: Obj("ProtocolTreeNode"), originalIqEntity: Opaque("entity")):
    ensures(up_once(node))
    propagates("*")


@contract(GRP, "YowGroupsProtocolLayer.onInfoGroupFailed")
def grp_onInfoGroupFailed(self: Obj("YowGroupsProtocolLayer"), node: Obj("ProtocolTreeNode"), originalIqEntity: Opaque("entity")):
    ensures(up_once(node))
    propagates("*")



# =====================================================================================================================
# 3. composition over the parallel protocol layers, incoming direction.  up_<layer>(n) is the guard under which that layer's
#    receive path sends exactly one entity up for stanza n: the tag its handleMap registers (dispatch, C08) and the guard of the
#    handler contract above (the SAME helper predicates).  Outside its guard a layer sends nothing up.
# =====================================================================================================================
def up_acks(n):
    return n.tag == "ack"


def up_receipts(n):
    return n.tag == "receipt"


def up_chatstate(n):
    return n.tag == "chatstate"


def up_presence(n):
    return n.tag == "presence"


def up_calls(n):
    return n.tag == "call"


def up_iblayer(n):
    return n.tag == "ib" and up_ib(n)


def up_contacts(n):
    return (n.tag == "notification" and up_contacts_notification(n)) or (n.tag == "iq" and up_contacts_iq(n))


def up_notifications(n):
    return n.tag == "notification" and notif_up(n)          # the guard of C07's recvNotification contract


def up_groups(n):
    return n.tag == "notification" and up_groups_notification(n)


def up_media(n):
    return n.tag == "message" and attr(n, "type") == "media" and pure_child(n, "proto") is not None and known_mediatype(n)


def may_up_messages(n):
    """the messages layer sends at most one entity up, and only for a payload without media type"""
    return n.tag == "message" and pure_child(n, "proto") is not None and attr(pure_child(n, "proto"), "mediatype") is None


def up_auth(n):
    """login stanzas (handlers under contract in C16): features / success / failure always surface"""
    return n.tag == "stream:features" or n.tag == "success" or n.tag == "failure"


def may_up_auth(n):
    return n.tag == "stream:error"          # surfaces unless it carries no error type (then NotImplementedError, C16)


def one(b):
    return 1 if b else 0


def ups_exact(n, groups, media):
    """number of entities that certainly reach the application for stanza n in a stack with / without the optional modules"""
    return one(up_acks(n)) + one(up_receipts(n)) + one(up_chatstate(n)) + one(up_presence(n)) + one(up_calls(n)) + one(up_iblayer(n)) \
        + one(up_contacts(n)) + one(up_notifications(n)) + one(up_auth(n)) + one(groups and up_groups(n)) + one(media and up_media(n))


def ups_may(n):
    """layers that send at most one entity up, depending on the payload (decided inside the handler, see its contract)"""
    return one(may_up_messages(n)) + one(may_up_auth(n))


def ups(n, groups, media):
    return ups_exact(n, groups, media) + ups_may(n)


@lemma
def incoming_never_duplicated(n: Obj("ProtocolTreeNode"), groups: Bool, media: Bool):
    # for EVERY stanza and every module selection at most one layer of the parallel group sends an entity up
    ensures(ups(n, groups, media) <= 1)


@lemma
def incoming_supported_kinds_once(n: Obj("ProtocolTreeNode"), groups: Bool, media: Bool):
    ensures(implies(n.tag == "ack" or n.tag == "receipt" or n.tag == "chatstate" or n.tag == "presence" or n.tag == "call" or up_auth(n),
                    ups_exact(n, groups, media) == 1 and ups_may(n) == 0))
    ensures(implies(up_iblayer(n) or up_contacts(n) or up_notifications(n), ups_exact(n, groups, media) == 1 and ups_may(n) == 0))
    ensures(implies(up_groups(n), ups_exact(n, groups, media) == one(groups) and ups_may(n) == 0))       # a kind of a left-out module: nothing, not an error
    ensures(implies(up_media(n), ups_exact(n, groups, media) == one(media) and ups_may(n) == 0))
    ensures(implies(may_up_messages(n) or may_up_auth(n), ups_exact(n, groups, media) == 0 and ups_may(n) == 1))


# =====================================================================================================================
# outgoing direction
# =====================================================================================================================
@contract(NOTIF, "YowNotificationsProtocolLayer.sendNotification")
def sendNotification(self: Obj("YowNotificationsProtocolLayer"), entity: Opaque("entity")):
    ensures(implies(getter("entity.getTag", entity) == "notification", down_once(entity)))
    ensures(implies(getter("entity.getTag", entity) != "notification", silent()))
    propagates("*")


@contract(CALLS, "YowCallsProtocolLayer.sendCall")
def sendCall(self: Obj("YowCallsProtocolLayer"), entity: Opaque("entity")):
    ensures(implies(getter("entity.getTag", entity) == "call", down_once(entity)))
    ensures(implies(getter("entity.getTag", entity) != "call", silent()))
    propagates("*")


def tag_is(e, t):
    return getter("entity.getTag", e) == t


def type_is(e, t):
    return getter("entity.getType", e) == t


@lemma(assumed=True, reason="facts about the entity classes the send guards test by class: their namespace (validated natively for every such class "
                            "by bounded/routing_check.py, section class-facts)")
def entity_class_facts(e: Opaque("entity")):
    ensures(implies(class_is(e, "CleanIqProtocolEntity"), xmlns_is(e, "urn:xmpp:whatsapp:dirty")))
    ensures(implies(groups_owns(e), xmlns_is(e, "w:g2")))
    ensures(implies(inst_of(e, "GetStatusesIqProtocolEntity") or inst_of(e, "SetStatusIqProtocolEntity"), xmlns_is(e, "status")))


def downs(e, groups, media, privacy, profiles):
    """number of stanzas that leave the protocol layers for outgoing entity e"""
    return one(tag_is(e, "ack")) + one(tag_is(e, "receipt")) + one(tag_is(e, "chatstate")) + one(tag_is(e, "presence")) \
        + one(tag_is(e, "notification")) + one(tag_is(e, "call")) + one(tag_is(e, "message") and type_is(e, "text")) \
        + one(media and tag_is(e, "message") and type_is(e, "media")) \
        + one(tag_is(e, "iq") and xmlns_is(e, "jabber:iq:last")) + one(tag_is(e, "iq") and class_is(e, "CleanIqProtocolEntity")) \
        + one(tag_is(e, "ib") and class_is(e, "CleanIqProtocolEntity")) \
        + one(privacy and tag_is(e, "iq") and xmlns_is(e, "jabber:iq:privacy")) + one(tag_is(e, "iq") and xmlns_is(e, "urn:xmpp:whatsapp:sync")) \
        + one(profiles and tag_is(e, "iq") and profiles_owns(e)) + one(groups and tag_is(e, "iq") and groups_owns(e)) \
        + one(media and tag_is(e, "iq") and type_is(e, "set") and xmlns_is(e, "w:m")) \
        + one(tag_is(e, "iq") and (xmlns_is(e, "w:p") or iq_plain_ns(e)))


@lemma
def outgoing_never_duplicated(e: Opaque("entity"), groups: Bool, media: Bool, privacy: Bool, profiles: Bool):
    use(entity_class_facts(e))
    ensures(downs(e, groups, media, privacy, profiles) <= 1)


@lemma
def outgoing_supported_kinds_once(e: Opaque("entity"), groups: Bool, media: Bool, privacy: Bool, profiles: Bool):
    use(entity_class_facts(e))
    ensures(implies(tag_is(e, "ack") or tag_is(e, "receipt") or tag_is(e, "chatstate") or tag_is(e, "presence") or tag_is(e, "call")
                    or tag_is(e, "notification"), downs(e, groups, media, privacy, profiles) == 1))
    ensures(implies(tag_is(e, "message") and type_is(e, "text"), downs(e, groups, media, privacy, profiles) == 1))
    ensures(implies(tag_is(e, "message") and type_is(e, "media"), downs(e, groups, media, privacy, profiles) == one(media)))
    ensures(implies(tag_is(e, "iq") and groups_owns(e), downs(e, groups, media, privacy, profiles) == one(groups)))
    ensures(implies(tag_is(e, "iq") and profiles_owns(e), downs(e, groups, media, privacy, profiles) == one(profiles)))
    ensures(implies(tag_is(e, "iq") and xmlns_is(e, "jabber:iq:privacy"), downs(e, groups, media, privacy, profiles) == one(privacy)))
    ensures(implies(tag_is(e, "iq") and (xmlns_is(e, "jabber:iq:last") or xmlns_is(e, "urn:xmpp:whatsapp:sync") or xmlns_is(e, "w:p") or iq_plain_ns(e)
                                        or class_is(e, "CleanIqProtocolEntity")), downs(e, groups, media, privacy, profiles) == 1))
