"""C07 - mandatory acknowledgements are sent exactly once and match the stanza.
Contracts on the handlers that must answer, with the REAL entity classes of the ack / receipt / pong path executed
symbolically (constructors, inheritance, setAttribute, dict literals): the stanza that goes down is compared with the
stanza the statement asks for."""
from pyvc.lang import *
from contracts.C08_iq import *

LAYERS = "yowsup/layers/__init__.py"
PTN = "yowsup/structs/protocoltreenode.py"
PE = "yowsup/structs/protocolentity.py"
NOTIF = "yowsup/layers/protocol_notifications/layer.py"
CALLS = "yowsup/layers/protocol_calls/layer.py"
IQL = "yowsup/layers/protocol_iq/layer.py"
ACK = "yowsup/layers/protocol_acks/protocolentities/ack.py"
ACKO = "yowsup/layers/protocol_acks/protocolentities/ack_outgoing.py"
REC = "yowsup/layers/protocol_receipts/protocolentities/receipt.py"
RECO = "yowsup/layers/protocol_receipts/protocolentities/receipt_outgoing.py"
IQE = "yowsup/layers/protocol_iq/protocolentities/iq.py"
IQR = "yowsup/layers/protocol_iq/protocolentities/iq_result.py"
IQP = "yowsup/layers/protocol_iq/protocolentities/iq_result_pong.py"

fields("ProtocolTreeNode", tag=Str, attributes=DictStrStr, children=Opaque("children"), data=Opt(Bytes), __file__=PTN)

inline(PTN, "ProtocolTreeNode.__init__")
inline(PTN, "ProtocolTreeNode.__getitem__")
inline(PTN, "ProtocolTreeNode.getAttributeValue")
inline(PTN, "ProtocolTreeNode.setAttribute")
inline(PTN, "ProtocolTreeNode.addChild")
inline(PE, "ProtocolEntity.__init__")
inline(PE, "ProtocolEntity.getTag")
inline(PE, "ProtocolEntity._createProtocolTreeNode")
inline(ACK, "AckProtocolEntity.__init__")
inline(ACK, "AckProtocolEntity.toProtocolTreeNode")
inline(ACKO, "OutgoingAckProtocolEntity.__init__")
inline(ACKO, "OutgoingAckProtocolEntity.setOutgoingData")
inline(ACKO, "OutgoingAckProtocolEntity.toProtocolTreeNode")
inline(REC, "ReceiptProtocolEntity.__init__")
inline(REC, "ReceiptProtocolEntity.toProtocolTreeNode")
inline(RECO, "OutgoingReceiptProtocolEntity.__init__")
inline(RECO, "OutgoingReceiptProtocolEntity.setOutgoingData")
inline(RECO, "OutgoingReceiptProtocolEntity.toProtocolTreeNode")
inline(IQE, "IqProtocolEntity.__init__")
inline(IQE, "IqProtocolEntity.toProtocolTreeNode")
inline(IQR, "ResultIqProtocolEntity.__init__")
inline(IQP, "PongResultIqProtocolEntity.__init__")

event_sort("toLower", "obj")
event_sort("toUpper", "obj")
opaque(LAYERS, "YowLayer.toLower", event="toLower", raises=True)
opaque(LAYERS, "YowLayer.toUpper", event="toUpper", raises=True)
inline(LAYERS, "YowProtocolLayer.raiseErrorForNode")


@contract(PTN, "ProtocolTreeNode.getChild", assumed=True, pure=True,
          reason="first child with that tag, or None: a pure function of the node (its loop over the children is not verified here)")
def getChild(self: Obj("ProtocolTreeNode"), identifier: Str) -> Opt(Obj("ProtocolTreeNode")):
    pass


# ---- the stanzas the statement asks for -------------------------------------------------------------------------------
def same_attr(a, n, ka, kn):
    """attribute ka of the answer equals attribute kn of the incoming stanza (both may be absent)"""
    return attr(a, ka) == attr(n, kn)


def is_ack_for(a, n, cls):
    """<ack class=cls id=n.id to=n.from [type=n.type] [participant=n.participant]/>: id, type, sender, participant"""
    return a.tag == "ack" and attr(a, "class") == cls and same_attr(a, n, "id", "id") and same_attr(a, n, "to", "from") \
        and implies(truthy(attr(n, "type")), same_attr(a, n, "type", "type")) \
        and implies(truthy(attr(n, "participant")), same_attr(a, n, "participant", "participant"))


# =====================================================================================================================
# notifications: every notification, recognised or not, is acked exactly once
# =====================================================================================================================
fields("YowNotificationsProtocolLayer")
opaque("yowsup/layers/protocol_notifications/protocolentities/notification_picture_set.py", "SetPictureNotificationProtocolEntity.fromProtocolTreeNode",
       event="entity.fromNode", returns=Opaque("entity"), raises=True)
opaque("yowsup/layers/protocol_notifications/protocolentities/notification_picture_delete.py", "DeletePictureNotificationProtocolEntity.fromProtocolTreeNode",
       event="entity.fromNode", returns=Opaque("entity"), raises=True)
opaque("yowsup/layers/protocol_notifications/protocolentities/notification_status.py", "StatusNotificationProtocolEntity.fromProtocolTreeNode",
       event="entity.fromNode", returns=Opaque("entity"), raises=True)


def notif_up(node):
    return (attr(node, "type") == "picture" and (truthy(pure_child(node, "set")) or truthy(pure_child(node, "delete")))) or attr(node, "type") == "status"


@contract(NOTIF, "YowNotificationsProtocolLayer.recvNotification")
def recvNotification(self: Obj("YowNotificationsProtocolLayer"), node: Obj("ProtocolTreeNode")):
    raises(ValueError, ensures=n_events("toLower") == 0 and attr(node, "type") == "picture")
    ensures(n_events("toLower") == 1 and is_ack_for(event_arg("toLower", 0), node, "notification"))
    # picture (set / delete) and status notifications are also handed to the application, once
    ensures(n_events("toUpper") <= 1)
    ensures(implies(attr(node, "type") == "status", n_events("toUpper") == 1 and same_obj(event_arg("toUpper", 0), event_result("entity.fromNode", 0))))
    ensures(implies(not (attr(node, "type") == "picture" or attr(node, "type") == "status"), n_events("toUpper") == 0))
    # exactly the picture (set / delete) and status notifications surface here (C06 composes this guard with the other layers')
    ensures(n_events("toUpper") == (1 if notif_up(node) else 0))
    propagates("toUpper")
    propagates("toLower")
    propagates("entity.fromNode")


# =====================================================================================================================
# calls: an offer is answered with one receipt naming the call id, every other call stanza with one ack
# =====================================================================================================================
fields("YowCallsProtocolLayer")
opaque("yowsup/layers/protocol_calls/protocolentities/call.py", "CallProtocolEntity.fromProtocolTreeNode", event="call.fromNode",
       returns=Opaque("callentity"), raises=True)
extern("callentity.getType", event="callentity.getType", returns=Opt(Str), pure=True)
extern("callentity.getCallId", event="callentity.getCallId", returns=Opt(Str), pure=True)


def is_call_receipt(a, n, callid):
    """<receipt id=n.id to=n.from><offer call-id=callid/></receipt>"""
    return a.tag == "receipt" and same_attr(a, n, "id", "id") and same_attr(a, n, "to", "from") \
        and implies(truthy(callid), n_children(a) == 1 and child(a, 0).tag == "offer" and attr(child(a, 0), "call-id") == callid)


@contract(CALLS, "YowCallsProtocolLayer.recvCall")
def recvCall(self: Obj("YowCallsProtocolLayer"), node: Obj("ProtocolTreeNode")):
    ensures(n_events("toLower") == 1 and n_events("toUpper") == 1 and same_obj(event_arg("toUpper", 0), event_result("call.fromNode", 0)))
    ensures(implies(getter("callentity.getType", event_result("call.fromNode", 0)) == "offer",
                    is_call_receipt(event_arg("toLower", 0), node, getter("callentity.getCallId", event_result("call.fromNode", 0)))))
    ensures(implies(getter("callentity.getType", event_result("call.fromNode", 0)) != "offer",
                    event_arg("toLower", 0).tag == "ack" and attr(event_arg("toLower", 0), "class") == "call"
                    and same_attr(event_arg("toLower", 0), node, "id", "id") and same_attr(event_arg("toLower", 0), node, "to", "from")
                    and attr(event_arg("toLower", 0), "type") is None))
    propagates("call.fromNode")
    propagates("toLower")
    propagates("toUpper")


# =====================================================================================================================
# server ping -> one pong with the same id
# =====================================================================================================================
fields("YowIqProtocolLayer")
opaque(PE, "ProtocolEntity._generateId", event="generateId", returns=Str)


@contract(IQL, "YowIqProtocolLayer.recvIq")
def recvIq(self: Obj("YowIqProtocolLayer"), node: Obj("ProtocolTreeNode")):
    modifies(ProtocolEntity._ProtocolEntity__ID_GEN)      # a ping without id is answered under a freshly generated one (process-wide counter)
    ensures(n_events("toLower") == (1 if attr(node, "xmlns") == "urn:xmpp:ping" else 0) and n_events("toUpper") == 0)
    ensures(implies(attr(node, "xmlns") == "urn:xmpp:ping",
                    event_arg("toLower", 0).tag == "iq"
                    and implies(attr(node, "id") is not None, same_attr(event_arg("toLower", 0), node, "id", "id"))
                    and attr(event_arg("toLower", 0), "type") == "result" and attr(event_arg("toLower", 0), "xmlns") == "w:p"
                    and attr(event_arg("toLower", 0), "to") == "s.whatsapp.net"))
    # a ping without an id cannot be answered with "the same id": the entity generates one (stated, not hidden)
    propagates("toLower")


# =====================================================================================================================
# encrypt notifications are acked and consumed below the protocol layers (AxolotlControlLayer)
# =====================================================================================================================
CTRL = "yowsup/layers/axolotl/layer_control.py"
BASE = "yowsup/layers/axolotl/layer_base.py"
fields("AxolotlControlLayer", _manager=Opt(Opaque("manager")), iqRegistry=DictStrObj("callback"), handleMap=DictStrObj("handler"),
       _unsent_prekeys=ListObj, _reboot_connection=Bool)
inline(BASE, "AxolotlBaseLayer.manager")
opaque("yowsup/layers/axolotl/protocolentities/notification_encrypt_requestkeys.py", "RequestKeysEncryptNotification.fromProtocolTreeNode",
       event="entity.fromNode", returns=Opaque("encentity"), raises=True)
opaque("yowsup/layers/axolotl/protocolentities/notification_encrypt_identitychange.py", "IdentityChangeEncryptNotification.fromProtocolTreeNode",
       event="entity.fromNode", returns=Opaque("encentity"), raises=True)
opaque(CTRL, "AxolotlControlLayer.flush_keys", event="flush_keys", raises=True)
opaque(BASE, "AxolotlBaseLayer.getKeysFor", event="getKeysFor", raises=True)
extern("manager.generate_signed_prekey", event="manager.generate_signed_prekey", returns=Opaque("signedprekey"), raises=True)
extern("manager.level_prekeys", event="manager.level_prekeys", returns=Opaque("prekeys"), raises=True)
extern("encentity.getFrom", event="encentity.getFrom", returns=Str, pure=True)


def is_enc_ack(a, n):
    return a.tag == "ack" and attr(a, "class") == "notification" and same_attr(a, n, "id", "id") and same_attr(a, n, "to", "from") \
        and implies(truthy(attr(n, "type")), same_attr(a, n, "type", "type"))


@contract(CTRL, "AxolotlControlLayer.onRequestKeysEncryptNotification")
def onRequestKeysEncryptNotification(self: Obj("AxolotlControlLayer"), protocolTreeNode: Obj("ProtocolTreeNode")):
    requires(self._manager is not None)
    # acked once (before the key upload is prepared), not forwarded upward
    ensures(n_events("toLower") == 1 and is_enc_ack(event_arg("toLower", 0), protocolTreeNode) and n_events("toUpper") == 0)
    ensures(n_events("flush_keys") == 1)
    propagates("entity.fromNode", ensures=n_events("toLower") == 0)
    propagates("toLower")
    propagates("manager.generate_signed_prekey", ensures=n_events("toLower") == 1)
    propagates("manager.level_prekeys", ensures=n_events("toLower") == 1)
    propagates("flush_keys", ensures=n_events("toLower") == 1)


@contract(CTRL, "AxolotlControlLayer.onIdentityChangeEncryptNotification")
def onIdentityChangeEncryptNotification(self: Obj("AxolotlControlLayer"), protocoltreenode: Obj("ProtocolTreeNode")):
    ensures(n_events("toLower") == 1 and is_enc_ack(event_arg("toLower", 0), protocoltreenode) and n_events("toUpper") == 0)
    ensures(n_events("getKeysFor") == 1)
    propagates("entity.fromNode", ensures=n_events("toLower") == 0)
    propagates("toLower")
    propagates("getKeysFor", ensures=n_events("toLower") == 1)



@contract(CTRL, "AxolotlControlLayer.receive")
def ctrl_receive(self: Obj("AxolotlControlLayer"), protocolTreeNode: Obj("ProtocolTreeNode")):
    requires(self._manager is not None)         # between connected and disconnected
    modifies(self.iqRegistry)
    # replies to the layer's own requests are consumed by the registry; encrypt notifications (key count / identity
    # change) are acked once and consumed; everything else goes upward exactly once, unchanged
    ensures(implies(is_reply(old(self.iqRegistry), protocolTreeNode), n_events("toUpper") == 0 and n_events("toLower") == 0))
    ensures(implies(not is_reply(old(self.iqRegistry), protocolTreeNode) and protocolTreeNode.tag == "notification"
                    and attr(protocolTreeNode, "type") == "encrypt"
                    and (pure_child(protocolTreeNode, "count") is not None or pure_child(protocolTreeNode, "identity") is not None),
                    n_events("toUpper") == 0 and n_events("toLower") == 1 and is_enc_ack(event_arg("toLower", 0), protocolTreeNode)))
    ensures(implies(not is_reply(old(self.iqRegistry), protocolTreeNode)
                    and not (protocolTreeNode.tag == "notification" and attr(protocolTreeNode, "type") == "encrypt"
                             and (pure_child(protocolTreeNode, "count") is not None or pure_child(protocolTreeNode, "identity") is not None)),
                    n_events("toUpper") == 1 and same_obj(event_arg("toUpper", 0), protocolTreeNode) and n_events("toLower") == 0))
    propagates("*")



# =====================================================================================================================
# a message whose payload the library cannot present is answered with one receipt (messages layer)
# =====================================================================================================================
MSG = "yowsup/layers/protocol_messages/layer.py"
fields("YowMessagesProtocolLayer")
inline(PTN, "ProtocolTreeNode.getData")
extern("yowsup.layers.protocol_messages.protocolentities.attributes.converter.AttributesConverter.get", event="converter.get", returns=Opaque("converter"))
opaque("yowsup/layers/protocol_messages/protocolentities/attributes/converter.py", "AttributesConverter.get", event="converter.get", returns=Opaque("converter"))
extern("converter.protobytes_to_message", event="protobytes_to_message", returns=Opaque("message"), raises=True)
opaque("yowsup/layers/protocol_messages/protocolentities/attributes/attributes_message_meta.py", "MessageMetaAttributes.from_message_protocoltreenode",
       event="meta.fromNode", returns=Opaque("meta"), raises=True)
opaque("yowsup/layers/protocol_messages/protocolentities/message_text.py", "TextMessageProtocolEntity.__init__", event="TextMessageProtocolEntity", raises=True)
opaque("yowsup/layers/protocol_messages/protocolentities/message_extendedtext.py", "ExtendedTextMessageProtocolEntity.__init__", event="ExtendedTextMessageProtocolEntity", raises=True)


def payload(k):
    return field(event_result("protobytes_to_message", 0), k)


@contract(MSG, "YowMessagesProtocolLayer.recvMessageStanza")
def msg_recvMessageStanza(self: Obj("YowMessagesProtocolLayer"), node: Obj("ProtocolTreeNode")):
    ensures(n_events("toUpper") + n_events("toLower") <= 1)
    # not a plain (non-media) protobuf message: not this layer's business
    ensures(implies(pure_child(node, "proto") is None or attr(pure_child(node, "proto"), "mediatype") is not None,
                    n_events("toUpper") == 0 and n_events("toLower") == 0 and n_events("protobytes_to_message") == 0))
    ensures(implies(n_events("protobytes_to_message") == 1 and (truthy(payload("conversation")) or truthy(payload("extended_text"))),
                    n_events("toUpper") == 1 and n_events("toLower") == 0))
    # neither text nor extended text nor a pure key-distribution payload: exactly one receipt, nothing delivered
    ensures(implies(n_events("protobytes_to_message") == 1 and not truthy(payload("conversation")) and not truthy(payload("extended_text"))
                    and not truthy(payload("sender_key_distribution_message")),
                    n_events("toUpper") == 0 and n_events("toLower") == 1 and event_arg("toLower", 0).tag == "receipt"
                    and same_attr(event_arg("toLower", 0), node, "id", "id") and same_attr(event_arg("toLower", 0), node, "to", "from")
                    and implies(truthy(attr(node, "participant")), same_attr(event_arg("toLower", 0), node, "participant", "participant"))))
    # a payload that only distributes a sender key must not surface: no entity, no receipt
    ensures(implies(n_events("protobytes_to_message") == 1 and not truthy(payload("conversation")) and not truthy(payload("extended_text"))
                    and truthy(payload("sender_key_distribution_message")), n_events("toUpper") == 0 and n_events("toLower") == 0))
    propagates("*")


# =====================================================================================================================
# native generators (replay / search on the real handlers; entity constructors run for real)
# =====================================================================================================================
def _stanza_attrs(rng, types):
    a = {}
    if rng.random() < 0.9:
        a['id'] = rng.choice(['1', 'abc-12', '1517-3'])
    if rng.random() < 0.9:
        a['from'] = rng.choice(['4915100000000@s.whatsapp.net', '4915100000000-1500000000@g.us', '120363041234567890@g.us',
                                'status@broadcast', 's.whatsapp.net'])
    if rng.random() < 0.85:
        a['type'] = rng.choice(types)
    if rng.random() < 0.5:
        a['participant'] = rng.choice(['4915111111111@s.whatsapp.net', '4915122222222@s.whatsapp.net'])
    if rng.random() < 0.7:
        a['t'] = '1500000000'
    if rng.random() < 0.5:
        a['notify'] = 'n'
    if rng.random() < 0.3:
        a['offline'] = '0'
    return a


def gen_recvNotification(rng, n):
    for it in range(n):
        a = _stanza_attrs(rng, ['picture', 'status', 'contacts', 'subject', 'w:gp2', 'encrypt', 'foo', ''])
        ch = []
        if a.get('type') == 'picture' and rng.random() < 0.8:
            ch = [{'tag': rng.choice(['set', 'delete', 'other']), 'attributes': {'jid': 'a@s.whatsapp.net', 'id': '7'}}]
        if a.get('type') == 'status':
            ch = [{'tag': 'set', 'attributes': {}, 'data': [104, 105]}]
        yield {'inputs': {'self': {}, 'node': {'tag': 'notification', 'attributes': a, 'children': ch}},
               'raises_at': {rng.choice(['toLower', 'toUpper', 'entity.fromNode']): [0]} if rng.random() < 0.1 else {}}


def gen_recvCall(rng, n):
    for it in range(n):
        a = _stanza_attrs(rng, ['x'])
        a.pop('type', None)
        ch = []
        if rng.random() < 0.85:
            ca = {}
            if rng.random() < 0.8:
                ca['call-id'] = rng.choice(['c1', '99'])
            ch = [{'tag': rng.choice(['offer', 'terminate', 'relaylatency', 'accept']), 'attributes': ca}]
        yield {'inputs': {'self': {}, 'node': {'tag': 'call', 'attributes': a, 'children': ch}},
               'raises_at': {rng.choice(['toLower', 'toUpper', 'call.fromNode']): [0]} if rng.random() < 0.1 else {}}


def gen_recvIq(rng, n):
    for it in range(n):
        a = _stanza_attrs(rng, ['get', 'set', 'result'])
        a.pop('participant', None)
        if rng.random() < 0.6:
            a['xmlns'] = rng.choice(['urn:xmpp:ping', 'w:p', 'urn:xmpp:whatsapp:push'])
        yield {'inputs': {'self': {}, 'node': {'tag': 'iq', 'attributes': a, 'children': []}},
               'opaque_results': {'generateId': ['g1', 'g2']},
               'raises_at': {'toLower': [0]} if rng.random() < 0.1 else {}}
