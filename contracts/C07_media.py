"""C07 - the media layer's mandatory acknowledgement: a media message whose media type the library cannot present is answered by
exactly one receipt - the (read) acknowledgement of the entity parsed from THIS stanza - and nothing is delivered upward; every
presentable media type is delivered once and not acknowledged from here.  (The routing view of the same function is in
contracts/C06_routing.py; what ack() puts into the receipt - id, to, participant - is MessageProtocolEntity.ack, inlined here.)"""
from pyvc.lang import *
from contracts.C07_acks import *

MEDIA = "yowsup/layers/protocol_media/layer.py"
# the entity parsers are opaque events (C09 decides what they compute)
opaque("yowsup/layers/protocol_media/protocolentities/message_media.py", "MediaMessageProtocolEntity.fromProtocolTreeNode", event="media.fromNode", returns=Opaque("mediaentity"), raises=True)
opaque("yowsup/layers/protocol_media/protocolentities/message_media_downloadable_image.py", "ImageDownloadableMediaMessageProtocolEntity.fromProtocolTreeNode", event="media.fromNode", returns=Opaque("mediaentity"), raises=True)
opaque("yowsup/layers/protocol_media/protocolentities/message_media_downloadable_sticker.py", "StickerDownloadableMediaMessageProtocolEntity.fromProtocolTreeNode", event="media.fromNode", returns=Opaque("mediaentity"), raises=True)
opaque("yowsup/layers/protocol_media/protocolentities/message_media_downloadable_audio.py", "AudioDownloadableMediaMessageProtocolEntity.fromProtocolTreeNode", event="media.fromNode", returns=Opaque("mediaentity"), raises=True)
opaque("yowsup/layers/protocol_media/protocolentities/message_media_downloadable_video.py", "VideoDownloadableMediaMessageProtocolEntity.fromProtocolTreeNode", event="media.fromNode", returns=Opaque("mediaentity"), raises=True)
opaque("yowsup/layers/protocol_media/protocolentities/message_media_downloadable_document.py", "DocumentDownloadableMediaMessageProtocolEntity.fromProtocolTreeNode", event="media.fromNode", returns=Opaque("mediaentity"), raises=True)
opaque("yowsup/layers/protocol_media/protocolentities/message_media_location.py", "LocationMediaMessageProtocolEntity.fromProtocolTreeNode", event="media.fromNode", returns=Opaque("mediaentity"), raises=True)
opaque("yowsup/layers/protocol_media/protocolentities/message_media_contact.py", "ContactMediaMessageProtocolEntity.fromProtocolTreeNode", event="media.fromNode", returns=Opaque("mediaentity"), raises=True)
opaque("yowsup/layers/protocol_media/protocolentities/message_media_extendedtext.py", "ExtendedTextMediaMessageProtocolEntity.fromProtocolTreeNode", event="media.fromNode", returns=Opaque("mediaentity"), raises=True)
extern("mediaentity.ack", event="mediaentity.ack", returns=Opaque("receiptentity"), raises=True)
extern("receiptentity.toProtocolTreeNode", event="receiptentity.toProtocolTreeNode", returns=Opaque("node"), raises=True)
event_sort("media.fromNode", "obj")
event_sort("mediaentity.ack", "obj")
fields("YowMediaProtocolLayer", iqRegistry=DictStrObj("callback"), handleMap=DictStrObj("handler"))


def m_type(node):
    return attr(pure_child(node, "proto"), "mediatype")


def m_known(node):
    return m_type(node) is not None and (
        m_type(node) == "image" or m_type(node) == "sticker" or m_type(node) == "audio" or m_type(node) == "ptt"
        or m_type(node) == "video" or m_type(node) == "gif" or m_type(node) == "location" or m_type(node) == "contact"
        or m_type(node) == "document" or m_type(node) == "url")


@contract(MEDIA, "YowMediaProtocolLayer.recvMessageStanza")
def media_recv(self: Obj("YowMediaProtocolLayer"), node: Obj("ProtocolTreeNode")):
    requires(implies(attr(node, "type") == "media", pure_child(node, "proto") is not None))     # a media message carries its payload
    ensures(implies(attr(node, "type") != "media", n_events("toUpper") == 0 and n_events("toLower") == 0))
    # presentable: delivered once - the entity parsed from this stanza - and NOT acknowledged from here (the application does that)
    ensures(implies(attr(node, "type") == "media" and m_known(node),
                    n_events("toUpper") == 1 and n_events("toLower") == 0 and n_events("media.fromNode") == 1
                    and same_obj(event_arg("media.fromNode", 0, 0), node) and same_obj(event_arg("toUpper", 0), event_result("media.fromNode", 0))))
    # not presentable: exactly one receipt, the read-acknowledgement of the entity parsed from THIS stanza, nothing upward
    ensures(implies(attr(node, "type") == "media" and not m_known(node),
                    n_events("toUpper") == 0 and n_events("toLower") == 1
                    and n_events("media.fromNode") == 1 and same_obj(event_arg("media.fromNode", 0, 0), node)
                    and n_events("mediaentity.ack") == 1 and same_obj(event_arg("mediaentity.ack", 0, 0), event_result("media.fromNode", 0))
                    and event_arg("mediaentity.ack", 0, 1) == True
                    and n_events("receiptentity.toProtocolTreeNode") == 1
                    and same_obj(event_arg("receiptentity.toProtocolTreeNode", 0, 0), event_result("mediaentity.ack", 0))
                    and same_obj(event_arg("toLower", 0), event_result("receiptentity.toProtocolTreeNode", 0))))
    propagates("*")


# ---- what the acknowledgement of a message entity says: it names THIS message (id), goes back to its sender, carries the participant
# of a group message, and is a read receipt exactly when asked for one (used by the media layer above and by applications) -------------
MSGE = "yowsup/layers/protocol_messages/protocolentities/message.py"
fields("MessageProtocolEntity", _type=Str, _id=Str, _from=Str, participant=Opt(Str), timestamp=Int, notify=Opt(Str), __file__=MSGE)


@scenario
def message_ack_names_the_message(e: Obj("MessageProtocolEntity"), read: Bool):
    r = e.ack(read)
    n = r.toProtocolTreeNode()
    ensures(n.tag == "receipt" and attr(n, "id") == e._id and attr(n, "to") == e._from)
    ensures((attr(n, "type") == "read") == read)
    ensures(implies(truthy(e.participant), attr(n, "participant") == e.participant))
    ensures(implies(not truthy(e.participant), attr(n, "participant") is None))
