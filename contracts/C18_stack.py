"""C18 - stack assembly and event propagation.  Contracts on yowsup/stacks/yowstack.py and the event walk of
yowsup/layers/__init__.py."""
from pyvc.lang import *

STACK = "yowsup/stacks/yowstack.py"
LAYERS = "yowsup/layers/__init__.py"

opaque(STACK, "YowStack.__init__", event="YowStack", raises=True)
opaque(LAYERS, "YowParallelLayer.__init__", event="YowParallelLayer", raises=True)


def core_ref():
    """transport layers, bottom first"""
    return (cls("YowNetworkLayer"), cls("YowNoiseSegmentsLayer"), cls("YowNoiseLayer"), cls("YowCoderLayer"), cls("YowLoggerLayer"))


def basic_ref():
    return (cls("YowAuthenticationProtocolLayer"), cls("YowMessagesProtocolLayer"), cls("YowReceiptProtocolLayer"),
            cls("YowAckProtocolLayer"), cls("YowPresenceProtocolLayer"), cls("YowIbProtocolLayer"), cls("YowIqProtocolLayer"),
            cls("YowNotificationsProtocolLayer"), cls("YowContactsIqProtocolLayer"), cls("YowChatstateProtocolLayer"),
            cls("YowCallsProtocolLayer"))


def protocol_ref(groups, media, privacy, profiles):
    """the basic protocol layers plus EXACTLY the selected optional modules"""
    return basic_ref() + ((cls("YowGroupsProtocolLayer"),) if groups else ()) + ((cls("YowMediaProtocolLayer"),) if media else ()) \
        + ((cls("YowPrivacyProtocolLayer"),) if privacy else ()) + ((cls("YowProfilesProtocolLayer"),) if profiles else ())


@contract(STACK, "YowStackBuilder.getCoreLayers", inline=True)
def getCoreLayers():
    ensures(result == core_ref())


@contract(STACK, "YowStackBuilder.getProtocolLayers", inline=True)
def getProtocolLayers(groups: Bool, media: Bool, privacy: Bool, profiles: Bool):
    ensures(result == protocol_ref(groups, media, privacy, profiles))


@contract(STACK, "YowStackBuilder.getDefaultLayers", inline=True)
def getDefaultLayers(groups: Bool, media: Bool, privacy: Bool, profiles: Bool):
    # transport layers, the encryption control layer, one parallel group (send, receive) and one parallel group
    # over exactly the selected protocol layers - in this order, for every flag combination
    ensures(len(result) == 8 and result[0:5] == core_ref() and result[5] == cls("AxolotlControlLayer"))
    ensures(n_events("YowParallelLayer") == 2)
    ensures(is_instance(result[6], "YowParallelLayer") and same_obj(result[6], event_self("YowParallelLayer", 0))
            and event_arg("YowParallelLayer", 0, 0) == (cls("AxolotlSendLayer"), cls("AxolotlReceivelayer")))
    ensures(is_instance(result[7], "YowParallelLayer") and same_obj(result[7], event_self("YowParallelLayer", 1))
            and event_arg("YowParallelLayer", 1, 0) == protocol_ref(groups, media, privacy, profiles))
    propagates("YowParallelLayer")


@contract(STACK, "YowStackBuilder.getDefaultStack")
def getDefaultStack(layer: Opt(Opaque("layer")), axolotl: Bool, groups: Bool, media: Bool, privacy: Bool, profiles: Bool):
    # works for EVERY argument combination: one stack over the default layers (+ the optional top layer), bottom first
    ensures(n_events("YowStack") == 1 and is_instance(result, "YowStack") and same_obj(result, event_self("YowStack", 0)))
    ensures(implies(layer is None, len(event_arg("YowStack", 0, 0)) == 8))
    ensures(implies(layer is not None, len(event_arg("YowStack", 0, 0)) == 9 and same_obj(event_arg("YowStack", 0, 0)[8], layer)))
    ensures(event_arg("YowStack", 0, 0)[0:5] == core_ref() and event_arg("YowStack", 0, 0)[5] == cls("AxolotlControlLayer"))
    ensures(event_arg("YowParallelLayer", 1, 0) == protocol_ref(groups, media, privacy, profiles))
    ensures(event_kwarg("YowStack", 0, "reversed") == False)
    propagates("YowParallelLayer")
    propagates("YowStack")


# =====================================================================================================================
# builder: pushed and popped layers, in the given order
# =====================================================================================================================
fields("YowStackBuilder", layers=TupleObj, _props=DictStrObj)


@contract(STACK, "YowStackBuilder.push")
def push(self: Obj("YowStackBuilder"), yowLayer: Opaque("layer")):
    modifies(self.layers)
    ensures(self.layers == old(self.layers) + (yowLayer,) and result is self)


@contract(STACK, "YowStackBuilder.pop")
def pop(self: Obj("YowStackBuilder")):
    modifies(self.layers)
    ensures(implies(len(old(self.layers)) >= 1, self.layers == old(self.layers)[:len(old(self.layers)) - 1]))
    ensures(implies(len(old(self.layers)) == 0, len(self.layers) == 0))
    ensures(result is self)


@contract(STACK, "YowStackBuilder.pushDefaultLayers")
def pushDefaultLayers(self: Obj("YowStackBuilder")):
    modifies(self.layers)
    ensures(len(self.layers) == len(old(self.layers)) + 8 and self.layers[:len(old(self.layers))] == old(self.layers))
    ensures(same_obj(self.layers[len(old(self.layers))], cls("YowNetworkLayer"))
            and same_obj(self.layers[len(old(self.layers)) + 4], cls("YowLoggerLayer"))
            and same_obj(self.layers[len(old(self.layers)) + 5], cls("AxolotlControlLayer"))
            and same_obj(self.layers[len(old(self.layers)) + 6], event_self("YowParallelLayer", 0))
            and same_obj(self.layers[len(old(self.layers)) + 7], event_self("YowParallelLayer", 1)))
    ensures(event_arg("YowParallelLayer", 1, 0) == protocol_ref(True, True, True, True) and result is self)
    propagates("YowParallelLayer")


@contract(STACK, "YowStackBuilder.build")
def build(self: Obj("YowStackBuilder")):
    # the stack is built from exactly the pushed layers, bottom first (reversed=False), with the builder's props
    ensures(n_events("YowStack") == 1 and same_obj(result, event_self("YowStack", 0)))
    ensures(same_obj(event_arg("YowStack", 0, 0), self.layers) and event_kwarg("YowStack", 0, "reversed") == False
            and same_obj(event_kwarg("YowStack", 0, "props"), self._props))
    propagates("YowStack")


# =====================================================================================================================
# YowStack: data enters at the top / bottom instance, events start at the bottom / top instance
# =====================================================================================================================
fields("YowStack", _YowStack__stackInstances=ListObj, _YowStack__stack=TupleObj, _props=DictStrObj)
event_sort("layer.send", "obj")
event_sort("layer.receive", "obj")
event_sort("layer.onEvent", "obj")
event_sort("layer.emitEvent", "obj")
event_sort("layer.broadcastEvent", "obj")
extern("*.send", event="layer.send", raises=True)
extern("*.receive", event="layer.receive", raises=True)
extern("*.onEvent", event="layer.onEvent", raises=True, returns=Value)
extern("*.emitEvent", event="layer.emitEvent", raises=True)
extern("*.broadcastEvent", event="layer.broadcastEvent", raises=True)


@contract(STACK, "YowStack.send")
def stack_send(self: Obj("YowStack"), data: Opaque("data")):
    requires(len(self._YowStack__stackInstances) >= 1)
    ensures(n_events("layer.send") == 1 and same_obj(event_arg("layer.send", 0, 0), self._YowStack__stackInstances[-1])
            and same_obj(event_arg("layer.send", 0, 1), data) and n_events("layer.receive") == 0)
    propagates("layer.send")


@contract(STACK, "YowStack.receive")
def stack_receive(self: Obj("YowStack"), data: Opaque("data")):
    requires(len(self._YowStack__stackInstances) >= 1)
    ensures(n_events("layer.receive") == 1 and same_obj(event_arg("layer.receive", 0, 0), self._YowStack__stackInstances[0])
            and same_obj(event_arg("layer.receive", 0, 1), data) and n_events("layer.send") == 0)
    propagates("layer.receive")


@contract(STACK, "YowStack.emitEvent")
def stack_emitEvent(self: Obj("YowStack"), yowLayerEvent: Opaque("event")):
    requires(len(self._YowStack__stackInstances) >= 1)
    # offered to the bottom layer first; walks upward only if that layer does not consume it
    ensures(n_events("layer.onEvent") == 1 and same_obj(event_arg("layer.onEvent", 0, 0), self._YowStack__stackInstances[0]))
    ensures(n_events("layer.emitEvent") == (0 if truthy(event_result("layer.onEvent", 0)) else 1))
    ensures(implies(n_events("layer.emitEvent") == 1, same_obj(event_arg("layer.emitEvent", 0, 0), self._YowStack__stackInstances[0])
                    and same_obj(event_arg("layer.emitEvent", 0, 1), yowLayerEvent)))
    propagates("layer.onEvent")
    propagates("layer.emitEvent")


@contract(STACK, "YowStack.broadcastEvent")
def stack_broadcastEvent(self: Obj("YowStack"), yowLayerEvent: Opaque("event")):
    requires(len(self._YowStack__stackInstances) >= 1)
    ensures(n_events("layer.onEvent") == 1 and same_obj(event_arg("layer.onEvent", 0, 0), self._YowStack__stackInstances[-1]))
    ensures(n_events("layer.broadcastEvent") == (0 if truthy(event_result("layer.onEvent", 0)) else 1))
    ensures(implies(n_events("layer.broadcastEvent") == 1, same_obj(event_arg("layer.broadcastEvent", 0, 0), self._YowStack__stackInstances[-1])
                    and same_obj(event_arg("layer.broadcastEvent", 0, 1), yowLayerEvent)))
    propagates("layer.onEvent")
    propagates("layer.broadcastEvent")


@contract(STACK, "YowStack.getProp")
def stack_getProp(self: Obj("YowStack"), key: Str, default: Opt(Opaque("default"))):
    ensures(implies(contains_key(self._props, key), same_obj(result, map_get(self._props, key))))
    ensures(implies(not contains_key(self._props, key), same_obj(result, default)))


@contract(STACK, "YowStack.setProp")
def stack_setProp(self: Obj("YowStack"), key: Str, value: Opaque("value")):
    modifies(self._props)
    ensures(map_eq(self._props, map_put(old(self._props), key, value)))


# =====================================================================================================================
# YowLayer: one hop of the data path and of the event walk (the induction step of "seen exactly once, in stack order,
# by every layer above its emitter until a layer consumes it")
# =====================================================================================================================
fields("YowLayer", _YowLayer__upper=Opt(Opaque("upper")), _YowLayer__lower=Opt(Opaque("lower")), _YowLayer__stack=Opaque("stack"),
       event_callbacks=DictStrObj("handler"), interface=Opt(Opaque("interface")))
fields("YowLayerEvent", name=Str, detached=Bool, args=Opaque("args"), __file__="yowsup/layers/__init__.py")
inline(LAYERS, "YowLayerEvent.isDetached")
inline(LAYERS, "YowLayerEvent.getName")
inline(LAYERS, "YowLayer.getStack")
event_sort("upper.receive", "obj")
event_sort("upper.onEvent", "obj")
event_sort("upper.emitEvent", "obj")
event_sort("lower.onEvent", "obj")
event_sort("lower.broadcastEvent", "obj")
event_sort("stack.execDetached", "obj")
extern("upper.receive", event="upper.receive", raises=True)
extern("upper.onEvent", event="upper.onEvent", raises=True, returns=Value)
extern("upper.emitEvent", event="upper.emitEvent", raises=True)
extern("lower.onEvent", event="lower.onEvent", raises=True, returns=Value)
extern("lower.broadcastEvent", event="lower.broadcastEvent", raises=True)
extern("stack.execDetached", event="stack.execDetached")


@contract(LAYERS, "YowLayer.toUpper")
def toUpper(self: Obj("YowLayer"), data: Opaque("data")):
    ensures(n_events("upper.receive") == (0 if is_none(self._YowLayer__upper) else 1))
    ensures(implies(not is_none(self._YowLayer__upper), same_obj(event_arg("upper.receive", 0, 0), self._YowLayer__upper)
                    and same_obj(event_arg("upper.receive", 0, 1), data)))
    propagates("upper.receive")


@contract(LAYERS, "YowLayer.emitEvent")
def emitEvent(self: Obj("YowLayer"), yowLayerEvent: Obj("YowLayerEvent")):
    modifies(yowLayerEvent.detached)
    # no layer above: nothing happens
    ensures(implies(is_none(self._YowLayer__upper), n_events("upper.onEvent") == 0 and n_events("upper.emitEvent") == 0
                    and n_events("stack.execDetached") == 0))
    # the layer above sees the event exactly once ...
    ensures(implies(not is_none(self._YowLayer__upper), n_events("upper.onEvent") == 1
                    and same_obj(event_arg("upper.onEvent", 0, 0), self._YowLayer__upper)
                    and same_obj(event_arg("upper.onEvent", 0, 1), yowLayerEvent)))
    # ... and if it consumes it the walk stops
    ensures(implies(not is_none(self._YowLayer__upper) and truthy(event_result("upper.onEvent", 0)),
                    n_events("upper.emitEvent") == 0 and n_events("stack.execDetached") == 0
                    and yowLayerEvent.detached == old(yowLayerEvent.detached)))
    # otherwise it continues upward from that layer: immediately, or - for a detached event - through the stack's queue,
    # once, with the detached flag cleared (so the rest of the walk is direct)
    ensures(implies(not is_none(self._YowLayer__upper) and not truthy(event_result("upper.onEvent", 0)) and not old(yowLayerEvent.detached),
                    n_events("upper.emitEvent") == 1 and same_obj(event_arg("upper.emitEvent", 0, 0), self._YowLayer__upper)
                    and same_obj(event_arg("upper.emitEvent", 0, 1), yowLayerEvent) and n_events("stack.execDetached") == 0))
    ensures(implies(not is_none(self._YowLayer__upper) and not truthy(event_result("upper.onEvent", 0)) and old(yowLayerEvent.detached),
                    n_events("upper.emitEvent") == 0 and n_events("stack.execDetached") == 1 and not yowLayerEvent.detached))
    # what the deferred callback does when the stack's loop runs it: the walk continues from the layer ABOVE, once,
    # and the layer that has already seen the event is not offered it again
    ensures(implies(not is_none(self._YowLayer__upper) and not truthy(event_result("upper.onEvent", 0)) and old(yowLayerEvent.detached),
                    in_closure(event_arg("stack.execDetached", 0, 1),
                               lambda: n_events("upper.emitEvent") == 1 and same_obj(event_arg("upper.emitEvent", 0, 0), self._YowLayer__upper)
                               and same_obj(event_arg("upper.emitEvent", 0, 1), yowLayerEvent) and n_events("upper.onEvent") == 0,
                               # the callback fires later; a link that is set is never cleared (links are written only by setLayers,
                               # called by the stack constructor and addPostConstructLayer: bounded/stack_check.py scans the repository)
                               given=lambda: not is_none(self._YowLayer__upper))))
    propagates("upper.onEvent")
    propagates("upper.emitEvent")


@contract(LAYERS, "YowLayer.broadcastEvent")
def broadcastEvent(self: Obj("YowLayer"), yowLayerEvent: Obj("YowLayerEvent")):
    modifies(yowLayerEvent.detached)
    ensures(implies(is_none(self._YowLayer__lower), n_events("lower.onEvent") == 0 and n_events("lower.broadcastEvent") == 0
                    and n_events("stack.execDetached") == 0))
    ensures(implies(not is_none(self._YowLayer__lower), n_events("lower.onEvent") == 1
                    and same_obj(event_arg("lower.onEvent", 0, 0), self._YowLayer__lower)
                    and same_obj(event_arg("lower.onEvent", 0, 1), yowLayerEvent)))
    ensures(implies(not is_none(self._YowLayer__lower) and truthy(event_result("lower.onEvent", 0)),
                    n_events("lower.broadcastEvent") == 0 and n_events("stack.execDetached") == 0))
    ensures(implies(not is_none(self._YowLayer__lower) and not truthy(event_result("lower.onEvent", 0)) and not old(yowLayerEvent.detached),
                    n_events("lower.broadcastEvent") == 1 and same_obj(event_arg("lower.broadcastEvent", 0, 0), self._YowLayer__lower)
                    and same_obj(event_arg("lower.broadcastEvent", 0, 1), yowLayerEvent) and n_events("stack.execDetached") == 0))
    ensures(implies(not is_none(self._YowLayer__lower) and not truthy(event_result("lower.onEvent", 0)) and old(yowLayerEvent.detached),
                    n_events("lower.broadcastEvent") == 0 and n_events("stack.execDetached") == 1 and not yowLayerEvent.detached))
    ensures(implies(not is_none(self._YowLayer__lower) and not truthy(event_result("lower.onEvent", 0)) and old(yowLayerEvent.detached),
                    in_closure(event_arg("stack.execDetached", 0, 1),
                               lambda: n_events("lower.broadcastEvent") == 1 and same_obj(event_arg("lower.broadcastEvent", 0, 0), self._YowLayer__lower)
                               and same_obj(event_arg("lower.broadcastEvent", 0, 1), yowLayerEvent) and n_events("lower.onEvent") == 0,
                               given=lambda: not is_none(self._YowLayer__lower))))
    propagates("lower.onEvent")
    propagates("lower.broadcastEvent")


@contract(LAYERS, "YowLayer.onEvent")
def onEvent(self: Obj("YowLayer"), yowLayerEvent: Obj("YowLayerEvent")):
    # the registered callback for this event name, once; its result decides whether the event is consumed
    ensures(implies(contains_key(self.event_callbacks, yowLayerEvent.name),
                    n_events("call:handler") == 1 and same_obj(event_arg("call:handler", 0, 0), map_get(self.event_callbacks, yowLayerEvent.name))
                    and same_obj(event_arg("call:handler", 0, 1), yowLayerEvent) and same_obj(result, event_result("call:handler", 0))))
    ensures(implies(not contains_key(self.event_callbacks, yowLayerEvent.name), n_events("call:handler") == 0 and result == False))
    propagates("call:handler")


# =====================================================================================================================
# YowParallelLayer: every member, in order
# =====================================================================================================================
fields("YowParallelLayer", sublayers=TupleObj, _YowLayer__upper=Opt(Opaque("upper")), _YowLayer__lower=Opt(Opaque("lower")),
       _YowLayer__stack=Opaque("stack"), event_callbacks=DictStrObj("handler"), interface=Opt(Opaque("interface")))


@contract(LAYERS, "YowParallelLayer.receive")
def par_receive(self: Obj("YowParallelLayer"), data: Opaque("data")):
    # offered to every member of the group, in order, once each (unless a member raises)
    ensures(events("layer.receive") == self.sublayers and n_events("layer.send") == 0)
    propagates("layer.receive")


@loop(LAYERS, "YowParallelLayer.receive", 1)
def par_receive_loop(self, data):
    invariant(events("layer.receive") == self.sublayers[:loop_k()] and n_events("layer.send") == 0)


@contract(LAYERS, "YowParallelLayer.send")
def par_send(self: Obj("YowParallelLayer"), data: Opaque("data")):
    ensures(events("layer.send") == self.sublayers and n_events("layer.receive") == 0)
    propagates("layer.send")


@loop(LAYERS, "YowParallelLayer.send", 1)
def par_send_loop(self, data):
    invariant(events("layer.send") == self.sublayers[:loop_k()] and n_events("layer.receive") == 0)


@contract(LAYERS, "YowParallelLayer.onEvent")
def par_onEvent(self: Obj("YowParallelLayer"), yowLayerEvent: Opaque("event")):
    # the members are asked in order, each with this event, until one consumes it (the later ones are then not asked any more); the
    # group reports the event as consumed exactly when a member consumed it - whichever member it was, not just the last one
    ensures(events("layer.onEvent") == self.sublayers[:n_events("layer.onEvent")])
    ensures(forall(range(0, n_events("layer.onEvent")), lambda i: same_obj(event_arg("layer.onEvent", i, 1), yowLayerEvent)))
    ensures(forall(range(0, n_events("layer.onEvent") - 1), lambda i: not truthy(event_result("layer.onEvent", i))))
    ensures(truthy(result) == (n_events("layer.onEvent") >= 1 and truthy(event_result("layer.onEvent", n_events("layer.onEvent") - 1))))
    ensures(implies(not truthy(result), n_events("layer.onEvent") == len(self.sublayers)))
    propagates("layer.onEvent")


@loop(LAYERS, "YowParallelLayer.onEvent", 1)
def par_onEvent_loop(self, yowLayerEvent, stopEvent: Value("stop")):
    invariant(events("layer.onEvent") == self.sublayers[:n_events("layer.onEvent")] and n_events("layer.onEvent") <= loop_k())
    invariant(forall(range(0, n_events("layer.onEvent")), lambda i: same_obj(event_arg("layer.onEvent", i, 1), yowLayerEvent)))
    invariant(forall(range(0, n_events("layer.onEvent") - 1), lambda i: not truthy(event_result("layer.onEvent", i))))
    invariant(truthy(stopEvent) == (n_events("layer.onEvent") >= 1 and truthy(event_result("layer.onEvent", n_events("layer.onEvent") - 1))))
    invariant(implies(not truthy(stopEvent), n_events("layer.onEvent") == loop_k()))


# ---- a layer added on top of a constructed stack -------------------------------------------------------------------------------------
event_sort("layer.setLayers", "obj")
extern("*.setLayers", event="layer.setLayers")


@contract(STACK, "YowStack.addPostConstructLayer")
def addPostConstructLayer(self: Obj("YowStack"), layer: Opaque("layer")):
    requires(len(self._YowStack__stackInstances) >= 2)
    modifies(self._YowStack__stackInstances)
    # the old top keeps its lower neighbour and gets the new layer above it; the new layer sits on the old top with nothing above; it
    # becomes the top instance - for EVERY stack height the constructor can produce, two layers included
    ensures(n_events("layer.setLayers") == 2)
    ensures(same_obj(event_arg("layer.setLayers", 0, 0), old(self._YowStack__stackInstances)[len(old(self._YowStack__stackInstances)) - 1])
            and same_obj(event_arg("layer.setLayers", 0, 1), layer)
            and same_obj(event_arg("layer.setLayers", 0, 2), old(self._YowStack__stackInstances)[len(old(self._YowStack__stackInstances)) - 2]))
    ensures(same_obj(event_arg("layer.setLayers", 1, 0), layer) and event_arg("layer.setLayers", 1, 1) is None
            and same_obj(event_arg("layer.setLayers", 1, 2), old(self._YowStack__stackInstances)[len(old(self._YowStack__stackInstances)) - 1]))
    ensures(len(self._YowStack__stackInstances) == len(old(self._YowStack__stackInstances)) + 1
            and same_obj(self._YowStack__stackInstances[len(self._YowStack__stackInstances) - 1], layer)
            and forall(range(0, len(old(self._YowStack__stackInstances))), lambda i: self._YowStack__stackInstances[i] == old(self._YowStack__stackInstances)[i]))


# ---- the constructor's assembly step: one instance per entry, wired to its direct neighbours ------------------------------------------
# What an entry becomes (the entry itself when it is a layer instance, a new instance when it is a layer class, a parallel group for the
# deprecated tuple form) is decided by inspect.isclass / issubclass / a call of the entry: those are opaque here (unconstrained answers,
# any exception propagated), so the contract does not say WHICH object is made of an entry - bounded/stack_check.py samples that.
event_sort("layer.setStack", "obj")
extern("*.setStack", event="layer.setStack")
opaque(LAYERS, "YowParallelLayer.setStack", event="layer.setStack", recv_as_arg=True)
extern("inspect.isclass", event="inspect.isclass", returns=Bool)
extern("call:callable", returns=Opaque("layer"))


@contract(STACK, "YowStack._construct")
def construct(self: Obj("YowStack")):
    requires(len(self._YowStack__stackInstances) == 0)
    modifies(self._YowStack__stackInstances)
    raises(ValueError, may=True)
    propagates("YowParallelLayer")
    propagates("call:callable")
    # one instance per stack entry, in the order of the entries (bottom first) ...
    ensures(len(self._YowStack__stackInstances) == len(self._YowStack__stack))
    # ... each told once which stack it belongs to ...
    ensures(n_events("layer.setStack") == len(self._YowStack__stack))
    ensures(forall(range(0, len(self._YowStack__stack)), lambda i: same_obj(event_arg("layer.setStack", i, 0), self._YowStack__stackInstances[i])
                   and same_obj(event_arg("layer.setStack", i, 1), self)))
    # ... and each wired, once, to the instance directly above and the one directly below it (None at the two ends)
    ensures(n_events("layer.setLayers") == len(self._YowStack__stackInstances))
    ensures(forall(range(0, len(self._YowStack__stackInstances)), lambda i:
                   same_obj(event_arg("layer.setLayers", i, 0), self._YowStack__stackInstances[i])))
    ensures(forall(range(0, len(self._YowStack__stackInstances) - 1), lambda i:
                   same_obj(event_arg("layer.setLayers", i, 1), self._YowStack__stackInstances[i + 1])))
    ensures(forall(range(1, len(self._YowStack__stackInstances)), lambda i:
                   same_obj(event_arg("layer.setLayers", i, 2), self._YowStack__stackInstances[i - 1])))
    ensures(implies(len(self._YowStack__stackInstances) >= 1, event_arg("layer.setLayers", 0, 2) is None
                    and event_arg("layer.setLayers", len(self._YowStack__stackInstances) - 1, 1) is None))


@loop(STACK, "YowStack._construct", 1)
def construct_loop1(self):
    invariant(len(self._YowStack__stackInstances) == loop_k() and n_events("layer.setLayers") == 0 and n_events("layer.setStack") == loop_k())
    invariant(forall(range(0, loop_k()), lambda i: same_obj(event_arg("layer.setStack", i, 0), self._YowStack__stackInstances[i])
                     and same_obj(event_arg("layer.setStack", i, 1), self)))


@loop(STACK, "YowStack._construct", 2)
def construct_loop2(self):
    invariant(len(self._YowStack__stackInstances) == len(self._YowStack__stack) and n_events("layer.setLayers") == loop_k())
    invariant(n_events("layer.setStack") == len(self._YowStack__stack))
    invariant(forall(range(0, loop_k()), lambda i: same_obj(event_arg("layer.setLayers", i, 0), self._YowStack__stackInstances[i])))
    invariant(forall(range(0, loop_k()), lambda i: implies(i + 1 < len(self._YowStack__stackInstances),
                     same_obj(event_arg("layer.setLayers", i, 1), self._YowStack__stackInstances[i + 1]))))
    invariant(forall(range(0, loop_k()), lambda i: implies(i + 1 >= len(self._YowStack__stackInstances), event_arg("layer.setLayers", i, 1) is None)))
    invariant(forall(range(1, loop_k()), lambda i: same_obj(event_arg("layer.setLayers", i, 2), self._YowStack__stackInstances[i - 1])))
    invariant(implies(loop_k() >= 1, event_arg("layer.setLayers", 0, 2) is None))
