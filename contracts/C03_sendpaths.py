"""C03 / C17 - the paths a plaintext message stanza takes through the send layer before anything goes down, and the key fetch
that precedes a first message to a contact (C17: a bundle presenting an identity that is not the pinned one is reported per
recipient and nothing is sent to that recipient).

  * processPlaintextNodeAndSend: exactly one of {group path, encrypt for the contact, fetch the contact's keys first}; nothing goes
    down from here; after a successful key fetch for the one recipient the message is encrypted for the contact, once; after a
    fetch that reported an error for the recipient nothing is encrypted or sent;
  * getKeysFor: one request; when the result arrives every requested jid that the server answered gets exactly one
    create_session with ITS bundle and the application's auto-trust setting (default off); a jid whose identity is refused lands
    in the error map and not in the success list; the result callback runs exactly once, after all sessions were attempted;
  * ensureSessionsAndSendToGroup / sendToGroup: keys are fetched exactly for the participants without a session, the group send
    happens once, after that fetch;
  * sendToGroupWithSessions: one pairwise encryption per participant that needs the sender key, the group cipher exactly when this
    is not a retry, one envelope, the participant named only for a single-recipient retry."""
from pyvc.lang import *
from contracts.C03_e2e import *

P_AUTOTRUST = "org.openwhatsapp.yowsup.prop.axolotl.INDENTITY_AUTOTRUST"

opaque(SEND, "AxolotlSendLayer.sendToGroup", event="sendToGroup", raises=True)
opaque(SEND, "AxolotlSendLayer.sendToContact", event="sendToContact", raises=True)
# readonly: the callee does not mutate the list it is handed - proved as its own frame obligation below (frame[jidsNeedSenderKey])
opaque(SEND, "AxolotlSendLayer.sendToGroupWithSessions", event="sendToGroupWithSessions", raises=True, readonly=True)
opaque(SEND, "AxolotlSendLayer.ensureSessionsAndSendToGroup", event="ensureSessionsAndSendToGroup", raises=True)
opaque(SEND, "AxolotlSendLayer.on_get_keys_process_errors", event="process_errors", raises=True)
extern("manager.session_exists", event="manager.session_exists", returns=Bool, raises=True)
event_sort("sendToGroup", "obj")
event_sort("sendToContact", "obj")
event_sort("getKeysFor", "obj")
event_sort("process_errors", "obj")


def to_user(node):
    return attr(node, "to").split("@")[0]


def is_group(node):
    return "-" in to_user(node)


@contract(SEND, "AxolotlSendLayer.processPlaintextNodeAndSend", opaque_at_calls=True, callees_as_events=True)
def processPlaintextNodeAndSend(self: Obj("AxolotlSendLayer"), node: Obj("ProtocolTreeNode"), retryReceiptEntity: Opt(Opaque("retryentity"))):
    requires(self._manager is not None and attr(node, "to") is not None)
    # the stanza that carries the plaintext never goes down from here, on any path
    ensures(n_events("toLower") == 0 and n_events("toUpper") == 0)
    ensures(n_events("sendToGroup") + n_events("sendToContact") + n_events("getKeysFor") == 1)
    ensures(implies(is_group(node), n_events("sendToGroup") == 1 and same_obj(event_arg("sendToGroup", 0, 0), node)
                    and same_obj(event_arg("sendToGroup", 0, 1), retryReceiptEntity)))
    ensures(implies(not is_group(node), n_events("manager.session_exists") == 1 and event_arg("manager.session_exists", 0, 1) == to_user(node)))
    ensures(implies(not is_group(node) and event_result("manager.session_exists", 0),
                    n_events("sendToContact") == 1 and same_obj(event_arg("sendToContact", 0, 0), node)))
    # no session yet: the recipient's keys are requested - for exactly this recipient - and the message waits for the answer
    ensures(implies(not is_group(node) and not event_result("manager.session_exists", 0),
                    n_events("getKeysFor") == 1 and len(event_arg("getKeysFor", 0, 0)) == 1 and event_arg("getKeysFor", 0, 0)[0] == attr(node, "to")))
    # the answer: a session for the one recipient -> the message is encrypted for the contact, once ...
    ensures(implies(n_events("getKeysFor") == 1,
                    in_closure(event_arg("getKeysFor", 0, 1), lambda successJids, errors: n_events("sendToContact") == 1
                               and same_obj(event_arg("sendToContact", 0, 0), node) and n_events("toLower") == 0,
                               argtypes=(ListObj("jid"), DictObjObj), given=lambda successJids, errors: len(errors) == 0 and len(successJids) == 1,
                               total=True)))
    # ... an error for the recipient (unknown user, identity refused) -> reported, NOTHING is encrypted or sent
    ensures(implies(n_events("getKeysFor") == 1,
                    in_closure(event_arg("getKeysFor", 0, 1), lambda successJids, errors: n_events("sendToContact") == 0 and n_events("toLower") == 0
                               and n_events("process_errors") == 1 and same_obj(event_arg("process_errors", 0, 0), errors),
                               argtypes=(ListObj("jid"), DictObjObj), given=lambda successJids, errors: len(errors) > 0, total=True)))
    propagates("*")


# =====================================================================================================================
# getKeysFor: the key fetch and what its answer does (C17: an identity that is not the pinned one is refused per recipient)
# =====================================================================================================================
BASE = "yowsup/layers/axolotl/layer_base.py"
KRES = "yowsup/layers/axolotl/protocolentities/iq_keys_get_result.py"
KGET = "yowsup/layers/axolotl/protocolentities/iq_key_get.py"
fields("GetKeysIqProtocolEntity", jids=ListOf(Opaque("jid"), 2), __file__=KGET)
opaque(KGET, "GetKeysIqProtocolEntity.__init__", event="GetKeysIq", raises=True, readonly=True)
opaque(KRES, "ResultGetKeysIqProtocolEntity.fromProtocolTreeNode", event="keysresult.fromNode", returns=Opaque("keysresult"), raises=True)
opaque(LAYERS, "YowProtocolLayer._sendIq", event="_sendIq", raises=True)
extern("keysresult.getJids", event="keysresult.getJids", returns=ListObj("jid"))
extern("keysresult.getErrors", event="keysresult.getErrors", returns=DictObjObj)
extern("keysresult.getPreKeyBundleFor", event="keysresult.getPreKeyBundleFor", returns=Opaque("bundle"))
extern("manager.create_session", event="manager.create_session", raises=True)
extern("jid.split", event="jid.split", returns=ListOf(Opaque("part"), 2), pure=True)
event_sort("_sendIq", "obj")
event_sort("manager.create_session", "obj")
event_sort("keysresult.getPreKeyBundleFor", "obj")
event_sort("getProp", "obj")


def session_attempt_ok(i, jid):
    """the i-th session attempt is for `jid`: with ITS bundle from the answer and the application's auto-trust setting, default OFF"""
    return same_obj(event_arg("keysresult.getPreKeyBundleFor", i, 1), jid) \
        and same_obj(event_arg("manager.create_session", i, 2), event_result("keysresult.getPreKeyBundleFor", i)) \
        and event_arg("getProp", i, 0) == P_AUTOTRUST and event_arg("getProp", i, 1) == False \
        and same_obj(event_kwarg("manager.create_session", i, "autotrust"), event_result("getProp", i))


@contract(BASE, "AxolotlBaseLayer.getKeysFor", opaque_at_calls=True, callees_as_events=True, max_paths=3000)
def getKeysFor(self: Obj("AxolotlSendLayer"), jids: ListObj("jid"), resultClbk: Callback, errorClbk: Opt(Callback), reason: Opt(Str)):
    # one request for exactly these jids; nothing else happens until the answer arrives
    ensures(n_events("_sendIq") == 1 and n_events("GetKeysIq") == 1 and same_obj(event_arg("_sendIq", 0, 0), event_self("GetKeysIq", 0))
            and event_arg("GetKeysIq", 0, 0) == old(jids) and n_events("toLower") == 0 and n_events("manager.create_session") == 0
            and n_events("call:callback") == 0)
    # the answer, for a request of two distinct jids a and b (bounded in the NUMBER of requested jids; everything else arbitrary):
    #  - the continuation of the caller runs exactly once, last;
    #  - every session attempt is made with the bundle the server returned for that jid and with the application's auto-trust
    #    setting, default off; a jid is attempted at most once, and only if the server answered for it;
    #  - a jid whose attempt was refused (the library raised) is NOT in the success list the caller's continuation receives
    ensures(in_closure(event_arg("_sendIq", 0, 1),
                       lambda resultNode, req: n_events("call:callback") == 1 and same_obj(event_arg("call:callback", 0, 0), resultClbk)
                       and n_events("manager.create_session") <= 2 and n_events("manager.create_session") == n_events("getProp")
                       and n_events("manager.create_session") == n_events("keysresult.getPreKeyBundleFor")
                       and at_event("call:callback", 0, lambda: n_events("manager.create_session") == n_events("getProp"))
                       and implies(n_events("manager.create_session") == 2, session_attempt_ok(0, req.jids[0]) and session_attempt_ok(1, req.jids[1]))
                       and implies(n_events("manager.create_session") == 1, session_attempt_ok(0, req.jids[0]) or session_attempt_ok(0, req.jids[1]))
                       and n_events("toLower") == 0
                       and implies(n_events("manager.create_session") == 2 and event_raised("manager.create_session", 0),
                                   req.jids[0] not in event_arg("call:callback", 0, 1))
                       and implies(n_events("manager.create_session") == 2 and event_raised("manager.create_session", 1),
                                   req.jids[1] not in event_arg("call:callback", 0, 1))
                       and implies(n_events("manager.create_session") == 2 and not event_raised("manager.create_session", 0),
                                   req.jids[0] in event_arg("call:callback", 0, 1))
                       and implies(n_events("manager.create_session") == 0, len(event_arg("call:callback", 0, 1)) == 0)
                       # only jids the server answered for are attempted
                       and implies(n_events("manager.create_session") >= 1,
                                   event_arg("keysresult.getPreKeyBundleFor", 0, 1) in event_result("keysresult.getJids", 0))
                       and implies(n_events("manager.create_session") == 2,
                                   event_arg("keysresult.getPreKeyBundleFor", 1, 1) in event_result("keysresult.getJids", 0))
                       # a jid the server did not answer for is remembered (skipEncJids: written to unencrypted from then on, by design)
                       and implies(req.jids[0] not in event_result("keysresult.getJids", 0), req.jids[0] in self.skipEncJids)
                       and implies(req.jids[1] not in event_result("keysresult.getJids", 0), req.jids[1] in self.skipEncJids),
                       argtypes=(Obj("ProtocolTreeNode"), Obj("GetKeysIqProtocolEntity")),
                       given=lambda resultNode, req: self._manager is not None and not same_obj(req.jids[0], req.jids[1])))
    propagates("*")


# =====================================================================================================================
# group path: sessions for every participant first, then ONE group send
# =====================================================================================================================
event_sort("sendToGroupWithSessions", "obj")
event_sort("manager.session_exists", "obj")


@contract(SEND, "AxolotlSendLayer.ensureSessionsAndSendToGroup", opaque_at_calls=True, callees_as_events=True)
def ensureSessionsAndSendToGroup(self: Obj("AxolotlSendLayer"), node: Obj("ProtocolTreeNode"), jids: ListObj("jid")):
    requires(self._manager is not None)
    # every participant is asked about exactly once; nothing goes down from here
    # (that the question is asked about the user part of THAT jid is not pinned: jids are opaque objects in this contract)
    ensures(n_events("manager.session_exists") == len(jids) and n_events("toLower") == 0)
    ensures(n_events("getKeysFor") + n_events("sendToGroupWithSessions") == 1)
    # all participants have a session: the group send happens now, once, for all of them
    ensures(implies(n_events("sendToGroupWithSessions") == 1,
                    forall(range(0, len(jids)), lambda i: event_result("manager.session_exists", i))
                    and same_obj(event_arg("sendToGroupWithSessions", 0, 0), node) and event_arg("sendToGroupWithSessions", 0, 1) == jids))
    # otherwise keys are fetched for the participants without a session - all of them and only participants - and the message waits
    ensures(implies(n_events("getKeysFor") == 1,
                    len(event_arg("getKeysFor", 0, 0)) > 0
                    and forall(range(0, len(event_arg("getKeysFor", 0, 0))), lambda m: event_arg("getKeysFor", 0, 0)[m] in jids)
                    and forall(range(0, len(jids)), lambda i: implies(not event_result("manager.session_exists", i), jids[i] in event_arg("getKeysFor", 0, 0)))))
    # the answer: ONE group send, for the participants a session could be made with (errors are reported, the others still get the message)
    ensures(implies(n_events("getKeysFor") == 1,
                    in_closure(event_arg("getKeysFor", 0, 1), lambda successJids, errors: n_events("sendToGroupWithSessions") == 1
                               and same_obj(event_arg("sendToGroupWithSessions", 0, 0), node) and event_arg("sendToGroupWithSessions", 0, 1) == successJids
                               and n_events("toLower") == 0 and n_events("process_errors") == (1 if len(errors) > 0 else 0),
                               argtypes=(ListObj("jid"), DictObjObj))))
    propagates("*")


@loop(SEND, "AxolotlSendLayer.ensureSessionsAndSendToGroup", 1)
def ensure_loop(self, node, jids, jidsNoSession: ListObj("jid")):
    invariant(n_events("manager.session_exists") == loop_k() and n_events("getKeysFor") == 0 and n_events("sendToGroupWithSessions") == 0
              and n_events("toLower") == 0)
    invariant(len(jidsNoSession) <= loop_k())
    invariant(forall(range(0, len(jidsNoSession)), lambda m: jidsNoSession[m] in jids))
    invariant(forall(range(0, loop_k()), lambda i: implies(not event_result("manager.session_exists", i), jids[i] in jidsNoSession)))
    invariant(forall(range(0, loop_k()), lambda i: implies(len(jidsNoSession) == 0, event_result("manager.session_exists", i))))
# the key fetch does not mutate the list of jids it is handed (frame[jids] of its own contract above)
opaque(BASE, "AxolotlBaseLayer.getKeysFor", event="getKeysFor", raises=True, readonly=True)


# ---- sendToGroup: first message to a group -> participants from a group-info request; later messages -> the group cipher directly ---------
AUTH = "yowsup/layers/auth/layer_authentication.py"
GINFO = "yowsup/layers/protocol_groups/protocolentities/iq_groups_info.py"
GRES = "yowsup/layers/protocol_groups/protocolentities/iq_result_groups_info.py"
opaque(LAYERS, "YowLayer.getLayerInterface", event="getLayerInterface", returns=Opaque("authiface"))
extern("authiface.getUsername", event="authiface.getUsername", returns=Opaque("jid"))
extern("manager.load_senderkey", event="manager.load_senderkey", returns=Opaque("senderkeyrecord"), raises=True)
extern("senderkeyrecord.isEmpty", event="senderkeyrecord.isEmpty", returns=Bool)
extern("retryentity.getRetryCount", event="retryentity.getRetryCount", returns=Int)
extern("retryentity.getRetryJid", event="retryentity.getRetryJid", returns=Opaque("jid"))
opaque(GINFO, "InfoGroupsIqProtocolEntity.__init__", event="InfoGroupsIq", raises=True)
opaque(GRES, "InfoGroupsResultIqProtocolEntity.fromProtocolTreeNode", event="groupinfo.fromNode", returns=Opaque("groupinfo"), raises=True)
extern("groupinfo.getParticipants", event="groupinfo.getParticipants", returns=Opaque("participants"))
extern("participants.keys", event="participants.keys", returns=ListObj("jid"))
event_sort("ensureSessionsAndSendToGroup", "obj")
event_sort("InfoGroupsIq", "obj")


@contract(SEND, "AxolotlSendLayer.sendToGroup", opaque_at_calls=True, callees_as_events=True)
def sendToGroup(self: Obj("AxolotlSendLayer"), node: Obj("ProtocolTreeNode"), retryReceiptEntity: Opt(Opaque("retryentity"))):
    requires(self._manager is not None and attr(node, "to") is not None)
    ensures(n_events("toLower") == 0 and n_events("manager.load_senderkey") == 1 and event_arg("manager.load_senderkey", 0, 1) == attr(node, "to"))
    ensures(n_events("_sendIq") + n_events("sendToGroupWithSessions") == 1)
    # no sender key yet: the participants are asked for (one request about THIS group); nothing is encrypted before the answer
    ensures(implies(event_result("senderkeyrecord.isEmpty", 0),
                    n_events("_sendIq") == 1 and n_events("InfoGroupsIq") == 1 and same_obj(event_arg("_sendIq", 0, 0), event_self("InfoGroupsIq", 0))
                    and event_arg("InfoGroupsIq", 0, 0) == attr(node, "to")))
    # a sender key exists: straight to the group send; a retry names the one participant and its counter, an ordinary send nobody
    ensures(implies(not event_result("senderkeyrecord.isEmpty", 0),
                    n_events("sendToGroupWithSessions") == 1 and same_obj(event_arg("sendToGroupWithSessions", 0, 0), node)))
    ensures(implies(not event_result("senderkeyrecord.isEmpty", 0) and retryReceiptEntity is None,
                    len(event_arg("sendToGroupWithSessions", 0, 1)) == 0 and event_arg("sendToGroupWithSessions", 0, 2) == 0))
    ensures(implies(not event_result("senderkeyrecord.isEmpty", 0) and retryReceiptEntity is not None,
                    len(event_arg("sendToGroupWithSessions", 0, 1)) == 1
                    and same_obj(event_arg("sendToGroupWithSessions", 0, 1)[0], event_result("retryentity.getRetryJid", 0))
                    and event_arg("sendToGroupWithSessions", 0, 2) == event_result("retryentity.getRetryCount", n_events("retryentity.getRetryCount") - 1)))
    # the answer to the participants request: sessions are ensured for the participants, once
    ensures(implies(n_events("_sendIq") == 1,
                    in_closure(event_arg("_sendIq", 0, 1), lambda resultNode, req: n_events("ensureSessionsAndSendToGroup") == 1
                               and same_obj(event_arg("ensureSessionsAndSendToGroup", 0, 0), node) and n_events("toLower") == 0
                               and n_events("sendToGroupWithSessions") == 0,
                               argtypes=(Obj("ProtocolTreeNode"), Opaque("entity")))))
    propagates("*")


# ---- sendToGroupWithSessions: the sender key goes to each participant that needs it through ITS pairwise session, the payload through the group cipher ---
opaque(SEND, "AxolotlSendLayer.serializeSenderKeyDistributionMessageToProtobuf", event="skdm.toProto", returns=Opaque("pbmessage"), raises=True)
extern("manager.group_create_skmsg", event="manager.group_create_skmsg", returns=Opaque("skdm"), raises=True)
extern("manager.group_encrypt", event="manager.group_encrypt", returns=Bytes, raises=True)
extern("pbmessage.MergeFromString", event="pbmessage.MergeFromString", raises=True)
extern("pbmessage.SerializeToString", event="pbmessage.SerializeToString", returns=Bytes, raises=True)
event_sort("manager.encrypt", "obj")
event_sort("manager.group_encrypt", "obj")
event_sort("skdm.toProto", "obj")
event_sort("pbmessage.MergeFromString", "obj")
event_sort("pbmessage.SerializeToString", "obj")
event_sort("EncProtocolEntity", "obj")


def n_need(j):
    return 0 if j is None else len(j)


@contract(SEND, "AxolotlSendLayer.sendToGroupWithSessions", opaque_at_calls=True, callees_as_events=True)
def sendToGroupWithSessions(self: Obj("AxolotlSendLayer"), node: Obj("ProtocolTreeNode"), jidsNeedSenderKey: Opt(ListStr), retryCount: Int):
    requires(self._manager is not None and pure_child(node, "proto") is not None and attr(node, "to") is not None and retryCount >= 0)
    # one pairwise encryption per participant that needs the sender key - to THAT participant - and nothing in plaintext
    ensures(n_events("manager.encrypt") == n_need(jidsNeedSenderKey) and n_events("toLower") == 0)
    ensures(forall(range(0, n_need(jidsNeedSenderKey)), lambda i: event_arg("manager.encrypt", i, 1) == jidsNeedSenderKey[i].split("@")[0]
                   and event_arg("manager.encrypt", i, 2) == event_result("pbmessage.SerializeToString", i)))
    # the sender key is created once per send that distributes it, for THIS group
    ensures(n_events("manager.group_create_skmsg") == (1 if n_need(jidsNeedSenderKey) > 0 else 0))
    ensures(implies(n_need(jidsNeedSenderKey) > 0, event_arg("manager.group_create_skmsg", 0, 1) == attr(node, "to")))
    # an ordinary send (not a retry) encrypts the payload once with the group cipher; a retry re-sends the payload inside the pairwise message
    ensures(n_events("manager.group_encrypt") == (1 if retryCount == 0 else 0))
    ensures(implies(retryCount == 0, event_arg("manager.group_encrypt", 0, 1) == attr(node, "to")
                    and event_arg("manager.group_encrypt", 0, 2) == pure_child(node, "proto").data and n_events("pbmessage.MergeFromString") == 0))
    ensures(implies(retryCount > 0, n_events("pbmessage.MergeFromString") == n_need(jidsNeedSenderKey)))
    # every envelope entry is version 2 and carries the payload's media type
    ensures(forall(range(0, n_events("EncProtocolEntity")), lambda i: event_arg("EncProtocolEntity", i, 1) == 2
                   and event_arg("EncProtocolEntity", i, 3) == attr(pure_child(node, "proto"), "mediatype")))
    # ONE envelope; the participant is named only when this is a retry directed at a single participant
    ensures(n_events("sendEncEntities") == 1 and same_obj(event_arg("sendEncEntities", 0, 0), node)
            and n_events("EncProtocolEntity") == n_need(jidsNeedSenderKey) + (1 if retryCount == 0 else 0))
    ensures(implies(n_need(jidsNeedSenderKey) == 1 and retryCount > 0, event_arg("sendEncEntities", 0, 2) == jidsNeedSenderKey[0]))
    ensures(implies(not (n_need(jidsNeedSenderKey) == 1 and retryCount > 0), event_arg("sendEncEntities", 0, 2) is None))
    propagates("*")


@loop(SEND, "AxolotlSendLayer.sendToGroupWithSessions", 1)
def stgws_loop(self, node, jidsNeedSenderKey, retryCount, encEntities: ListObj("enc")):
    invariant(n_events("manager.encrypt") == loop_k() and n_events("pbmessage.SerializeToString") == loop_k() and n_events("EncProtocolEntity") == loop_k()
              and n_events("skdm.toProto") == loop_k() and len(encEntities) == loop_k())
    invariant(n_events("pbmessage.MergeFromString") == (loop_k() if retryCount > 0 else 0))
    invariant(n_events("toLower") == 0 and n_events("manager.group_encrypt") == 0 and n_events("sendEncEntities") == 0 and n_events("manager.group_create_skmsg") == 1)
    invariant(forall(range(0, loop_k()), lambda i: event_arg("manager.encrypt", i, 1) == jidsNeedSenderKey[i].split("@")[0]
                     and event_arg("manager.encrypt", i, 2) == event_result("pbmessage.SerializeToString", i)))
    invariant(forall(range(0, loop_k()), lambda i: event_arg("EncProtocolEntity", i, 1) == 2
                     and event_arg("EncProtocolEntity", i, 3) == attr(pure_child(node, "proto"), "mediatype")))
