"""C20 - registration requests: token, parameter encoding, encryption structure."""
from pyvc.lang import *
from spec.registration import *

ENV = "yowsup/env/env_android.py"
REQ = "yowsup/common/http/warequest.py"
R = "assumed contract of a standard-library / cryptography primitive"

fields("AndroidYowsupEnv")
fields("SHA1", fed=SeqInt)


@contract("<ext>", "base64.b64decode", assumed=True, pure=False, reason=R)
def b64decode(s: Str) -> Bytes:
    ensures(result == b64dec(s))


@contract("<ext>", "base64.b64encode", assumed=True, reason=R)
def b64encode(s: Bytes) -> Bytes:
    ensures(result == b64enc(s))


@contract("<ext>", "hashlib.sha1", assumed=True, reason=R)
def sha1_new() -> Obj("SHA1"):
    ensures(result.fed == [])


@contract("<ext>", "SHA1.update", assumed=True, reason=R)
def sha1_update(self: Obj("SHA1"), data: IntSeq):
    modifies(self.fed)
    ensures(self.fed == old(self.fed) + data)


@contract("<ext>", "SHA1.digest", assumed=True, reason=R)
def sha1_digest(self: Obj("SHA1")) -> Bytes:
    ensures(result == sha1(self.fed) and len(result) == 20)


@lemma(assumed=True, reason="the decoded key has at least 64 bytes (checked natively: 80) and base64 / sha1 outputs are byte strings")
def token_facts(x: SeqInt):
    ensures(len(b64dec(REF_KEY)) >= 64 and is_bytes(b64dec(x)) and is_bytes(sha1(x)) and is_bytes(b64enc(x)) and is_bytes(py_utf8(x)))
    trigger(b64dec(x))
    trigger(sha1(x))
    trigger(py_utf8(x))


@contract(ENV, "AndroidYowsupEnv.getToken")
def getToken(self: Obj("AndroidYowsupEnv"), phoneNumber: Str) -> Bytes:
    # for EVERY phone-number string the token is WhatsApp's keyed SHA-1 construction
    ensures(result == wa_token(phoneNumber))


# =====================================================================================================================
# percent-encoding of parameter values (structure proved; "standard decoding returns the value" is the bounded part)
# =====================================================================================================================
@contract("<ext>", "urllib.parse.quote", assumed=True, reason=R + ": validated natively over all code points")
def quote(string: Str, safe: Str = "/") -> Str:
    requires(len(string) == 1 and len(safe) == 0)
    ensures(result == quote1(string) and len(result) >= 1)


@lemma(assumed=True, reason="models of str.lower / str.replace: pyvc builtins are uninterpreted per operation; these axioms tie them to the spec names")
def str_model_replace(s: SeqInt, a: SeqInt, b: SeqInt):
    ensures(py_replace(s, a, b) == replace1(s, a, b))
    trigger(py_replace(s, a, b))


@lemma(assumed=True, reason="model of str.lower tied to the spec name")
def str_model_lower(s: SeqInt):
    ensures(py_lower(s) == ascii_lower(s))
    trigger(py_lower(s))


@contract(REQ, "WARequest.urlencode")
def urlencode(cls: ClassRef("WARequest"), value: Str) -> Str:
    ensures(result == wa_urlencode(value))


@loop(REQ, "WARequest.urlencode", 1)
def urlencode_loop(value, out):
    invariant(out == enc_chars(value[:loop_k()]))


# =====================================================================================================================
# the encrypted request blob
# =====================================================================================================================
fields("WARequest")
fields("ECKeyPair", publicKey=Opaque("ecpub"), privateKey=Opaque("ecpriv"))
fields("AESGCM", key=Bytes)
extern("ecpub.serialize", event="ecpub.serialize", returns=Bytes, pure=True)
opaque(REQ, "WARequest.urlencodeParams", event="urlencodeParams", returns=Str)


@spec(uninterpreted=True)
def x25519(pub: Opaque, priv: Opaque) -> SeqInt:
    """Curve.calculateAgreement"""
    return []


@spec(uninterpreted=True)
def aesgcm_enc(key: SeqInt, nonce: SeqInt, data: SeqInt, aad: SeqInt) -> SeqInt:
    from cryptography.hazmat.primitives.ciphers.aead import AESGCM
    return list(AESGCM(bytes(key)).encrypt(bytes(nonce), bytes(data), bytes(aad)))


@contract("<ext>", "axolotl.ecc.curve.Curve.generateKeyPair", assumed=True, reason=R + ": a fresh key pair on every call")
def generateKeyPair() -> Obj("ECKeyPair"):
    pass


@contract("<ext>", "axolotl.ecc.curve.Curve.calculateAgreement", assumed=True, reason=R)
def calculateAgreement(publicKey: Opaque("ecpub"), privateKey: Opaque("ecpriv")) -> Bytes:
    ensures(result == x25519(publicKey, privateKey) and len(result) == 32)


@contract("<ext>", "cryptography.hazmat.primitives.ciphers.aead.AESGCM", assumed=True, reason=R)
def AESGCM_new(key: Bytes) -> Obj("AESGCM"):
    ensures(result.key == key)


@contract("<ext>", "AESGCM.encrypt", assumed=True, reason=R)
def AESGCM_encrypt(self: Obj("AESGCM"), nonce: Bytes, data: Bytes, associated_data: Bytes) -> Bytes:
    ensures(result == aesgcm_enc(self.key, nonce, data, associated_data))


@contract(REQ, "WARequest.encryptParams")
def encryptParams(self: Obj("WARequest"), params: Opaque("params"), key: Opaque("ecpub")):
    # a fresh ephemeral key pair each time; the blob is  ephemeral public key (without the type byte) || AES-GCM(agreement,
    # nonce 0^12, utf8(encoded parameter string), no aad), base64 encoded, as the single parameter ENC
    ensures(n_events("axolotl.ecc.curve.Curve.generateKeyPair") == 1 and n_events("urlencodeParams") == 1
            and same_obj(event_arg("urlencodeParams", 0), params))
    ensures(len(result) == 1 and result[0][0] == "ENC")
    ensures(result[0][1] == b64enc(getter("ecpub.serialize", field(event_result("axolotl.ecc.curve.Curve.generateKeyPair", 0), "publicKey"))[1:]
                                   + aesgcm_enc(x25519(key, field(event_result("axolotl.ecc.curve.Curve.generateKeyPair", 0), "privateKey")),
                                                [0, 0, 0, 0, 0, 0, 0, 0, 0, 0, 0, 0], utf8(event_result("urlencodeParams", 0)), [])))


@lemma(assumed=True, reason="a Curve25519 public key serialises to the type byte 5 followed by 32 key bytes")
def pubkey_len(k: Opaque):
    ensures(len(getter("ecpub.serialize", k)) == 33)
    trigger(getter("ecpub.serialize", k))


# =====================================================================================================================
# the parameter string: name=value pairs in the ORIGINAL order, joined by '&', every value percent-encoded, names as they are - also
# when a name occurs twice (proved for lists of exactly three parameters: bounded in the NUMBER of parameters only; other lengths: bounded check)
# =====================================================================================================================
def pair(k, v):
    return k + "=" + wa_urlencode(v)


@contract(REQ, "WARequest.urlencodeParams", opaque_at_calls=True)
def urlencodeParams(cls: ClassRef("WARequest"), params: ListOf(Tup(Str, Str), 3)) -> Str:
    ensures(result == pair(params[0][0], params[0][1]) + "&" + pair(params[1][0], params[1][1]) + "&" + pair(params[2][0], params[2][1]))
