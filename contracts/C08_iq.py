"""C08 - request/response correlation.  Contracts on the two iq registries:
yowsup/layers/__init__.py (YowProtocolLayer) and yowsup/layers/interface/interface.py (YowInterfaceLayer).
The abstract view of iqRegistry is a finite map  id -> (request, onSuccess, onError); every postcondition
speaks about the WHOLE map, so the history claim ("any interleaving of outstanding requests and replies")
follows by the usual induction: holds initially (empty map), preserved by every operation."""
from pyvc.lang import *

LAYERS = "yowsup/layers/__init__.py"
IFACE = "yowsup/layers/interface/interface.py"
PTN = "yowsup/structs/protocoltreenode.py"

fields("ProtocolTreeNode", tag=Str, attributes=DictStrStr, children=Opaque("children"), data=Opt(Bytes), __file__="yowsup/structs/protocoltreenode.py")
inline(PTN, "ProtocolTreeNode.__getitem__")
inline(PTN, "ProtocolTreeNode.getAttributeValue")

fields("YowProtocolLayer", iqRegistry=DictStrObj("callback"), handleMap=DictStrObj("handler"))
fields("YowInterfaceLayer", iqRegistry=DictStrObj("callback"), entity_callbacks=DictStrObj("handler"), reconnect=Bool)
opaque(LAYERS, "YowLayer.toLower", event="toLower", raises=True)
opaque(LAYERS, "YowLayer.toUpper", event="toUpper", raises=True)
extern("entity.getId", event="entity.getId", returns=Str, pure=True)
extern("entity.getTag", event="entity.getTag", returns=Str, pure=True)
extern("entity.getType", event="entity.getType", returns=Str, pure=True)
extern("entity.toProtocolTreeNode", event="entity.toProtocolTreeNode", returns=Opaque("node"))
event_sort("entity.toProtocolTreeNode", "obj")


def is_reply(reg, node):
    """the stanza is an iq whose id is outstanding"""
    return node.tag == "iq" and attr(node, "id") is not None and contains_key(reg, attr(node, "id"))


def wants_success(reg, node):
    return attr(node, "type") is not None and attr(node, "type") == "result" and truthy(proj(map_get(reg, attr(node, "id")), 3, 1))


def wants_error(reg, node):
    return (not wants_success(reg, node)) and attr(node, "type") is not None and attr(node, "type") == "error" \
        and truthy(proj(map_get(reg, attr(node, "id")), 3, 2))


# =====================================================================================================================
# library-internal requests: YowProtocolLayer
# =====================================================================================================================
@contract(LAYERS, "YowProtocolLayer._sendIq")
def _sendIq(self: Obj("YowProtocolLayer"), iqEntity: Opaque("entity"), onSuccess: Opt(Callback), onError: Opt(Callback)):
    modifies(self.iqRegistry)
    # registered under the request's id, with both continuations and the request itself, BEFORE it goes down
    ensures(map_eq(self.iqRegistry, map_put(old(self.iqRegistry), event_result("entity.getId", 0), (iqEntity, onSuccess, onError))))
    ensures(n_events("toLower") == 1 and same_obj(event_arg("toLower", 0), event_result("entity.toProtocolTreeNode", 0)))
    ensures(at_event("toLower", 0, contains_key(self.iqRegistry, event_result("entity.getId", 0))))
    # it is THIS request that is serialised and whose id is the key
    ensures(n_events("entity.toProtocolTreeNode") == 1 and same_obj(event_arg("entity.toProtocolTreeNode", 0, 0), iqEntity)
            and event_result("entity.getId", 0) == getter("entity.getId", iqEntity))
    propagates("toLower")


@contract(LAYERS, "YowProtocolLayer.processIqRegistry")
def processIqRegistry(self: Obj("YowProtocolLayer"), protocolTreeNode: Obj("ProtocolTreeNode")) -> Bool:
    modifies(self.iqRegistry)
    # a reply: its entry - and only its entry - is removed, exactly one matching callback runs, with the reply
    # and the ORIGINAL request; the entry is already gone when the callback runs (a replayed or re-entrant
    # reply finds nothing)
    ensures(implies(is_reply(old(self.iqRegistry), protocolTreeNode),
                    result == True and map_eq(self.iqRegistry, map_del(old(self.iqRegistry), attr(protocolTreeNode, "id")))))
    ensures(implies(is_reply(old(self.iqRegistry), protocolTreeNode) and wants_success(old(self.iqRegistry), protocolTreeNode),
                    n_events("call:callback") == 1
                    and same_obj(event_arg("call:callback", 0, 0), proj(map_get(old(self.iqRegistry), attr(protocolTreeNode, "id")), 3, 1))
                    and same_obj(event_arg("call:callback", 0, 1), protocolTreeNode)
                    and same_obj(event_arg("call:callback", 0, 2), proj(map_get(old(self.iqRegistry), attr(protocolTreeNode, "id")), 3, 0))
                    and at_event("call:callback", 0, not contains_key(self.iqRegistry, attr(protocolTreeNode, "id")))))
    ensures(implies(is_reply(old(self.iqRegistry), protocolTreeNode) and wants_error(old(self.iqRegistry), protocolTreeNode),
                    n_events("call:callback") == 1
                    and same_obj(event_arg("call:callback", 0, 0), proj(map_get(old(self.iqRegistry), attr(protocolTreeNode, "id")), 3, 2))
                    and same_obj(event_arg("call:callback", 0, 1), protocolTreeNode)
                    and same_obj(event_arg("call:callback", 0, 2), proj(map_get(old(self.iqRegistry), attr(protocolTreeNode, "id")), 3, 0))))
    ensures(implies(is_reply(old(self.iqRegistry), protocolTreeNode) and not wants_success(old(self.iqRegistry), protocolTreeNode)
                    and not wants_error(old(self.iqRegistry), protocolTreeNode), n_events("call:callback") == 0))
    ensures(n_events("call:callback") <= 1)
    # anything else (unknown id, replayed reply, non-iq stanza): no callback, registry untouched, handled as an ordinary stanza
    ensures(implies(not is_reply(old(self.iqRegistry), protocolTreeNode),
                    result == False and map_eq(self.iqRegistry, old(self.iqRegistry)) and n_events("call:callback") == 0))
    # a raising callback reaches the caller; the entry stays removed
    propagates("call:callback", ensures=map_eq(self.iqRegistry, map_del(old(self.iqRegistry), attr(protocolTreeNode, "id"))))


@contract(LAYERS, "YowProtocolLayer.receive")
def receive(self: Obj("YowProtocolLayer"), node: Obj("ProtocolTreeNode")):
    modifies(self.iqRegistry)
    ensures(implies(is_reply(old(self.iqRegistry), node), n_events("call:handler") == 0))
    ensures(implies(not is_reply(old(self.iqRegistry), node) and contains_key(self.handleMap, node.tag)
                    and truthy(proj(map_get(self.handleMap, node.tag), 2, 0)),
                    n_events("call:handler") == 1 and same_obj(event_arg("call:handler", 0, 1), node)
                    and same_obj(event_arg("call:handler", 0, 0), proj(map_get(self.handleMap, node.tag), 2, 0))))
    ensures(implies(not is_reply(old(self.iqRegistry), node) and not contains_key(self.handleMap, node.tag), n_events("call:handler") == 0))
    ensures(map_eq(self.handleMap, old(self.handleMap)))
    propagates("call:callback")
    propagates("call:handler", ensures=map_eq(self.handleMap, old(self.handleMap)) and map_eq(self.iqRegistry, old(self.iqRegistry)))


# =====================================================================================================================
# application requests: YowInterfaceLayer (registry keyed by entity id, entities instead of nodes)
# =====================================================================================================================
def is_reply_e(reg, tag, eid):
    return tag == "iq" and contains_key(reg, eid)


@contract(IFACE, "YowInterfaceLayer._sendIq")
def iface_sendIq(self: Obj("YowInterfaceLayer"), iqEntity: Opaque("entity"), onSuccess: Opt(Callback), onError: Opt(Callback)):
    modifies(self.iqRegistry)
    # only iq entities may be registered; a refused entity registers nothing and sends nothing
    raises(AssertionError, when=getter("entity.getTag", iqEntity) != "iq",
           ensures=map_eq(self.iqRegistry, old(self.iqRegistry)) and n_events("toLower") == 0)
    ensures(map_eq(self.iqRegistry, map_put(old(self.iqRegistry), getter("entity.getId", iqEntity), (iqEntity, onSuccess, onError))))
    ensures(n_events("toLower") == 1 and same_obj(event_arg("toLower", 0), iqEntity))
    ensures(at_event("toLower", 0, contains_key(self.iqRegistry, getter("entity.getId", iqEntity))))
    propagates("toLower")


def e_reply(reg, e):
    """the entity is an iq whose id is outstanding"""
    return getter("entity.getTag", e) == "iq" and contains_key(reg, getter("entity.getId", e))


def e_entry(reg, e):
    return map_get(reg, getter("entity.getId", e))


def e_success(reg, e):
    return getter("entity.getType", e) == "result" and truthy(proj(e_entry(reg, e), 3, 1))


def e_error(reg, e):
    return (not e_success(reg, e)) and getter("entity.getType", e) == "error" and truthy(proj(e_entry(reg, e), 3, 2))


@contract(IFACE, "YowInterfaceLayer.processIqRegistry")
def iface_processIqRegistry(self: Obj("YowInterfaceLayer"), entity: Opaque("entity")) -> Bool:
    modifies(self.iqRegistry)
    ensures(implies(not e_reply(old(self.iqRegistry), entity),
                    result == False and map_eq(self.iqRegistry, old(self.iqRegistry)) and n_events("call:callback") == 0))
    ensures(implies(e_reply(old(self.iqRegistry), entity),
                    result == True and map_eq(self.iqRegistry, map_del(old(self.iqRegistry), getter("entity.getId", entity)))))
    ensures(implies(e_reply(old(self.iqRegistry), entity) and e_success(old(self.iqRegistry), entity),
                    n_events("call:callback") == 1
                    and same_obj(event_arg("call:callback", 0, 0), proj(e_entry(old(self.iqRegistry), entity), 3, 1))
                    and same_obj(event_arg("call:callback", 0, 1), entity)
                    and same_obj(event_arg("call:callback", 0, 2), proj(e_entry(old(self.iqRegistry), entity), 3, 0))
                    and at_event("call:callback", 0, not contains_key(self.iqRegistry, getter("entity.getId", entity)))))
    ensures(implies(e_reply(old(self.iqRegistry), entity) and e_error(old(self.iqRegistry), entity),
                    n_events("call:callback") == 1
                    and same_obj(event_arg("call:callback", 0, 0), proj(e_entry(old(self.iqRegistry), entity), 3, 2))
                    and same_obj(event_arg("call:callback", 0, 1), entity)
                    and same_obj(event_arg("call:callback", 0, 2), proj(e_entry(old(self.iqRegistry), entity), 3, 0))))
    ensures(implies(e_reply(old(self.iqRegistry), entity) and not e_success(old(self.iqRegistry), entity)
                    and not e_error(old(self.iqRegistry), entity), n_events("call:callback") == 0))
    propagates("call:callback", ensures=map_eq(self.iqRegistry, map_del(old(self.iqRegistry), getter("entity.getId", entity))))


@contract(IFACE, "YowInterfaceLayer.receive")
def iface_receive(self: Obj("YowInterfaceLayer"), entity: Opaque("entity")):
    modifies(self.iqRegistry)
    # exactly one of: a registry callback (reply), a typed entity callback, or delivery to the application
    ensures(implies(e_reply(old(self.iqRegistry), entity), n_events("call:handler") == 0 and n_events("toUpper") == 0))
    ensures(implies(not e_reply(old(self.iqRegistry), entity),
                    n_events("call:callback") == 0 and n_events("call:handler") + n_events("toUpper") == 1))
    ensures(implies(not e_reply(old(self.iqRegistry), entity) and not contains_key(self.entity_callbacks, getter("entity.getTag", entity)),
                    n_events("toUpper") == 1 and same_obj(event_arg("toUpper", 0), entity)))
    ensures(map_eq(self.entity_callbacks, old(self.entity_callbacks)))
    propagates("call:callback")
    propagates("call:handler")
    propagates("toUpper")


# =====================================================================================================================
# the process-wide id counter: ONE counter for every entity class (two outstanding requests of different classes never share an id)
# =====================================================================================================================
PE_ = "yowsup/structs/protocolentity.py"
fields("PingIqProtocolEntity", tag=Str, __file__="yowsup/layers/protocol_iq/protocolentities/iq_ping.py")
extern("time.time", event="time.time", returns=Int)


@contract(PE_, "ProtocolEntity._generateId")
def _generateId(self: Obj("PingIqProtocolEntity"), short: Bool) -> Str:
    modifies(ProtocolEntity._ProtocolEntity__ID_GEN)
    # called on an instance of a SUBCLASS (every entity is one): it is the counter of the base class that advances, by exactly one
    ensures(ProtocolEntity._ProtocolEntity__ID_GEN == old(ProtocolEntity._ProtocolEntity__ID_GEN) + 1)
    ensures(implies(short, result == str(ProtocolEntity._ProtocolEntity__ID_GEN)))
    ensures(implies(not short, result == str(event_result("time.time", 0)) + "-" + str(ProtocolEntity._ProtocolEntity__ID_GEN)))
