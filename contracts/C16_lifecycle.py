"""C16 - connection lifecycle.  Per-handler contracts and the state invariant of the network layer, the login
announcements of the authentication layer, the reconnect decision of the interface layer and the keep-alive
bookkeeping of the iq layer.  The history claim follows by induction over these handlers (DESIGN.md section 7)."""
from pyvc.lang import *

LAYERS = "yowsup/layers/__init__.py"
NET = "yowsup/layers/network/layer.py"
AUTH = "yowsup/layers/auth/layer_authentication.py"
IFACE = "yowsup/layers/interface/interface.py"
IQ = "yowsup/layers/protocol_iq/layer.py"

E_CONNECT = "org.openwhatsapp.yowsup.event.network.connect"
E_DISCONNECT = "org.openwhatsapp.yowsup.event.network.disconnect"
E_CONNECTED = "org.openwhatsapp.yowsup.event.network.connected"
E_DISCONNECTED = "org.openwhatsapp.yowsup.event.network.disconnected"
E_AUTH = "org.openwhatsapp.yowsup.event.auth"
E_AUTHED = "org.openwhatsapp.yowsup.event.auth.authed"

fields("YowLayerEvent", name=Str, detached=Bool, args=DictStrObj, __file__="yowsup/layers/__init__.py")
inline(LAYERS, "YowLayerEvent.__init__")
inline(LAYERS, "YowLayerEvent.getArg")
inline(LAYERS, "YowLayerEvent.getName")
event_sort("emitEvent", "obj")
event_sort("broadcastEvent", "obj")
event_sort("toUpper", "obj")
opaque(LAYERS, "YowLayer.emitEvent", event="emitEvent", raises=True)
opaque(LAYERS, "YowLayer.broadcastEvent", event="broadcastEvent", raises=True)
opaque(LAYERS, "YowLayer.toUpper", event="toUpper", raises=True)
opaque(LAYERS, "YowLayer.toLower", event="toLower", raises=True)
opaque(LAYERS, "YowLayer.getProp", event="getProp", returns=Value)

# =====================================================================================================================
# network layer: state machine
# =====================================================================================================================
fields("YowNetworkLayer", state=Int, connected=Bool, _dispatcher=Opt(Opaque("dispatcher")), _disconnect_reason=Opt(Value("reason")))
opaque(NET, "YowNetworkLayer.__create_dispatcher", event="create_dispatcher", returns=Opaque("dispatcher"))
extern("dispatcher.connect", event="dispatcher.connect", raises=True)
extern("dispatcher.disconnect", event="dispatcher.disconnect", raises=True)
extern("dispatcher.sendData", event="dispatcher.sendData", raises=True)

DISCONNECTED = 0
CONNECTING = 1
CONNECTED = 2
DISCONNECTING = 3


def net_inv(l):
    """announced-up implies the flag; the flag implies a state in which the connection exists"""
    return implies(l.state == CONNECTED, l.connected) and implies(l.connected, l.state == CONNECTED or l.state == DISCONNECTING) \
        and 0 <= l.state and l.state <= 3 and implies(l.connected, l._dispatcher is not None)


@contract(NET, "YowNetworkLayer.onConnected")
def onConnected(self: Obj("YowNetworkLayer")):
    requires(net_inv(self) and self._dispatcher is not None)      # called by the dispatcher the layer created
    modifies(self.state, self.connected)
    # announces itself once (not deferred)
    ensures(self.state == CONNECTED and self.connected and net_inv(self))
    ensures(n_events("emitEvent") == 1 and event_arg("emitEvent", 0).name == E_CONNECTED and not event_arg("emitEvent", 0).detached)
    propagates("emitEvent", ensures=self.state == CONNECTED and self.connected)


@contract(NET, "YowNetworkLayer.onDisconnected")
def onDisconnected(self: Obj("YowNetworkLayer")):
    requires(net_inv(self))
    modifies(self.state, self.connected)
    # each connection that was up (or being established / torn down) is announced as down exactly once: only on a state change
    ensures(self.state == DISCONNECTED and not self.connected and net_inv(self))
    ensures(n_events("emitEvent") == (1 if old(self.state) != DISCONNECTED else 0))
    ensures(implies(old(self.state) != DISCONNECTED, event_arg("emitEvent", 0).name == E_DISCONNECTED and event_arg("emitEvent", 0).detached
                    and contains_key(event_arg("emitEvent", 0).args, "reason")))
    propagates("emitEvent", ensures=self.state == DISCONNECTED and not self.connected)


@contract(NET, "YowNetworkLayer.onConnectionError")
def onConnectionError(self: Obj("YowNetworkLayer"), error: Opaque("error")):
    requires(net_inv(self))
    modifies(self.state, self.connected)
    ensures(self.state == DISCONNECTED and not self.connected and n_events("emitEvent") == (1 if old(self.state) != DISCONNECTED else 0))
    propagates("emitEvent", ensures=self.state == DISCONNECTED and not self.connected)


@contract(NET, "YowNetworkLayer.createConnection")
def createConnection(self: Obj("YowNetworkLayer")):
    requires(net_inv(self) and not self.connected)
    modifies(self.state, self._dispatcher, self._disconnect_reason)
    # a connect starts from reset transport state: a fresh dispatcher, no stale disconnect reason
    ensures(self.state == CONNECTING and self._disconnect_reason is None and net_inv(self))
    ensures(n_events("create_dispatcher") == 1 and same_obj(self._dispatcher, event_result("create_dispatcher", 0)))
    ensures(n_events("dispatcher.connect") == 1 and same_obj(event_arg("dispatcher.connect", 0, 0), self._dispatcher)
            and same_obj(event_arg("dispatcher.connect", 0, 1), event_result("getProp", 1)))
    propagates("dispatcher.connect", ensures=self.state == CONNECTING and net_inv(self))


@contract(NET, "YowNetworkLayer.onConnectLayerEvent")
def onConnectLayerEvent(self: Obj("YowNetworkLayer"), ev: Obj("YowLayerEvent")):
    requires(net_inv(self))
    modifies(self.state, self._dispatcher, self._disconnect_reason)
    ensures(result == True)       # the connect request is consumed by the network layer
    ensures(implies(old(self.connected), n_events("dispatcher.connect") == 0 and self.state == old(self.state)
                    and same_obj(self._dispatcher, old(self._dispatcher))))
    ensures(implies(not old(self.connected), n_events("dispatcher.connect") == 1 and self.state == CONNECTING
                    and self._disconnect_reason is None))
    ensures(net_inv(self))
    propagates("dispatcher.connect")


@contract(NET, "YowNetworkLayer.destroyConnection")
def destroyConnection(self: Obj("YowNetworkLayer"), reason: Opt(Value("reason"))):
    requires(net_inv(self) and self._dispatcher is not None)
    modifies(self.state, self._disconnect_reason)
    ensures(self.state == DISCONNECTING and same_obj(self._disconnect_reason, reason) and net_inv(self))
    ensures(n_events("dispatcher.disconnect") == 1 and same_obj(event_arg("dispatcher.disconnect", 0, 0), self._dispatcher))
    # the layer is already marked as going down, with its reason, WHEN the dispatcher is told to close: a dispatcher that reports the
    # close synchronously (asyncore: disconnect -> handle_close -> onDisconnected) must find DISCONNECTING, and nothing may overwrite
    # the state it leaves behind (a stale DISCONNECTING would let a late second close notification announce "down" twice)
    ensures(at_event("dispatcher.disconnect", 0, self.state == DISCONNECTING))
    propagates("dispatcher.disconnect")


@contract(NET, "YowNetworkLayer.onDisconnectLayerEvent")
def onDisconnectLayerEvent(self: Obj("YowNetworkLayer"), ev: Obj("YowLayerEvent")):
    # a disconnect request only arrives while a connection is up or being established (quantifier of C16)
    requires(net_inv(self) and self._dispatcher is not None)
    modifies(self.state, self._disconnect_reason)
    ensures(result == True and self.state == DISCONNECTING and n_events("dispatcher.disconnect") == 1)
    ensures(implies(contains_key(ev.args, "reason"), same_obj(self._disconnect_reason, map_get(ev.args, "reason"))))
    ensures(implies(not contains_key(ev.args, "reason"), self._disconnect_reason is None))
    propagates("dispatcher.disconnect")


@contract(NET, "YowNetworkLayer.send")
def net_send(self: Obj("YowNetworkLayer"), data: Opaque("data")):
    # nothing is ever written to a connection that is down
    requires(net_inv(self))
    ensures(n_events("dispatcher.sendData") == (1 if self.connected else 0))
    ensures(implies(self.connected, same_obj(event_arg("dispatcher.sendData", 0, 1), data)))
    propagates("dispatcher.sendData")


@contract(NET, "YowNetworkLayer.receive")
def net_receive(self: Obj("YowNetworkLayer"), data: Opaque("data")):
    ensures(n_events("toUpper") == 1 and same_obj(event_arg("toUpper", 0), data))
    propagates("toUpper")


@contract(NET, "YowNetworkLayer.onRecvData")
def onRecvData(self: Obj("YowNetworkLayer"), data: Opaque("data")):
    ensures(n_events("toUpper") == 1 and same_obj(event_arg("toUpper", 0), data))
    propagates("toUpper")


# =====================================================================================================================
# asyncore dispatcher (the default): callbacks alternate, nothing is written while down
# =====================================================================================================================
ASYN = "yowsup/layers/network/dispatcher/dispatcher_asyncore.py"
fields("AsyncoreConnectionDispatcher", _connected=Bool, connectionCallbacks=Opaque("callbacks"), out_buffer=Bytes)
extern("callbacks.onConnected", event="callbacks.onConnected", raises=True)
extern("callbacks.onDisconnected", event="callbacks.onDisconnected", raises=True)
extern("callbacks.onRecvData", event="callbacks.onRecvData", raises=True)
extern("*.close", event="asyncore.close")
extern("*.initiate_send", event="asyncore.initiate_send", raises=True)
extern("*.recv", event="asyncore.recv", returns=Bytes, raises=True)


@contract(ASYN, "AsyncoreConnectionDispatcher.handle_connect")
def handle_connect(self: Obj("AsyncoreConnectionDispatcher")):
    modifies(self._connected)
    # "connected" is reported at most once per connection
    ensures(self._connected and n_events("callbacks.onConnected") == (0 if old(self._connected) else 1))
    propagates("callbacks.onConnected", ensures=self._connected)


@contract(ASYN, "AsyncoreConnectionDispatcher.handle_close")
def handle_close(self: Obj("AsyncoreConnectionDispatcher")):
    modifies(self._connected)
    ensures(not self._connected and n_events("callbacks.onDisconnected") == 1 and n_events("asyncore.close") == 1)
    propagates("callbacks.onDisconnected", ensures=not self._connected)


@contract(ASYN, "AsyncoreConnectionDispatcher.disconnect")
def asyn_disconnect(self: Obj("AsyncoreConnectionDispatcher")):
    modifies(self._connected)
    ensures(not self._connected and n_events("callbacks.onDisconnected") == 1)
    propagates("callbacks.onDisconnected", ensures=not self._connected)


@contract(ASYN, "AsyncoreConnectionDispatcher.sendData")
def asyn_sendData(self: Obj("AsyncoreConnectionDispatcher"), data: Bytes):
    modifies(self.out_buffer)
    # bytes are queued for the socket only while the connection is up
    ensures(implies(not self._connected, self.out_buffer == old(self.out_buffer) and n_events("asyncore.initiate_send") == 0))
    ensures(implies(self._connected, self.out_buffer == old(self.out_buffer) + data and n_events("asyncore.initiate_send") == 1))
    propagates("asyncore.initiate_send")


# =====================================================================================================================
# authentication layer: connected -> one login attempt; success -> authenticated once; failure -> deliver, then close
# =====================================================================================================================
fields("YowAuthenticationProtocolLayer")
extern("yowsup.layers.auth.protocolentities.success.SuccessProtocolEntity.fromProtocolTreeNode", event="entity.fromNode", returns=Opaque("entity"), raises=True)
extern("yowsup.layers.auth.protocolentities.failure.FailureProtocolEntity.fromProtocolTreeNode", event="entity.fromNode", returns=Opaque("entity"), raises=True)


@contract(AUTH, "YowAuthenticationProtocolLayer.on_connected")
def auth_on_connected(self: Obj("YowAuthenticationProtocolLayer"), event: Obj("YowLayerEvent")):
    ensures(n_events("broadcastEvent") == 1 and event_arg("broadcastEvent", 0).name == E_AUTH
            and same_obj(map_get(event_arg("broadcastEvent", 0).args, "passive"), event_result("getProp", 0))
            and not event_arg("broadcastEvent", 0).detached)
    # the passive flag is the stack property of that name, NOT passive unless the application asked for it
    ensures(event_arg("getProp", 0, 0) == "org.openwhatsapp.yowsup.prop.auth.passive" and event_arg("getProp", 0, 1) == False)
    ensures(n_events("toUpper") == 0 and n_events("toLower") == 0)
    propagates("broadcastEvent")


opaque("yowsup/layers/auth/protocolentities/success.py", "SuccessProtocolEntity.fromProtocolTreeNode", event="entity.fromNode", returns=Opaque("entity"), raises=True)
opaque("yowsup/layers/auth/protocolentities/failure.py", "FailureProtocolEntity.fromProtocolTreeNode", event="entity.fromNode", returns=Opaque("entity"), raises=True)


@contract(AUTH, "YowAuthenticationProtocolLayer.handleSuccess")
def handleSuccess(self: Obj("YowAuthenticationProtocolLayer"), node: Opaque("node")):
    # the authenticated state is announced once (downward), then the success entity goes up
    ensures(n_events("broadcastEvent") == 1 and event_arg("broadcastEvent", 0).name == E_AUTHED)
    ensures(n_events("toUpper") == 1 and same_obj(event_arg("toUpper", 0), event_result("entity.fromNode", 0)))
    ensures(event_names() == ("getProp", "broadcastEvent", "entity.fromNode", "toUpper"))
    propagates("broadcastEvent")
    propagates("entity.fromNode")
    propagates("toUpper")


@contract(AUTH, "YowAuthenticationProtocolLayer.handleFailure")
def handleFailure(self: Obj("YowAuthenticationProtocolLayer"), node: Opaque("node")):
    # a login failure is delivered to the application and then closes the connection
    ensures(n_events("toUpper") == 1 and same_obj(event_arg("toUpper", 0), event_result("entity.fromNode", 0)))
    ensures(n_events("broadcastEvent") == 1 and event_arg("broadcastEvent", 0).name == E_DISCONNECT
            and contains_key(event_arg("broadcastEvent", 0).args, "reason"))
    ensures(event_names() == ("entity.fromNode", "toUpper", "broadcastEvent"))
    propagates("entity.fromNode")
    propagates("toUpper")
    propagates("broadcastEvent")


# =====================================================================================================================
# interface layer: stream errors, automatic reconnect
# =====================================================================================================================
fields("YowInterfaceLayer", reconnect=Bool, iqRegistry=DictStrObj("callback"), entity_callbacks=DictStrObj("handler"))
opaque(LAYERS, "YowLayer.getLayerInterface", event="getLayerInterface", returns=Opaque("netiface"))
extern("netiface.connect", event="netiface.connect", raises=True)
inline(IFACE, "YowInterfaceLayer.connect")
inline(IFACE, "YowInterfaceLayer.disconnect")
extern("streamerror.getErrorType", event="streamerror.getErrorType", returns=Opt(Str), pure=True)


@contract(IFACE, "YowInterfaceLayer.onStreamError")
def onStreamError(self: Obj("YowInterfaceLayer"), streamErrorEntity: Opaque("streamerror")):
    modifies(self.reconnect)
    # delivered to the application, then the connection is closed ...
    ensures(n_events("toUpper") == 1 and same_obj(event_arg("toUpper", 0), streamErrorEntity))
    ensures(n_events("broadcastEvent") == 1 and event_arg("broadcastEvent", 0).name == E_DISCONNECT)
    # ... and a reconnect is scheduled iff the option (default: ON) is on and the error is not a sign-in conflict
    ensures(event_arg("getProp", 0, 0) == "org.openwhatsapp.yowsup.prop.interface.reconnect_on_stream_error" and event_arg("getProp", 0, 1) == True)
    ensures(implies(truthy(event_result("getProp", 0)) and getter("streamerror.getErrorType", streamErrorEntity) != "conflict",
                    self.reconnect == True))
    ensures(implies(not (truthy(event_result("getProp", 0)) and getter("streamerror.getErrorType", streamErrorEntity) != "conflict"),
                    self.reconnect == old(self.reconnect)))
    propagates("toUpper")
    propagates("broadcastEvent")


@contract(IFACE, "YowInterfaceLayer.onConnected")
def iface_onConnected(self: Obj("YowInterfaceLayer"), yowLayerEvent: Obj("YowLayerEvent")):
    modifies(self.reconnect)
    ensures(self.reconnect == False and n_events("netiface.connect") == 0)


@contract(IFACE, "YowInterfaceLayer.onDisconnected")
def iface_onDisconnected(self: Obj("YowInterfaceLayer"), yowLayerEvent: Obj("YowLayerEvent")):
    modifies(self.reconnect)
    # a pending reconnect is consumed: exactly one connect
    ensures(self.reconnect == False and n_events("netiface.connect") == (1 if old(self.reconnect) else 0))
    propagates("netiface.connect", ensures=self.reconnect == False)


@contract(IFACE, "YowInterfaceLayer.disconnect")
def iface_disconnect(self: Obj("YowInterfaceLayer")):
    ensures(n_events("broadcastEvent") == 1 and event_arg("broadcastEvent", 0).name == E_DISCONNECT)
    propagates("broadcastEvent")


# =====================================================================================================================
# keep-alive (iq layer): thread bookkeeping; waitPong / gotPong are under contract in contracts/C12_locks.py
# =====================================================================================================================
fields("YowIqProtocolLayer", _pingQueue=DictStrObj, _pingThread=Opt(Opaque("thread")), _YowIqProtocolLayer__logger=Opaque("logger"))
extern("thread.stop", event="thread.stop")
extern("thread.start", event="thread.start")
opaque(IQ, "YowPingThread.__init__", event="YowPingThread", raises=False)


@contract(IQ, "YowIqProtocolLayer.stop_thread")
def stop_thread(self: Obj("YowIqProtocolLayer")):
    modifies(self._pingThread, self._pingQueue)
    ensures(self._pingThread is None)
    ensures(implies(old(self._pingThread) is not None, n_events("thread.stop") == 1 and len(self._pingQueue) == 0))
    ensures(implies(old(self._pingThread) is None, n_events("thread.stop") == 0 and map_eq(self._pingQueue, old(self._pingQueue))))


@contract(IQ, "YowIqProtocolLayer.onDisconnected")
def iq_onDisconnected(self: Obj("YowIqProtocolLayer"), event: Obj("YowLayerEvent")):
    modifies(self._pingThread, self._pingQueue)
    ensures(self._pingThread is None and n_events("thread.stop") == (1 if old(self._pingThread) is not None else 0))


@contract(IQ, "YowIqProtocolLayer.onDisconnect")
def iq_onDisconnect(self: Obj("YowIqProtocolLayer"), event: Obj("YowLayerEvent")):
    modifies(self._pingThread, self._pingQueue)
    ensures(self._pingThread is None and n_events("thread.stop") == (1 if old(self._pingThread) is not None else 0))


