"""C01 / C02 - stanza codec.  Contracts on encoder.py / decoder.py, leaf level first."""
from pyvc.lang import *
from spec.wabinary import *

ENC = "yowsup/layers/coder/encoder.py"
DEC = "yowsup/layers/coder/decoder.py"

fields("WriteEncoder", tokenDictionary=Opaque)
fields("ReadDecoder", tokenDictionary=Opaque)


# =====================================================================================================
# encoder: integers, list header, token
# =====================================================================================================
@contract(ENC, "WriteEncoder.writeInt8")
def writeInt8(self: Obj("WriteEncoder"), v: Int, data: ListInt):
    modifies(data)
    ensures(data == old(data) + be8(v))


@contract(ENC, "WriteEncoder.writeInt16")
def writeInt16(self: Obj("WriteEncoder"), v: Int, data: ListInt):
    modifies(data)
    ensures(data == old(data) + be16(v))


@contract(ENC, "WriteEncoder.writeInt20")
def writeInt20(self: Obj("WriteEncoder"), v: Int, data: ListInt):
    modifies(data)
    ensures(data == old(data) + be20(v))


@contract(ENC, "WriteEncoder.writeInt24")
def writeInt24(self: Obj("WriteEncoder"), v: Int, data: ListInt):
    modifies(data)
    ensures(data == old(data) + be24w(v))


@contract(ENC, "WriteEncoder.writeInt31")
def writeInt31(self: Obj("WriteEncoder"), v: Int, data: ListInt):
    modifies(data)
    ensures(data == old(data) + be31(v))


@contract(ENC, "WriteEncoder.writeListStart")
def writeListStart(self: Obj("WriteEncoder"), i: Int, data: ListInt):
    modifies(data)
    ensures(data == old(data) + enc_list_start(i))


@contract(ENC, "WriteEncoder.writeToken")
def writeToken(self: Obj("WriteEncoder"), token: Int, data: ListInt):
    modifies(data)
    raises(ValueError, when=not (0 <= token and token <= 255), ensures=data == old(data))
    ensures(data == old(data) + [token])


@contract(ENC, "WriteEncoder.packHex")
def packHex(self: Obj("WriteEncoder"), n: Int) -> Int:
    ensures(result == pk_hex(n))


@contract(ENC, "WriteEncoder.packNibble")
def packNibble(self: Obj("WriteEncoder"), n: Int) -> Int:
    ensures(result == pk_nibble(n))


@contract(ENC, "WriteEncoder.packByte")
def packByte(self: Obj("WriteEncoder"), v: Int, n2: Int) -> Int:
    ensures(result == pk(v, n2))


@lemma(assumed=True, reason="definition of the uninterpreted spec function packed_seq (a sequence with this length and "
                            "these elements exists); its executable body is checked against it natively")
def packed_seq_def(v: Int, s: SeqInt):
    ensures(len(packed_seq(v, s)) == (len(s) + 1) // 2)
    ensures(forall(range(0, (len(s) + 1) // 2), lambda k: packed_seq(v, s)[k] == packed_at(v, s, k)))
    trigger(packed_seq(v, s))


@contract(ENC, "WriteEncoder.encodeString")
def encodeString(self: Obj("WriteEncoder"), string: Str) -> ListInt:
    ensures(result == string)


@loop(ENC, "WriteEncoder.encodeString", 2)
def encodeString_loop(string, res: ListInt):
    invariant(res == string[:loop_k()])


@contract(ENC, "WriteEncoder.tryPackAndWriteHeader")
def tryPackAndWriteHeader(self: Obj("WriteEncoder"), v: Int, headerData: ListInt, data: ListInt) -> Opt(ListInt):
    requires(v == 251 or v == 255)
    modifies(data)
    ensures(implies(can_pack(v, headerData), result is not None and result == packed_seq(v, headerData)
                    and data == old(data) + pack_hdr(v, headerData)))
    ensures(implies(not can_pack(v, headerData), result is None and data == old(data)))
    ensures(headerData == old(headerData))


@loop(ENC, "WriteEncoder.tryPackAndWriteHeader", 1)
def tryPack_loop(self, v, headerData, data, size, arr: ListInt):
    invariant(len(arr) == (size + 1) // 2 and size == len(headerData) and size < 128)
    invariant(forall(range(0, loop_k()), lambda j: pk(v, headerData[j]) != -1))
    invariant(forall(range(0, len(arr)), lambda k:
                     arr[k] == (16 * pk(v, headerData[2 * k]) if 2 * k < loop_k() else 0)
                     + (pk(v, headerData[2 * k + 1]) if 2 * k + 1 < loop_k() else 0)))
    invariant(data == old(data) and headerData == old(headerData))


@contract(ENC, "WriteEncoder.writeBytes")
def writeBytes(self: Obj("WriteEncoder"), bytes_: IntSeq, data: ListInt, packed: Bool):
    modifies(data)
    ensures(data == old(data) + enc_bytes(bytes_, packed))


@loop(ENC, "WriteEncoder.writeBytes", 1)
def writeBytes_loop(bytes_, bytes__: ListInt, data):
    invariant(bytes__ == bytes_[:loop_k()] and data == old(data))


# =====================================================================================================
# decoder: integers, list size, raw arrays, unpacking
# =====================================================================================================
@contract(DEC, "ReadDecoder.readInt8")
def readInt8(self: Obj("ReadDecoder"), data: ByteArray) -> Int:
    modifies(data)
    raises(IndexError, when=len(data) < 1, ensures=data == old(data))
    ensures(result == rd8(old(data)) and data == old(data)[1:])


@contract(DEC, "ReadDecoder.readInt16")
def readInt16(self: Obj("ReadDecoder"), data: ByteArray) -> Int:
    modifies(data)
    raises(IndexError, when=len(data) < 2)
    ensures(result == rd16(old(data)) and data == old(data)[2:])


@contract(DEC, "ReadDecoder.readInt20")
def readInt20(self: Obj("ReadDecoder"), data: ByteArray) -> Int:
    modifies(data)
    raises(IndexError, when=len(data) < 3)
    ensures(result == rd20(old(data)) and data == old(data)[3:])


@contract(DEC, "ReadDecoder.readInt24")
def readInt24(self: Obj("ReadDecoder"), data: ByteArray) -> Int:
    modifies(data)
    raises(IndexError, when=len(data) < 3)
    ensures(result == rd24(old(data)) and data == old(data)[3:])


@contract(DEC, "ReadDecoder.readInt31")
def readInt31(self: Obj("ReadDecoder"), data: ByteArray) -> Int:
    modifies(data)
    raises(IndexError, when=len(data) < 4)
    ensures(result == rd31(old(data)) and data == old(data)[4:])


@contract(DEC, "ReadDecoder.readListSize")
def readListSize(self: Obj("ReadDecoder"), token: Int, data: ByteArray) -> Int:
    modifies(data)
    raises(Exception, when=not list_tag_ok(token), ensures=data == old(data))
    raises(IndexError, when=list_tag_ok(token) and len(data) < list_hdr_len(token))
    ensures(result == list_size(token, old(data)) and data == old(data)[list_hdr_len(token):])


@contract(DEC, "ReadDecoder.readArray")
def readArray(self: Obj("ReadDecoder"), length: Int, data: ByteArray) -> ByteArray:
    modifies(data)
    requires(0 <= length)
    ensures(implies(length <= len(old(data)), result == old(data)[:length] and data == old(data)[length:]))
    ensures(implies(length > len(old(data)), result == old(data) and data == []))


@contract(DEC, "ReadDecoder.isListTag")
def isListTag(self: Obj("ReadDecoder"), b: Int) -> Bool:
    ensures(result == list_tag_ok(b))


@contract(DEC, "ReadDecoder.unpackHex")
def unpackHex(self: Obj("ReadDecoder"), n: Int) -> Int:
    raises(ValueError, when=not (0 <= n and n <= 15))
    ensures(result == unpk_hex(n))


@contract(DEC, "ReadDecoder.unpackNibble")
def unpackNibble(self: Obj("ReadDecoder"), n: Int) -> Int:
    raises(ValueError, when=not (0 <= n and n <= 11))
    ensures(result == unpk_nibble(n))


@contract(DEC, "ReadDecoder.unpackByte")
def unpackByte(self: Obj("ReadDecoder"), n: Int, n2: Int) -> Int:
    raises(ValueError, when=not unpk_ok(n, n2))
    ensures(result == unpk(n, n2))


@lemma(assumed=True, reason="definition of the uninterpreted spec function dec_packed_val; its executable body is checked "
                            "against it natively")
def dec_packed_val_def(v: Int, b: SeqInt):
    requires(packed_count(b[0]) >= 0)
    ensures(len(dec_packed_val(v, b)) == packed_count(b[0]))
    ensures(forall(range(0, packed_count(b[0])), lambda j: dec_packed_val(v, b)[j] == unpk(v, nib(b[1:], j))))
    trigger(dec_packed_val(v, b))


@contract(DEC, "ReadDecoder.readPacked8")
def readPacked8(self: Obj("ReadDecoder"), n: Int, data: ByteArray) -> ListInt:
    requires((n == 251 or n == 255) and dec_packed_ok(n, data))
    modifies(data)
    ensures(result == dec_packed_val(n, old(data)) and data == old(data)[1 + old(data)[0] % 128:])


@loop(DEC, "ReadDecoder.readPacked8", 1)
def readPacked8_loop(self, n, data, text, hexData, dataSize, out: ListInt, size):
    invariant(len(out) == loop_k() or (loop_k() == dataSize and len(out) == loop_k() - 1 and n != 251
                                       and nib(text, loop_k() - 1) > 11))
    invariant(forall(range(0, len(out)), lambda j: out[j] == unpk(n, nib(text, j)) and unpk_ok(n, nib(text, j))))
    invariant(implies(loop_k() < dataSize, mention(nib(old(data)[1:], loop_k()))))
    invariant(implies(loop_k() > 0, mention(nib(text, loop_k() - 1)) and mention(nib(old(data)[1:], loop_k() - 1))))


# =====================================================================================================
# spec-level lemmas: the format's own round trip (no library code involved)
# =====================================================================================================
@lemma
def rt_int8(v: Int, rest: SeqInt):
    requires(0 <= v and v < 256)
    ensures(rd8(be8(v) + rest) == v and len(be8(v)) == 1 and is_bytes(be8(v)))


@lemma
def rt_int16(v: Int, rest: SeqInt):
    requires(0 <= v and v < 65536)
    ensures(rd16(be16(v) + rest) == v and len(be16(v)) == 2 and is_bytes(be16(v)))


@lemma
def rt_int20(v: Int, rest: SeqInt):
    requires(0 <= v and v < 1048576)
    ensures(rd20(be20(v) + rest) == v and len(be20(v)) == 3 and is_bytes(be20(v)))


@lemma
def rt_int31(v: Int, rest: SeqInt):
    requires(0 <= v and v < 2147483648)
    ensures(rd31(be31(v) + rest) == v and len(be31(v)) == 4 and is_bytes(be31(v)))


@lemma
def rt_list_start(i: Int, rest: SeqInt):
    """a list header written in the narrowest form is read back, and exactly its bytes are consumed"""
    requires(0 <= i and i < 65536)
    ensures(list_tag_ok(enc_list_start(i)[0]))
    ensures(list_size(enc_list_start(i)[0], enc_list_start(i)[1:] + rest) == i)
    ensures(len(enc_list_start(i)) == 1 + list_hdr_len(enc_list_start(i)[0]) and is_bytes(enc_list_start(i)))


@lemma
def rt_pack(v: Int, c: Int):
    requires((v == 251 or v == 255) and pk(v, c) != -1)
    ensures(unpk_ok(v, pk(v, c)) and unpk(v, pk(v, c)) == c and 0 <= pk(v, c) and pk(v, c) <= 15)
    trigger(pk(v, c))


@lemma
def nib_of_packed(v: Int, s: SeqInt, rest: SeqInt, j: Int):
    """the j-th nibble of the packed form is the code of the j-th symbol; the filler nibble is 15"""
    requires((v == 251 or v == 255) and can_pack(v, s) and 0 <= j and j < 2 * ((len(s) + 1) // 2))
    ensures(implies(j < len(s), nib(packed_seq(v, s) + rest, j) == pk(v, s[j])))
    ensures(implies(j >= len(s), nib(packed_seq(v, s) + rest, j) == 15))
    check(pk(v, s[2 * (j // 2)]) != -1)
    check(implies(2 * (j // 2) + 1 < len(s), pk(v, s[2 * (j // 2) + 1]) != -1))
    check((packed_seq(v, s) + rest)[j // 2] == packed_at(v, s, j // 2))


@lemma
def rt_packed(v: Int, s: SeqInt, rest: SeqInt):
    """a packed string written by the encoder's rule is a valid packed body and decodes to the same symbols"""
    requires((v == 251 or v == 255) and can_pack(v, s))
    ensures(dec_packed_ok(v, [pack_hdr(v, s)[1]] + (packed_seq(v, s) + rest)))
    ensures(dec_packed_val(v, [pack_hdr(v, s)[1]] + (packed_seq(v, s) + rest)) == s)
    ensures(pack_hdr(v, s)[1] % 128 == len(packed_seq(v, s)) and 0 <= pack_hdr(v, s)[1] and pack_hdr(v, s)[1] < 256)
