"""C05 - frame segmentation.  Contracts on yowsup/layers/noise/layer_noise_segments.py."""
from pyvc.lang import *
from spec.framing import *

FILE = "yowsup/layers/noise/layer_noise_segments.py"
LAYERS = "yowsup/layers/__init__.py"

fields("YowNoiseSegmentsLayer", _read_buffer=ByteArray)
opaque(LAYERS, "YowLayer.getProp", event="getProp", returns=Value)
opaque(LAYERS, "YowLayer.toUpper", event="toUpper", raises=True)
opaque(LAYERS, "YowLayer.toLower", event="toLower", raises=True)


@contract(FILE, "YowNoiseSegmentsLayer.receive")
def receive(self: Obj("YowNoiseSegmentsLayer"), data: Bytes):
    requires(wf_stream(self._read_buffer + data))
    modifies(self._read_buffer)
    # segmentation on: the frames handed upward are exactly the complete frames of (buffer ++ data),
    # the buffer keeps exactly the incomplete rest, nothing is sent downward
    ensures(implies(truthy(event_result("getProp", 0)),
                    events("toUpper") == parse_frames(old(self._read_buffer) + data)
                    and self._read_buffer == parse_rest(old(self._read_buffer) + data)
                    and incomplete(self._read_buffer)))
    # segmentation off: pass-through
    ensures(implies(not truthy(event_result("getProp", 0)),
                    events("toUpper") == [data] and self._read_buffer == old(self._read_buffer)))
    ensures(n_events("toLower") == 0 and n_events("getProp") == 1)
    # an upper layer that raises: the frame being delivered is consumed and counted, the rest stays parseable
    propagates("toUpper", ensures=implies(truthy(event_result("getProp", 0)),
               parse_frames(old(self._read_buffer) + data) == events("toUpper") + parse_frames(self._read_buffer)
               and parse_rest(old(self._read_buffer) + data) == parse_rest(self._read_buffer)))


@loop(FILE, "YowNoiseSegmentsLayer.receive", 1)
def receive_loop(self, data):
    invariant(parse_frames(old(self._read_buffer) + old(data)) == events("toUpper") + parse_frames(self._read_buffer))
    invariant(parse_rest(old(self._read_buffer) + old(data)) == parse_rest(self._read_buffer))
    invariant(n_events("toLower") == 0 and n_events("getProp") == 1)
    invariant(wf_stream(self._read_buffer))
    decreases(len(self._read_buffer))


@contract(FILE, "YowNoiseSegmentsLayer.send")
def send(self: Obj("YowNoiseSegmentsLayer"), data: Bytes):
    raises(ValueError, when=len(data) >= 16777216, ensures=n_events("toLower") == 0)
    ensures(implies(truthy(event_result("getProp", 0)), events("toLower") == [be24(len(data)), data]))
    ensures(implies(not truthy(event_result("getProp", 0)), events("toLower") == [data]))
    ensures(n_events("toUpper") == 0 and self._read_buffer == old(self._read_buffer))
    propagates("toLower")


# ---- spec-level lemmas: from the per-call contract to "every chunking of every stream" ----------------
@lemma
def parse_append(a: SeqInt, b: SeqInt):
    """parsing is compositional: feeding a then b equals feeding a ++ b"""
    requires(is_bytes(a) and is_bytes(b))
    ensures(parse_frames(a + b) == parse_frames(a) + parse_frames(parse_rest(a) + b))
    ensures(parse_rest(a + b) == parse_rest(parse_rest(a) + b))
    decreases(len(a))
    if not incomplete(a):
        use(parse_append(a[3 + hdr_len(a):], b))


@lemma
def hdr_be24(n: Int, rest: SeqInt):
    """the header written for n is read back as n"""
    requires(0 <= n and n < 16777216)
    ensures(hdr_len(be24(n) + rest) == n and len(be24(n)) == 3 and is_bytes(be24(n)))


@lemma
def roundtrip(F: SeqBytes, r: SeqInt):
    """the frames of frames_bytes(F) ++ r are F followed by the frames of r"""
    requires(frames_ok(F) and is_bytes(r))
    ensures(parse_frames(frames_bytes(F) + r) == F + parse_frames(r))
    ensures(parse_rest(frames_bytes(F) + r) == parse_rest(r))
    ensures(is_bytes(frames_bytes(F)))
    decreases(len(F))
    if len(F) > 0:
        use(roundtrip(F[1:], r))
        use(hdr_be24(len(F[0]), F[0] + (frames_bytes(F[1:]) + r)))
        check(frames_bytes(F) + r == be24(len(F[0])) + (F[0] + (frames_bytes(F[1:]) + r)))
        check(not incomplete(frames_bytes(F) + r))
        check((frames_bytes(F) + r)[3:3 + len(F[0])] == F[0])
        check((frames_bytes(F) + r)[3 + len(F[0]):] == frames_bytes(F[1:]) + r)
        check(F == [F[0]] + F[1:])


@lemma
def chunking(C: SeqBytes):
    """whatever the chunking C of a byte stream, the calls deliver exactly the frames of the stream"""
    requires(forall(range(0, len(C)), lambda i: is_bytes(C[i])))
    ensures(delivered(C) == parse_frames(concat(C)) and buf_after(C) == parse_rest(concat(C)))
    ensures(is_bytes(concat(C)))
    decreases(len(C))
    if len(C) > 0:
        use(chunking(C[:-1]))
        use(parse_append(concat(C[:-1]), C[-1]))


@lemma
def c05_receive(F: SeqBytes, C: SeqBytes):
    """C05, receive half: all sequences of non-empty frames x all partitions into chunks"""
    requires(frames_ok(F))
    requires(forall(range(0, len(C)), lambda i: is_bytes(C[i])))
    requires(concat(C) == frames_bytes(F))
    ensures(delivered(C) == F and buf_after(C) == [])
    use(chunking(C))
    use(roundtrip(F, []))


# ---- native scenario generators (replay / directed bounded search; not seen by the prover) ----------------
def _frames(rng, k, big=False):
    out = []
    for _ in range(k):
        n = rng.choice([1, 1, 2, 3, 4, 5, 17, 255, 256, 257]) if not big else rng.choice([65279, 65280, 65536, 70000])
        out.append([rng.randrange(256) for _ in range(n)])
    return out


def gen_receive(rng, n):
    """streams of non-empty frames, cut at every kind of position (inside header, inside payload, on boundaries)"""
    for it in range(n):
        frames = _frames(rng, rng.randrange(0, 4), big=(it % 50 == 49))
        stream = []
        for f in frames:
            stream += [len(f) // 65536, (len(f) // 256) % 256, len(f) % 256] + f
        # optionally an incomplete tail
        if rng.random() < 0.5:
            tail = _frames(rng, 1)[0]
            t = [len(tail) // 65536, (len(tail) // 256) % 256, len(tail) % 256] + tail
            stream += t[:rng.randrange(0, len(t))]
        cut = rng.randrange(0, len(stream) + 1)
        enabled = rng.random() < 0.9
        raises = {}
        if rng.random() < 0.15:
            raises = {'toUpper': [rng.randrange(0, 3)]}
        yield {'inputs': {'self': {'_read_buffer': stream[:cut]}, 'data': stream[cut:]},
               'opaque_results': {'getProp': [enabled]}, 'raises_at': raises}


def gen_send(rng, n):
    for it in range(n):
        ln = rng.choice([0, 1, 2, 255, 256, 65535, 65536, 70000])
        if it % 97 == 96:
            ln = rng.choice([16777215, 16777216, 16777217])
        yield {'inputs': {'self': {'_read_buffer': []}, 'data': [it % 256] * ln},
               'opaque_results': {'getProp': [rng.random() < 0.8]},
               'raises_at': {'toLower': [rng.randrange(0, 2)]} if rng.random() < 0.1 else {}}
