"""C01 / C02 stage B - strings: which wire form writeString chooses and what readString reads for each token class.  The callees
(writeToken, writeJid, writeBytes, readPacked8, readArray, ... each under its own contract in C01_codec.py / C01_tokens.py) appear as
events: the contracts pin the CHOICE and the ARGUMENTS; the composition over the recursion is decided by the bounded stand-in."""
from pyvc.lang import *

ENC = "yowsup/layers/coder/encoder.py"
DEC = "yowsup/layers/coder/decoder.py"
TD = "yowsup/layers/coder/tokendictionary.py"
fields("TokenDictionary", dictionary=SeqStr, secondaryDictionary=SeqStr)
fields("WriteEncoder", tokenDictionary=Obj("TokenDictionary"))
opaque(TD, "TokenDictionary.getIndex", event="getIndex", returns=Opt(Tup(Int, Bool)))
opaque(ENC, "WriteEncoder.writeString", event="writeString")
event_sort("writeString", "obj")
opaque(ENC, "WriteEncoder.writeToken", event="writeToken")
opaque(ENC, "WriteEncoder.writeJid", event="writeJid")
opaque(ENC, "WriteEncoder.writeBytes", event="writeBytes")
opaque(ENC, "WriteEncoder.encodeString", event="encodeString", returns=ListInt)
event_sort("writeJid", "obj")
event_sort("writeBytes", "obj")
event_sort("encodeString", "obj")


def tok(self):
    return event_result("getIndex", 0)


def has_at(tag):
    return exists(range(1, len(tag)), lambda i: tag[i] == 64)


@contract(ENC, "WriteEncoder.writeString", callees_as_events=True)
def writeString(self: Obj("WriteEncoder"), tag: Str, data: ListInt, packed: Bool):
    modifies(data)
    raises(ValueError)          # only for a secondary index beyond the four double-byte token pages (the table has 1024 entries)
    # a dictionary word (other than the three reserved entries 0..2) goes out as its token: one byte, or 236+q and r for the secondary table
    ensures(n_events("getIndex") == 1 and event_arg("getIndex", 0, 0) == tag)
    ensures(implies(tok(self) is not None and not tok(self)[1] and tok(self)[0] > 2,
                    n_events("writeToken") == 1 and event_arg("writeToken", 0, 0) == tok(self)[0] and n_events("writeJid") == 0 and n_events("writeBytes") == 0))
    ensures(implies(tok(self) is not None and tok(self)[1] and 0 <= tok(self)[0] and tok(self)[0] < 1024,
                    n_events("writeToken") == 2 and event_arg("writeToken", 0, 0) == 236 + tok(self)[0] // 256
                    and event_arg("writeToken", 1, 0) == tok(self)[0] % 256 and n_events("writeJid") == 0 and n_events("writeBytes") == 0))
    # anything else: a JID when it has an '@' after at least one character (user = before the FIRST '@', server = after it), else literal bytes
    ensures(implies(tok(self) is None or (not tok(self)[1] and tok(self)[0] <= 2), n_events("writeToken") == 0 and n_events("writeJid") + n_events("writeBytes") == 1))
    # which of the two: a JID exactly when an '@' occurs after at least one character; split at the FIRST '@'
    ensures(implies(n_events("writeJid") == 1, len(event_arg("writeJid", 0, 0)) >= 1
                    and tag == event_arg("writeJid", 0, 0) + "@" + event_arg("writeJid", 0, 1)
                    and forall(range(0, len(event_arg("writeJid", 0, 0))), lambda i: not (tag[i] == 64))))
    ensures(implies(n_events("writeBytes") == 1, n_events("encodeString") == 1 and event_arg("encodeString", 0, 0) == tag
                    and event_arg("writeBytes", 0, 2) == packed))




@contract(ENC, "WriteEncoder.writeJid", callees_as_events=True)
def writeJid(self: Obj("WriteEncoder"), user: Opt(Str), server: Str, data: ListInt):
    modifies(data)
    # JID pair marker 250, then the user part (packed when it can be; the empty-token 0 when there is none), then the server part
    ensures(implies(user is not None, n_events("writeString") == 2 and n_events("writeToken") == 0
                    and event_arg("writeString", 0, 0) == user and event_arg("writeString", 0, 2) == True
                    and event_arg("writeString", 1, 0) == server))
    ensures(implies(user is None, n_events("writeString") == 1 and n_events("writeToken") == 1 and event_arg("writeToken", 0, 0) == 0
                    and event_arg("writeString", 0, 0) == server))


# ---- decoder ----------------------------------------------------------------------------------------------------------------------
fields("ReadDecoder", tokenDictionary=Obj("TokenDictionary"))
opaque(DEC, "ReadDecoder.getToken", event="getToken", returns=Str, raises=True)
opaque(DEC, "ReadDecoder.getTokenDouble", event="getTokenDouble", returns=Str, raises=True)
opaque(DEC, "ReadDecoder.readInt8", event="readInt8", returns=Int, raises=True)
opaque(DEC, "ReadDecoder.readInt20", event="readInt20", returns=Int, raises=True)
opaque(DEC, "ReadDecoder.readInt31", event="readInt31", returns=Int, raises=True)
opaque(DEC, "ReadDecoder.readArray", event="readArray", returns=ByteArray, raises=True)
opaque(DEC, "ReadDecoder.readPacked8", event="readPacked8", returns=ListInt, raises=True)


opaque(DEC, "ReadDecoder.readString", event="readString", returns=Opt(Str), raises=True)


@contract(DEC, "ReadDecoder.readString", callees_as_events=True)
def readString(self: Obj("ReadDecoder"), token: Int, data: ByteArray) -> Opt(Str):
    raises(Exception)
    raises(IndexError)
    modifies(data)
    partial("the JID case re-enters readString for the two parts; termination (each part consumes at least its token byte) is not decided here")
    propagates("*")
    # each token class is read by exactly its reader: primary token, the empty token, double-byte token, packed, 8/20/31-bit literal
    ensures(implies(2 < token and token < 236, n_events("getToken") == 1 and event_arg("getToken", 0, 0) == token and result == event_result("getToken", 0)))
    ensures(implies(token == 0, result is None and data == old(data)))
    # a JID pair: the two parts are read one after the other; user@server, or the server alone when the user part is the empty token
    ensures(implies(token == 250, n_events("readString") == 2
                    and implies(event_result("readString", 0) is not None and event_result("readString", 1) is not None,
                                result == event_result("readString", 0) + "@" + event_result("readString", 1))
                    and implies(event_result("readString", 0) is None and event_result("readString", 1) is not None, result == event_result("readString", 1))))
    ensures(implies(236 <= token and token <= 239, n_events("getTokenDouble") == 1 and event_arg("getTokenDouble", 0, 0) == token - 236
                    and event_arg("getTokenDouble", 0, 1) == event_result("readInt8", 0) and result == event_result("getTokenDouble", 0)))
    ensures(implies(token == 251 or token == 255, n_events("readPacked8") == 1 and event_arg("readPacked8", 0, 0) == token
                    and result == event_result("readPacked8", 0)))
    ensures(implies(token == 252, n_events("readInt8") == 1 and n_events("readArray") == 1 and event_arg("readArray", 0, 0) == event_result("readInt8", 0)
                    and result == event_result("readArray", 0)))
    ensures(implies(token == 253, n_events("readInt20") == 1 and n_events("readArray") == 1 and event_arg("readArray", 0, 0) == event_result("readInt20", 0)
                    and result == event_result("readArray", 0)))
    ensures(implies(token == 254, n_events("readInt31") == 1 and n_events("readArray") == 1 and event_arg("readArray", 0, 0) == event_result("readInt31", 0)
                    and result == event_result("readArray", 0)))


# ---- frame level: the flags byte -----------------------------------------------------------------------------------------------------
opaque(DEC, "ReadDecoder.nextTreeInternal", event="nextTreeInternal", returns=Opaque("tree"), raises=True)
event_sort("nextTreeInternal", "obj")


@contract(DEC, "ReadDecoder.getProtocolTreeNode", callees_as_events=True)
def getProtocolTreeNode(self: Obj("ReadDecoder"), data: ByteArray) -> Opaque("tree"):
    requires(len(data) >= 1)
    raises(ValueError)
    raises(Exception)       # zlib.error for a corrupt stream
    # flags byte: bit 2 = the rest is a zlib stream (RFC 1950, zlib.decompress with ONE argument); the tree is read from the (inflated) rest, once, and is the result
    ensures(n_events("nextTreeInternal") == 1 and same_obj(result, event_result("nextTreeInternal", 0)))
    ensures(implies((data[0] // 2) % 2 == 0, event_arg("nextTreeInternal", 0, 0) == data[1:]))
    ensures(implies((data[0] // 2) % 2 == 1, event_arg("nextTreeInternal", 0, 0) == py_inflate(data[1:])))
    propagates("*")


# =====================================================================================================================
# stage C - trees: the shape of what writeInternal emits and what nextTreeInternal reads, callees as events
# =====================================================================================================================
PTN = "yowsup/structs/protocoltreenode.py"
fields("ProtocolTreeNode", tag=Str, attributes=DictStrStr, children=ListObj("node"), data=Opt(Bytes), __file__=PTN)
inline(PTN, "ProtocolTreeNode.hasChildren")
opaque(ENC, "WriteEncoder.writeListStart", event="writeListStart")
opaque(ENC, "WriteEncoder.writeAttributes", event="writeAttributes")
opaque(ENC, "WriteEncoder.writeInternal", event="writeInternal")
event_sort("writeInternal", "obj")
event_sort("writeAttributes", "obj")


@contract(ENC, "WriteEncoder.writeInternal", callees_as_events=True)
def writeInternal(self: Obj("WriteEncoder"), node: Obj("ProtocolTreeNode"), data: ListInt):
    modifies(data)
    partial("recursion over the children: termination is the finiteness of the tree")
    # list header first: 1 (tag) + 2 per attribute + 1 if there is content or children
    ensures(event_arg("writeListStart", 0, 0) == 1 + 2 * len(node.attributes) + (1 if len(node.children) > 0 else 0) + (1 if node.data is not None else 0))
    # then the tag, then the attributes, once each
    ensures(n_events("writeString") == 1 and event_arg("writeString", 0, 0) == node.tag and n_events("writeAttributes") == 1
            and same_obj(event_arg("writeAttributes", 0, 0), node.attributes))
    # then the content, if any, as bytes
    ensures(n_events("writeBytes") == (1 if node.data is not None else 0))
    ensures(implies(node.data is not None, event_arg("writeBytes", 0, 0) == node.data
                    and at_event("writeBytes", 0, lambda: n_events("writeAttributes") == 1 and n_events("writeListStart") == 1 and n_events("writeInternal") == 0)))
    # then the children, if any: their count as a list header and every child once, in order
    ensures(n_events("writeListStart") == (2 if len(node.children) > 0 else 1))
    ensures(implies(len(node.children) > 0, event_arg("writeListStart", 1, 0) == len(node.children)))
    ensures(n_events("writeInternal") == len(node.children)
            and forall(range(0, len(node.children)), lambda j: same_obj(event_arg("writeInternal", j, 0), node.children[j])))
    ensures(implies(len(node.children) == 0, n_events("writeInternal") == 0))


@loop(ENC, "WriteEncoder.writeInternal", 1)
def writeInternal_loop(self, node, data):
    invariant(n_events("writeInternal") == loop_k())
    invariant(forall(range(0, loop_k()), lambda j: same_obj(event_arg("writeInternal", j, 0), node.children[j])))


opaque(DEC, "ReadDecoder.readListSize", event="readListSize", returns=Int, raises=True)
opaque(DEC, "ReadDecoder.readAttributes", event="readAttributes", returns=Opaque("attrs"), raises=True)
opaque(DEC, "ReadDecoder.readList", event="readList", returns=Opaque("children"), raises=True)
inline(PTN, "ProtocolTreeNode.__init__")


@contract(DEC, "ReadDecoder.isListTag")
def isListTag_(self: Obj("ReadDecoder"), b: Int) -> Bool:
    ensures(result == (b == 248 or b == 0 or b == 249))


def size_(self):
    return event_result("readListSize", 0)


@contract(DEC, "ReadDecoder.nextTreeInternal", callees_as_events=True)
def nextTreeInternal(self: Obj("ReadDecoder"), data: ByteArray) -> Opt(Opaque("tree")):
    raises(ValueError)
    raises(AssertionError)
    modifies(data)
    partial("recursion through readList: termination is the finiteness of the frame")
    # header: list size from the first byte, then the tag token (1 = stream start marker is skipped, 2 = stream end -> no node)
    ensures(n_events("readListSize") == 1 and event_arg("readListSize", 0, 0) == event_result("readInt8", 0))
    # tag, then (size - 1) / 2 attribute pairs
    ensures(implies(result is not None, n_events("readString") >= 1 and n_events("readAttributes") == 1
                    and event_arg("readAttributes", 0, 0) == (size_(self) - 2 + size_(self) % 2) // 2))
    # odd size: no content.  even size: exactly one content item, read by the reader of its token class
    ensures(implies(result is not None and size_(self) % 2 == 1,
                    n_events("readList") == 0 and n_events("readArray") == 0 and n_events("readPacked8") == 0 and n_events("readString") == 1))
    ensures(implies(result is not None and size_(self) % 2 == 0,
                    n_events("readList") + n_events("readArray") + n_events("readPacked8") + (n_events("readString") - 1) == 1))
    propagates("*")
