"""C19 - account configuration: the save protocol (crash atomicity), profile directory creation, file naming by format,
and the load-path resolution.  The file system is not modelled as a store: every file-system call is an event, and the
contracts state the PROTOCOL of events.  Crash atomicity then is the statement that the only event that touches the
target file is one os.replace(tmp, target) that comes after the complete new text was written, flushed, fsynced and closed
in a sibling file - every prefix of that event sequence leaves the target either as it was or completely new (atomic
rename is the POSIX assumption, listed).  The text formats and the config<->dict pipeline are bounded (bounded/config_check.py)."""
from pyvc.lang import *

TOOLS = "yowsup/common/tools.py"
MGR = "yowsup/config/manager.py"

R = "file-system / path primitives of the standard library: each call is an event; path functions are pure"

TYPE_KEYVAL = 1
TYPE_JSON = 2


@spec(uninterpreted=True)
def path_join(a: SeqInt, b: SeqInt) -> SeqInt:
    pass


@spec(uninterpreted=True)
def path_ext(p: SeqInt) -> SeqInt:
    """os.path.splitext(p)[1]"""
    pass


@spec(uninterpreted=True)
def path_root(p: SeqInt) -> SeqInt:
    pass


@contract("<ext>", "os.path.join", assumed=True, pure=True, reason=R)
def os_path_join(a: Str, b: Str) -> Str:
    ensures(result == path_join(a, b))


@contract("<ext>", "os.path.splitext", assumed=True, reason=R)
def os_path_splitext(p: Str) -> Tup(Str, Str):
    ensures(result[0] == path_root(p) and result[1] == path_ext(p))


extern("os.path.isdir", event="isdir", returns=Bool)
extern("os.path.isfile", event="isfile", returns=Bool)
extern("os.makedirs", event="makedirs", raises=True)
extern("os.remove", event="remove", raises=True)
extern("os.replace", event="replace", raises=True)
extern("os.rename", event="replace", raises=True)
extern("os.fsync", event="fsync", raises=True)
extern("open", event="open", returns=Opaque("file"), raises=True)
extern("file.write", event="write", raises=True)
extern("file.flush", event="flush", raises=True)
extern("file.fileno", event="fileno", returns=Int, raises=True)
extern("file.read", event="read", returns=Str, raises=True)
extern("file.__exit__", event="close")
event_sort("open", "obj")
event_sort("write", "obj")
event_sort("replace", "obj")
event_sort("writeProfileData", "obj")



@spec(uninterpreted=True)
def storage_dir(profile: SeqInt) -> SeqInt:
    pass


@contract(TOOLS, "StorageTools.getStorageForProfile", assumed=True, pure=True,
          reason="the profile directory is a function of the profile name within one run (user_config_dir + name); it creates the "
                 "PARENT directory as a side effect, which touches no config file (validated natively by bounded/config_check.py)")
def getStorageForProfile(profile_name: Str) -> Str:
    ensures(result == storage_dir(profile_name))


opaque(TOOLS, "StorageTools.writeProfileData", event="writeProfileData", raises=True)


def target(profile_name, name):
    return path_join(storage_dir(profile_name), name)


@contract(TOOLS, "StorageTools.writeProfileData", opaque_at_calls=True)
def writeProfileData(profile_name: Str, name: Str, val: Str):
    # the protocol, in this order: [make the profile directory if it is not there], write the complete text to a sibling file,
    # flush, fsync, close, and only then rename the sibling over the target
    ensures(n_events("isdir") == 1 and event_arg("isdir", 0, 0) == storage_dir(profile_name))
    ensures(n_events("makedirs") == (0 if event_result("isdir", 0) else 1))
    ensures(implies(not event_result("isdir", 0), event_arg("makedirs", 0, 0) == storage_dir(profile_name)))
    ensures(n_events("open") == 1 and event_arg("open", 0, 0) == target(profile_name, name) + ".tmp" and event_arg("open", 0, 1) == "w")
    ensures(n_events("write") == 1 and same_obj(event_arg("write", 0, 0), event_result("open", 0)) and event_arg("write", 0, 1) == val)
    ensures(n_events("fsync") == 1 and event_arg("fsync", 0, 0) == event_result("fileno", 0))
    ensures(n_events("replace") == 1 and event_arg("replace", 0, 0) == target(profile_name, name) + ".tmp" and event_arg("replace", 0, 1) == target(profile_name, name))
    ensures(n_events("remove") == 0)
    ensures(event_names() == (("isdir", "open", "write", "flush", "fileno", "fsync", "close", "replace")
                              if event_result("isdir", 0) else
                              ("isdir", "makedirs", "open", "write", "flush", "fileno", "fsync", "close", "replace")))
    # whatever fails before the rename: the target is not touched (no rename, no removal; the only open is of the sibling)
    propagates("*", ensures=n_events("replace") <= 1 and n_events("remove") == 0 and n_events("open") <= 1
               and implies(n_events("open") == 1, event_arg("open", 0, 0) == target(profile_name, name) + ".tmp")
               and implies(n_events("replace") == 1, n_events("write") == 1 and n_events("fsync") == 1 and n_events("close") == 1))


# ---- save: file name by format, stale other-format file removed AFTER the new one is in place ---------------------------------
fields("ConfigManager")
opaque(MGR, "ConfigManager.config_to_str", event="config_to_str", returns=Str, raises=True)


@contract(MGR, "ConfigManager.save")
def save(self: Obj("ConfigManager"), profile_name: Str, config: Opaque("config"), serialize_type: Int, dest: Opt(Str)):
    requires(serialize_type == TYPE_KEYVAL or serialize_type == TYPE_JSON)
    ensures(n_events("config_to_str") == 1)
    # into the profile: one atomic write of config.<ext of the format>; a left-over config in the other format is removed,
    # after the write (a crash in between leaves both: load() then prefers config.yo, which is the old or the new one)
    ensures(implies(dest is None, n_events("writeProfileData") == 1 and n_events("open") == 0
                    and event_arg("writeProfileData", 0, 0) == profile_name
                    and event_arg("writeProfileData", 0, 1) == ("config.json" if serialize_type == TYPE_JSON else "config.yo")
                    and event_arg("writeProfileData", 0, 2) == event_result("config_to_str", 0)))
    ensures(implies(dest is None, n_events("isfile") == 1
                    and event_arg("isfile", 0, 0) == path_join(storage_dir(profile_name), "config.yo" if serialize_type == TYPE_JSON else "config.json")
                    and n_events("remove") == (1 if event_result("isfile", 0) else 0)))
    ensures(implies(dest is None and event_result("isfile", 0), event_arg("remove", 0, 0) == event_arg("isfile", 0, 0)
                    and at_event("remove", 0, lambda: n_events("writeProfileData") == 1)))
    # to an explicit path: the text is written there, in text mode
    ensures(implies(dest is not None, n_events("writeProfileData") == 0 and n_events("open") == 1 and event_arg("open", 0, 0) == dest
                    and event_arg("open", 0, 1) == "w" and n_events("write") == 1 and event_arg("write", 0, 1) == event_result("config_to_str", 0)
                    and n_events("remove") == 0))
    propagates("*", ensures=implies(n_events("remove") > 0, n_events("writeProfileData") == 1))


# ---- load: path first, then the profile directory, config.yo before config.json -------------------------------------------------
opaque(MGR, "ConfigManager._load_path", event="_load_path", returns=Opt(Opaque("config")), raises=True)


def profile_lookup_in(k, result, name, first, second):
    """the profile-directory part of load(); k = index of the _load_path call it may make"""
    return event_arg("isfile", 0, 0) == path_join(storage_dir(name), first) \
        and implies(event_result("isfile", 0),
                    n_events("isfile") == 1 and n_events("_load_path") == k + 1 and event_arg("_load_path", k, 0) == event_arg("isfile", 0, 0)
                    and same_obj(result, event_result("_load_path", k))) \
        and implies(not event_result("isfile", 0),
                    n_events("isfile") == 2 and event_arg("isfile", 1, 0) == path_join(storage_dir(name), second)
                    and implies(event_result("isfile", 1), n_events("_load_path") == k + 1 and event_arg("_load_path", k, 0) == event_arg("isfile", 1, 0)
                                and same_obj(result, event_result("_load_path", k)))
                    and implies(not event_result("isfile", 1), is_none(result) and n_events("_load_path") == k))


def profile_lookup(k, result, name):
    """either probing order is fine for the statement (after a crash between write and removal both files hold a complete config)"""
    return profile_lookup_in(k, result, name, "config.yo", "config.json") or profile_lookup_in(k, result, name, "config.json", "config.yo")


@contract(MGR, "ConfigManager.load")
def load(self: Obj("ConfigManager"), path_or_profile_name: Str, profile_only: Bool) -> Opt(Opaque("config")):
    # a readable path wins ...
    ensures(implies(not profile_only and not is_none(event_result("_load_path", 0)),
                    same_obj(result, event_result("_load_path", 0)) and n_events("_load_path") == 1 and n_events("isfile") == 0
                    and event_arg("_load_path", 0, 0) == path_or_profile_name))
    # ... otherwise the name is a profile: the first of config.yo / config.json that exists in its directory is loaded
    ensures(implies(not profile_only and is_none(event_result("_load_path", 0)),
                    profile_lookup(1, result, path_or_profile_name)))
    ensures(implies(profile_only, profile_lookup(0, result, path_or_profile_name)))
    ensures(n_events("open") == 0 and n_events("remove") == 0 and n_events("replace") == 0 and n_events("makedirs") == 0)
    propagates("*")


# ---- format detection by extension ------------------------------------------------------------------------------------------------
opaque(MGR, "ConfigManager._type_to_str", event="_type_to_str", returns=Opt(Str))
opaque("yowsup/config/transforms/dict_keyval.py", "DictKeyValTransform.reverse", event="keyval.reverse", returns=Value("dict"), raises=True)
opaque("yowsup/config/transforms/dict_json.py", "DictJsonTransform.reverse", event="json.reverse", returns=Value("dict"), raises=True)


def ext_of(p):
    """lower-cased extension without the dot ('' when there is none)"""
    return py_lower(path_ext(p)[1:] if len(path_ext(p)) >= 1 else "")


opaque(MGR, "ConfigManager.guess_type", event="guess_type", returns=Opt(Int), raises=True)


@contract(MGR, "ConfigManager.guess_type", opaque_at_calls=True)
def guess_type(self: Obj("ConfigManager"), config_path: Str) -> Opt(Int):
    # a known extension (any case) decides, without reading the file
    ensures(implies(ext_of(config_path) == "json", result == TYPE_JSON and n_events("open") == 0))
    ensures(implies(ext_of(config_path) == "yo", result == TYPE_KEYVAL and n_events("open") == 0))
    # otherwise the file is read once and the formats are tried in the fixed order key=value, JSON
    ensures(implies(ext_of(config_path) != "json" and ext_of(config_path) != "yo",
                    n_events("open") == 1 and event_arg("open", 0, 0) == config_path and event_arg("open", 0, 1) == "r"))
    ensures(implies(ext_of(config_path) != "json" and ext_of(config_path) != "yo",
                    implies(result == TYPE_KEYVAL, n_events("keyval.reverse") == 1 and n_events("json.reverse") == 0
                            and truthy(event_result("keyval.reverse", 0)) and event_arg("keyval.reverse", 0, 0) == event_result("read", 0))
                    and implies(result == TYPE_JSON, n_events("keyval.reverse") == 1 and n_events("json.reverse") == 1
                                and truthy(event_result("json.reverse", 0)) and event_arg("json.reverse", 0, 0) == event_result("read", 0))
                    and (is_none(result) or result == TYPE_KEYVAL or result == TYPE_JSON)))
    # ... and the FIRST format that parses is the answer (a successful parse is never ignored)
    ensures(implies(ext_of(config_path) != "json" and ext_of(config_path) != "yo" and n_events("keyval.reverse") >= 1
                    and not event_raised("keyval.reverse", 0) and truthy(event_result("keyval.reverse", 0)), result == TYPE_KEYVAL))
    ensures(implies(ext_of(config_path) != "json" and ext_of(config_path) != "yo" and n_events("json.reverse") >= 1
                    and not event_raised("json.reverse", 0) and truthy(event_result("json.reverse", 0)), result == TYPE_JSON))
    ensures(n_events("write") == 0 and n_events("remove") == 0 and n_events("replace") == 0)
    propagates("open")
    propagates("read")


opaque(MGR, "ConfigManager.load_data", event="load_data", returns=Opaque("config"), raises=True)


@contract(MGR, "ConfigManager._load_path", opaque_at_calls=True)
def _load_path(self: Obj("ConfigManager"), path: Str) -> Opt(Opaque("config")):
    # not a file: nothing is read, None.  A file: its format is detected, it is read once (never written), parsed with the
    # parser of THAT format and the result handed to load_data; an undetectable format is an error, not a silent None
    raises(ValueError, ensures=event_result("isfile", 0) and n_events("load_data") == 0)
    ensures(n_events("isfile") >= 1 and event_arg("isfile", 0, 0) == path)
    ensures(implies(not event_result("isfile", 0), is_none(result) and n_events("open") == 0 and n_events("load_data") == 0))
    ensures(implies(event_result("isfile", 0), n_events("load_data") == 1 and same_obj(result, event_result("load_data", 0))
                    and n_events("keyval.reverse") + n_events("json.reverse") == 1))
    ensures(implies(event_result("isfile", 0), n_events("guess_type") == 1 and event_arg("guess_type", 0, 0) == path
                    and n_events("open") == 1 and event_arg("open", 0, 0) == path and event_arg("open", 0, 1) == "r"))
    ensures(implies(event_result("isfile", 0) and event_result("guess_type", 0) == TYPE_JSON,
                    n_events("json.reverse") == 1 and n_events("keyval.reverse") == 0 and event_arg("json.reverse", 0, 0) == event_result("read", 0)
                    and same_obj(event_arg("load_data", 0, 0), event_result("json.reverse", 0))))
    ensures(implies(event_result("isfile", 0) and event_result("guess_type", 0) == TYPE_KEYVAL,
                    n_events("keyval.reverse") == 1 and n_events("json.reverse") == 0 and event_arg("keyval.reverse", 0, 0) == event_result("read", 0)
                    and same_obj(event_arg("load_data", 0, 0), event_result("keyval.reverse", 0))))
    ensures(n_events("write") == 0 and n_events("remove") == 0 and n_events("replace") == 0 and n_events("makedirs") == 0)
    propagates("*")
