"""C03 - receive side: "decrypt, strip padding, re-attach plaintext, forward once".

  * AxolotlManager.decrypt_pkmsg / decrypt_msg / group_decrypt: the ciphertext goes to the cipher of THAT sender (group: that group and
    participant) exactly once; what comes back is the cipher's plaintext with the padding stripped (v2) or as it is; the library's
    NoSession / InvalidKeyId / InvalidMessage / DuplicateMessage conditions surface as the library-independent exceptions of the SAME
    name the layer dispatches on - each one exactly when the cipher raised that one - and anything else (untrusted identity) propagates
    as it is;
  * handlePreKeyWhisperMessage / handleWhisperMessage / handleSenderKeyMessage: one decryption, of this stanza's enc payload, for its
    author; a v2 payload is parsed (sender-key distribution is processed); exactly ONE stanza goes upward and nothing downward: the
    envelope rebuilt from the parsed entity with one proto child carrying exactly the decrypted plaintext and the enc's media type;
    a group message without a session triggers one retry request instead;
  * parseAndHandleMessageProto: an empty payload is an InvalidMessage; a sender-key distribution is handed to the manager for the
    participant of this stanza, once; handleSenderKeyDistributionMessage passes group id, participant and key data unchanged;
  * onMessage: an encrypted message is decrypted, anything else goes up unchanged, once."""
from pyvc.lang import *
from contracts.C03_sendpaths import *

extern("axolotl.protocol.prekeywhispermessage.PreKeyWhisperMessage", event="PreKeyWhisperMessage", returns=Opaque("pkmsg"), raises=True)
extern("axolotl.protocol.whispermessage.WhisperMessage", event="WhisperMessage", returns=Opaque("msg"), raises=True)
PAD = "assumed contract of python-axolotl + the peer: what a session / group cipher decrypts is what the sending side encrypted, and the " \
      "sending side (this library, contracts AxolotlManager.encrypt / group_encrypt) always appends 1..255 padding bytes each equal to their count"


def padded(p):
    return len(p) >= 1 and 1 <= p[len(p) - 1] and p[len(p) - 1] <= len(p)


extern("cipher.decryptPkmsg", event="cipher.decryptPkmsg", returns=Bytes, raises=True, assume="padded", reason=PAD)
extern("cipher.decryptMsg", event="cipher.decryptMsg", returns=Bytes, raises=True, assume="padded", reason=PAD)
extern("cipher.decrypt", event="cipher.decrypt", returns=Bytes, raises=True, assume="padded", reason=PAD)


def stripped(p):
    return p[:len(p) - p[len(p) - 1]]


@contract(MGR, "AxolotlManager.decrypt_pkmsg")
def decrypt_pkmsg(self: Obj("AxolotlManager"), senderid: Str, data: Bytes, unpad: Bool) -> Bytes:
    ensures(n_events("get_session_cipher") == 1 and event_arg("get_session_cipher", 0, 0) == senderid)
    ensures(n_events("PreKeyWhisperMessage") == 1 and event_kwarg("PreKeyWhisperMessage", 0, "serialized") == data)
    ensures(n_events("cipher.decryptPkmsg") == 1 and same_obj(event_arg("cipher.decryptPkmsg", 0, 1), event_result("PreKeyWhisperMessage", 0)))
    ensures(result == (stripped(event_result("cipher.decryptPkmsg", 0)) if unpad else event_result("cipher.decryptPkmsg", 0)))
    raises(NoSessionException, may=True, ensures=event_raised_class("cipher.decryptPkmsg", 0, "NoSessionException") or event_raised_class("get_session_cipher", 0, "NoSessionException"))
    raises(InvalidKeyIdException, may=True, ensures=event_raised_class("cipher.decryptPkmsg", 0, "InvalidKeyIdException") or event_raised_class("get_session_cipher", 0, "InvalidKeyIdException"))
    raises(InvalidMessageException, may=True, ensures=event_raised_class("cipher.decryptPkmsg", 0, "InvalidMessageException") or event_raised_class("get_session_cipher", 0, "InvalidMessageException"))
    raises(DuplicateMessageException, may=True, ensures=event_raised_class("cipher.decryptPkmsg", 0, "DuplicateMessageException") or event_raised_class("get_session_cipher", 0, "DuplicateMessageException"))
    # an exception of the cipher that is none of these reaches the caller as it is (untrusted identity among them)
    propagates("cipher.decryptPkmsg", ensures=not event_raised_class("cipher.decryptPkmsg", 0, "NoSessionException") and not event_raised_class("cipher.decryptPkmsg", 0, "InvalidKeyIdException") and not event_raised_class("cipher.decryptPkmsg", 0, "InvalidMessageException") and not event_raised_class("cipher.decryptPkmsg", 0, "DuplicateMessageException"))
    propagates("get_session_cipher", ensures=not event_raised_class("get_session_cipher", 0, "NoSessionException") and not event_raised_class("get_session_cipher", 0, "InvalidKeyIdException") and not event_raised_class("get_session_cipher", 0, "InvalidMessageException") and not event_raised_class("get_session_cipher", 0, "DuplicateMessageException"))
    propagates("PreKeyWhisperMessage")


@contract(MGR, "AxolotlManager.decrypt_msg")
def decrypt_msg(self: Obj("AxolotlManager"), senderid: Str, data: Bytes, unpad: Bool) -> Bytes:
    ensures(n_events("get_session_cipher") == 1 and event_arg("get_session_cipher", 0, 0) == senderid)
    ensures(n_events("WhisperMessage") == 1 and event_kwarg("WhisperMessage", 0, "serialized") == data)
    ensures(n_events("cipher.decryptMsg") == 1 and same_obj(event_arg("cipher.decryptMsg", 0, 1), event_result("WhisperMessage", 0)))
    ensures(result == (stripped(event_result("cipher.decryptMsg", 0)) if unpad else event_result("cipher.decryptMsg", 0)))
    raises(NoSessionException, may=True, ensures=event_raised_class("cipher.decryptMsg", 0, "NoSessionException") or event_raised_class("get_session_cipher", 0, "NoSessionException"))
    raises(InvalidKeyIdException, may=True, ensures=event_raised_class("cipher.decryptMsg", 0, "InvalidKeyIdException") or event_raised_class("get_session_cipher", 0, "InvalidKeyIdException"))
    raises(InvalidMessageException, may=True, ensures=event_raised_class("cipher.decryptMsg", 0, "InvalidMessageException") or event_raised_class("get_session_cipher", 0, "InvalidMessageException"))
    raises(DuplicateMessageException, may=True, ensures=event_raised_class("cipher.decryptMsg", 0, "DuplicateMessageException") or event_raised_class("get_session_cipher", 0, "DuplicateMessageException"))
    # an exception of the cipher that is none of these reaches the caller as it is (untrusted identity among them)
    propagates("cipher.decryptMsg", ensures=not event_raised_class("cipher.decryptMsg", 0, "NoSessionException") and not event_raised_class("cipher.decryptMsg", 0, "InvalidKeyIdException") and not event_raised_class("cipher.decryptMsg", 0, "InvalidMessageException") and not event_raised_class("cipher.decryptMsg", 0, "DuplicateMessageException"))
    propagates("get_session_cipher", ensures=not event_raised_class("get_session_cipher", 0, "NoSessionException") and not event_raised_class("get_session_cipher", 0, "InvalidKeyIdException") and not event_raised_class("get_session_cipher", 0, "InvalidMessageException") and not event_raised_class("get_session_cipher", 0, "DuplicateMessageException"))
    propagates("WhisperMessage")


@contract(MGR, "AxolotlManager.group_decrypt")
def group_decrypt(self: Obj("AxolotlManager"), groupid: Str, participantid: Str, data: Bytes) -> Bytes:
    # the cipher of THIS group and THIS participant; group payloads are always padded
    ensures(n_events("get_group_cipher") == 1 and event_arg("get_group_cipher", 0, 0) == groupid and event_arg("get_group_cipher", 0, 1) == participantid)
    ensures(n_events("cipher.decrypt") == 1 and event_arg("cipher.decrypt", 0, 1) == data)
    ensures(result == stripped(event_result("cipher.decrypt", 0)))
    raises(NoSessionException, may=True, ensures=event_raised_class("cipher.decrypt", 0, "NoSessionException"))
    raises(DuplicateMessageException, may=True, ensures=event_raised_class("cipher.decrypt", 0, "DuplicateMessageException"))
    raises(InvalidMessageException, may=True, ensures=event_raised_class("cipher.decrypt", 0, "InvalidMessageException"))
    # an exception of the cipher that is none of these reaches the caller as it is (untrusted identity among them)
    propagates("cipher.decrypt", ensures=not event_raised_class("cipher.decrypt", 0, "NoSessionException") and not event_raised_class("cipher.decrypt", 0, "DuplicateMessageException") and not event_raised_class("cipher.decrypt", 0, "InvalidMessageException"))
    propagates("get_group_cipher")


# =====================================================================================================================
# the three decrypt handlers of the receive layer
# =====================================================================================================================
PROTO = "yowsup/layers/protocol_messages/protocolentities/proto.py"
extern("enc.getData", event="enc.getData", returns=Bytes, pure=True)
extern("enc.getVersion", event="enc.getVersion", returns=Int, pure=True)
extern("enc.getMediaType", event="enc.getMediaType", returns=Opt(Str), pure=True)
extern("encmsg.toProtocolTreeNode", event="encmsg.toProtocolTreeNode", returns=Opaque("outnode"), raises=True)
extern("encmsg.getFrom", event="encmsg.getFrom", returns=Str)
extern("encmsg.getParticipant", event="encmsg.getParticipant", returns=Opt(Str))
extern("outnode.addChild", event="outnode.addChild")
extern("manager.decrypt_pkmsg", event="manager.decrypt_pkmsg", returns=Bytes, raises=True)
extern("manager.decrypt_msg", event="manager.decrypt_msg", returns=Bytes, raises=True)
extern("manager.group_decrypt", event="manager.group_decrypt", returns=Bytes, raises=True)
opaque(PROTO, "ProtoProtocolEntity.__init__", event="ProtoEntity", raises=True)
opaque(PROTO, "ProtoProtocolEntity.toProtocolTreeNode", event="proto.toNode", returns=Opaque("protonode"), raises=True)
opaque(RECV, "AxolotlReceivelayer.parseAndHandleMessageProto", event="parseAndHandle", raises=True)
event_sort("manager.decrypt_pkmsg", "obj")
event_sort("manager.decrypt_msg", "obj")
event_sort("manager.group_decrypt", "obj")
event_sort("ProtoEntity", "obj")
event_sort("parseAndHandle", "obj")
event_sort("outnode.addChild", "obj")
event_sort("toUpper", "obj")


def forwarded_once_with(plaintext, enc):
    """exactly ONE stanza goes upward and nothing downward: the envelope rebuilt from the parsed entity, with one added child - the
    proto node made from exactly this plaintext and the enc's media type - attached BEFORE it is handed on"""
    return n_events("toUpper") == 1 and n_events("toLower") == 0 \
        and same_obj(event_arg("toUpper", 0), event_result("encmsg.toProtocolTreeNode", 0)) \
        and n_events("outnode.addChild") == 1 and same_obj(event_arg("outnode.addChild", 0, 0), event_result("encmsg.toProtocolTreeNode", 0)) \
        and same_obj(event_arg("outnode.addChild", 0, 1), event_result("proto.toNode", 0)) \
        and at_event("toUpper", 0, lambda: n_events("outnode.addChild") == 1) \
        and n_events("ProtoEntity") == 1 and event_arg("ProtoEntity", 0, 0) == plaintext \
        and event_arg("ProtoEntity", 0, 1) == getter("enc.getMediaType", enc)


@contract(RECV, "AxolotlReceivelayer.handlePreKeyWhisperMessage", opaque_at_calls=True)
def handlePreKeyWhisperMessage(self: Obj("AxolotlReceivelayer"), node: Obj("ProtocolTreeNode")):
    requires(self._manager is not None)
    # one decryption: of this stanza's pkmsg payload, for its author, unpadded exactly for version 2
    ensures(n_events("manager.decrypt_pkmsg") == 1 and event_arg("manager.decrypt_pkmsg", 0, 1) == event_result("encmsg.getAuthor", 0)
            and event_arg("manager.decrypt_pkmsg", 0, 2) == getter("enc.getData", event_result("encmsg.getEnc", 0))
            and event_arg("manager.decrypt_pkmsg", 0, 3) == (getter("enc.getVersion", event_result("encmsg.getEnc", 0)) == 2))
    ensures(n_events("enc.fromNode") == 1 and same_obj(event_arg("enc.fromNode", 0, 0), node))
    ensures(n_events("parseAndHandle") == (1 if getter("enc.getVersion", event_result("encmsg.getEnc", 0)) == 2 else 0))
    ensures(implies(n_events("parseAndHandle") == 1, event_arg("parseAndHandle", 0, 1) == event_result("manager.decrypt_pkmsg", 0)))
    ensures(forwarded_once_with(event_result("manager.decrypt_pkmsg", 0), event_result("encmsg.getEnc", 0)))
    propagates("*")


@contract(RECV, "AxolotlReceivelayer.handleWhisperMessage", opaque_at_calls=True)
def handleWhisperMessage(self: Obj("AxolotlReceivelayer"), node: Obj("ProtocolTreeNode")):
    requires(self._manager is not None)
    ensures(n_events("manager.decrypt_msg") == 1 and event_arg("manager.decrypt_msg", 0, 1) == event_result("encmsg.getAuthor", 0)
            and event_arg("manager.decrypt_msg", 0, 2) == getter("enc.getData", event_result("encmsg.getEnc", 0))
            and event_arg("manager.decrypt_msg", 0, 3) == (getter("enc.getVersion", event_result("encmsg.getEnc", 0)) == 2))
    ensures(n_events("enc.fromNode") == 1 and same_obj(event_arg("enc.fromNode", 0, 0), node))
    ensures(n_events("parseAndHandle") == (1 if getter("enc.getVersion", event_result("encmsg.getEnc", 0)) == 2 else 0))
    ensures(implies(n_events("parseAndHandle") == 1, event_arg("parseAndHandle", 0, 1) == event_result("manager.decrypt_msg", 0)))
    ensures(forwarded_once_with(event_result("manager.decrypt_msg", 0), event_result("encmsg.getEnc", 0)))
    propagates("*")


extern("manager.registration_id", event="manager.registration_id", returns=Int)


@contract(RECV, "AxolotlReceivelayer.handleSenderKeyMessage", opaque_at_calls=True)
def handleSenderKeyMessage(self: Obj("AxolotlReceivelayer"), node: Obj("ProtocolTreeNode")):
    requires(self._manager is not None)
    # one group decryption: this stanza's skmsg payload, for the group it came from and the participant who wrote it
    ensures(n_events("manager.group_decrypt") == 1
            and event_kwarg("manager.group_decrypt", 0, "groupid") == event_result("encmsg.getFrom", 0)
            and event_kwarg("manager.group_decrypt", 0, "participantid") == event_result("encmsg.getParticipant", 0)
            and event_kwarg("manager.group_decrypt", 0, "data") == getter("enc.getData", event_result("encmsg.getEnc", 0)))
    ensures(n_events("enc.fromNode") == 1 and same_obj(event_arg("enc.fromNode", 0, 0), node))
    # decrypted: parsed, re-attached, forwarded once.  No sender key for this participant yet (the decryption raised and the handler
    # returned): ONE retry request instead, nothing upward.  (The forwarding itself sits inside the same try block: an upper layer that
    # raised the library's NoSession condition would also trigger a retry - hence "<= 1" and not "exactly one of".)
    ensures(n_events("toUpper") <= 1 and n_events("send_retry") <= 1 and n_events("toLower") == 0)
    ensures(implies(n_events("send_retry") == 0,
                    forwarded_once_with(event_result("manager.group_decrypt", 0), event_result("encmsg.getEnc", 0))
                    and n_events("parseAndHandle") == 1 and event_arg("parseAndHandle", 0, 1) == event_result("manager.group_decrypt", 0)))
    ensures(implies(event_raised("manager.group_decrypt", 0), n_events("toUpper") == 0 and n_events("parseAndHandle") == 0 and n_events("send_retry") == 1
                    and same_obj(event_arg("send_retry", 0, 0), node) and same_obj(event_arg("send_retry", 0, 1), field(self._manager, "registration_id"))))
    propagates("*")


@contract(RECV, "AxolotlReceivelayer.onMessage", opaque_at_calls=True, callees_as_events=True)
def onMessage(self: Obj("AxolotlReceivelayer"), protocolTreeNode: Obj("ProtocolTreeNode")):
    # an encrypted message is decrypted (and forwarded from there); anything else goes up unchanged, once
    ensures(n_events("handleEncMessage") + n_events("toUpper") == 1 and n_events("toLower") == 0)
    ensures(implies(truthy(pure_child(protocolTreeNode, "enc")), n_events("handleEncMessage") == 1 and same_obj(event_arg("handleEncMessage", 0, 0), protocolTreeNode)))
    ensures(implies(not truthy(pure_child(protocolTreeNode, "enc")), n_events("toUpper") == 1 and same_obj(event_arg("toUpper", 0), protocolTreeNode)))
    propagates("*")


opaque(RECV, "AxolotlReceivelayer.handleEncMessage", event="handleEncMessage", raises=True)
event_sort("handleEncMessage", "obj")


# ---- the decrypted payload: parsed; a sender-key distribution inside it is processed for the participant of THIS stanza ------------
extern("yowsup.layers.protocol_messages.proto.e2e_pb2.Message", event="Message", returns=Opaque("pbmessage"))
extern("pbmessage.ParseFromString", event="pbmessage.ParseFromString", raises=True)
extern("pbmessage.HasField", event="pbmessage.HasField", returns=Bool)
extern("manager.group_create_session", event="manager.group_create_session", raises=True)
opaque(RECV, "AxolotlReceivelayer.handleSenderKeyDistributionMessage", event="handleSKDM", raises=True)
event_sort("handleSKDM", "obj")
event_sort("manager.group_create_session", "obj")
event_sort("pbmessage.ParseFromString", "obj")


@contract(RECV, "AxolotlReceivelayer.parseAndHandleMessageProto", opaque_at_calls=True)
def parseAndHandleMessageProto(self: Obj("AxolotlReceivelayer"), encMessageProtocolEntity: Opaque("encmsg"), serializedData: Bytes):
    raises(InvalidMessageException, when=len(serializedData) == 0)
    ensures(n_events("pbmessage.ParseFromString") == 1 and event_arg("pbmessage.ParseFromString", 0, 1) == serializedData)
    ensures(n_events("toUpper") == 0 and n_events("toLower") == 0)
    ensures(n_events("handleSKDM") == (1 if event_result("pbmessage.HasField", 0) else 0) and event_arg("pbmessage.HasField", 0, 1) == "sender_key_distribution_message")
    ensures(implies(n_events("handleSKDM") == 1,
                    same_obj(event_arg("handleSKDM", 0, 0), field(event_result("Message", 0), "sender_key_distribution_message"))
                    and event_arg("handleSKDM", 0, 1) == event_result("encmsg.getParticipant", 0)))
    propagates("*")


@contract(RECV, "AxolotlReceivelayer.handleSenderKeyDistributionMessage", opaque_at_calls=True)
def handleSenderKeyDistributionMessage(self: Obj("AxolotlReceivelayer"), senderKeyDistributionMessage: Opaque("skdmproto"), participantId: Opt(Str)):
    requires(self._manager is not None)
    # group id, participant and key material reach the manager unchanged, once
    ensures(n_events("manager.group_create_session") == 1
            and same_obj(event_kwarg("manager.group_create_session", 0, "groupid"), field(senderKeyDistributionMessage, "group_id"))
            and event_kwarg("manager.group_create_session", 0, "participantid") == participantId
            and same_obj(event_kwarg("manager.group_create_session", 0, "skmsgdata"), field(senderKeyDistributionMessage, "axolotl_sender_key_distribution_message")))
    ensures(n_events("toUpper") == 0 and n_events("toLower") == 0)
    propagates("*")
