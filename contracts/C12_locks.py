"""C12 - a failure while sending or receiving does not wedge the stack: lock balance and state frame on
EVERY exit (normal, or by any exception of the callee) of the functions that hold a lock across a call."""
from pyvc.lang import *

LAYERS = "yowsup/layers/__init__.py"
NOISE = "yowsup/layers/noise/layer.py"
IQ = "yowsup/layers/protocol_iq/layer.py"


# ---- assumed sequential model of threading.Lock ----------------------------------------------------------------
class Lock:                       # native stand-in used by the replay harness only
    def __init__(self):
        self.held = False
        self.all_blocking = True

    def acquire(self, blocking=True, timeout=-1):
        if not (blocking and timeout < 0):
            self.all_blocking = False
        if self.held:
            if blocking and timeout < 0:
                raise RuntimeError("deadlock: acquire() of a lock this thread already holds")
            return False
        self.held = True
        return True

    def release(self):
        if not self.held:
            raise RuntimeError("release unlocked lock")
        self.held = False


# held: the lock is taken.  all_blocking (ghost): every acquire so far WAITED for the lock (acquire() / acquire(True)); a try-lock
# (acquire(False) or a timeout) clears it.  The contracts below keep it true: whoever finds the lock taken waits for its turn - it
# never skips its own work because another thread is inside (the other-thread half of the statement, as far as a sequential
# contract can carry it).
fields("Lock", held=Bool, all_blocking=Bool)


@contract("<ext>", "Lock.acquire", assumed=True, reason="threading.Lock, sequential model: acquiring a held lock blocks forever")
def acquire(self: Obj("Lock"), blocking: Bool = True, timeout: Int = -1) -> Bool:
    requires(implies(blocking and timeout < 0, not self.held))
    modifies(self.held, self.all_blocking)
    ensures(self.held and result == (not old(self.held)))
    ensures(self.all_blocking == (old(self.all_blocking) and blocking and timeout < 0))


@contract("<ext>", "Lock.release", assumed=True, reason="threading.Lock, sequential model")
def release(self: Obj("Lock")):
    requires(self.held)
    modifies(self.held)
    ensures(not self.held)


# ---- YowLayer.toLower --------------------------------------------------------------------------------------------
fields("YowLayer", _YowLayer__lower=Opt(Opaque("lower")), _YowLayer__upper=Opt(Opaque("upper")), lock=Obj("Lock"))
extern("lower.send", event="lower.send", raises=True)


@contract(LAYERS, "YowLayer.toLower")
def toLower(self: Obj("YowLayer"), data: Opaque):
    requires(not self.lock.held and self.lock.all_blocking)
    ensures(not self.lock.held and self.lock.all_blocking)
    ensures(n_events("lower.send") <= 1 and implies(is_none(self._YowLayer__lower), n_events("lower.send") == 0))
    # with a layer below: the data goes to it, exactly once, unchanged
    ensures(implies(not is_none(self._YowLayer__lower), n_events("lower.send") == 1 and same_obj(event_arg("lower.send", 0, 1), data)))
    # whatever the layer below raises reaches the caller, and the lock is free again
    propagates("lower.send", ensures=not self.lock.held and n_events("lower.send") == 1)


# ---- YowNoiseLayer._flush_incoming_buffer ---------------------------------------------------------------------
fields("YowNoiseLayer", _flush_lock=Obj("Lock"), _incoming_segments_queue=Opaque("queue"), _wa_noiseprotocol=Opaque("noise"),
       _YowLayer__upper=Opt(Opaque("upper")), lock=Obj("Lock"))
opaque(LAYERS, "YowLayer.toUpper", event="toUpper", raises=True)
extern("queue.qsize", event="queue.qsize", returns=Int)
extern("queue.empty", event="queue.empty", returns=Bool)
extern("noise.receive", event="noise.receive", raises=True, returns=Opaque)


opaque(NOISE, "YowNoiseLayer._flush_incoming_buffer", event="flush", raises=True)


@contract(NOISE, "YowNoiseLayer._flush_incoming_buffer", opaque_at_calls=True)
def _flush_incoming_buffer(self: Obj("YowNoiseLayer")):
    requires(not self._flush_lock.held and self._flush_lock.all_blocking)
    ensures(not self._flush_lock.held and self._flush_lock.all_blocking)
    propagates("toUpper", ensures=not self._flush_lock.held and self._flush_lock.all_blocking)
    propagates("noise.receive", ensures=not self._flush_lock.held and self._flush_lock.all_blocking)


@loop(NOISE, "YowNoiseLayer._flush_incoming_buffer", 1)
def flush_loop(self):
    invariant(self._flush_lock.held)
    partial("the loop runs while the segment queue is non-empty; queue.Queue is opaque, so termination is not decided")


# ---- keep-alive bookkeeping ---------------------------------------------------------------------------------------
fields("YowIqProtocolLayer", _pingQueue=DictStrObj, _pingQueueLock=Obj("Lock"), _YowIqProtocolLayer__logger=Opaque("logger"),
       _pingThread=Opt(Opaque("thread")))
opaque(LAYERS, "YowLayer.getStack", event="getStack", returns=Opaque("stack"))
extern("stack.broadcastEvent", event="stack.broadcastEvent", raises=True)
inline(LAYERS, "YowLayerEvent.__init__")


@contract(IQ, "YowIqProtocolLayer.gotPong")
def gotPong(self: Obj("YowIqProtocolLayer"), pingId: Str):
    requires(not self._pingQueueLock.held)
    modifies(self._pingQueue)
    ensures(not self._pingQueueLock.held)
    ensures(implies(contains_key(old(self._pingQueue), pingId), len(self._pingQueue) == 0))
    ensures(implies(not contains_key(old(self._pingQueue), pingId), map_eq(self._pingQueue, old(self._pingQueue))))


@contract(IQ, "YowIqProtocolLayer.waitPong")
def waitPong(self: Obj("YowIqProtocolLayer"), id: Str):
    requires(not self._pingQueueLock.held)
    modifies(self._pingQueue)
    ensures(not self._pingQueueLock.held)
    ensures(contains_key(self._pingQueue, id))
    ensures(len(self._pingQueue) == len(old(self._pingQueue)) + (0 if contains_key(old(self._pingQueue), id) else 1))
    # the keep-alive closes the connection exactly when a ping is still unanswered while the next one is due
    ensures(n_events("stack.broadcastEvent") == (1 if len(self._pingQueue) >= 2 else 0))
    propagates("stack.broadcastEvent", ensures=not self._pingQueueLock.held)


# ---- native scenario generators -----------------------------------------------------------------------------------
def gen_toLower(rng, n):
    for i in range(min(n, 40)):
        lower = None if i % 5 == 0 else {'$opaque': 'lower'}
        yield {'inputs': {'self': {'_YowLayer__lower': lower, '_YowLayer__upper': None, 'lock': {'held': False, 'all_blocking': True}}, 'data': b'x'},
               'raises_at': {'lower.send': [0]} if i % 2 else {}}


def gen__flush_incoming_buffer(rng, n):
    for i in range(min(n, 60)):
        k = rng.randrange(0, 4)
        sizes = list(range(k, -1, -1))
        yield {'inputs': {'self': {'_flush_lock': {'held': False, 'all_blocking': True}, '_incoming_segments_queue': {'$opaque': 'queue'},
                                   '_wa_noiseprotocol': {'$opaque': 'noise'}, '_YowLayer__upper': None, 'lock': {'held': False, 'all_blocking': True}}},
               'opaque_results': {'queue.qsize': sizes},
               'raises_at': rng.choice([{}, {'toUpper': [rng.randrange(0, 3)]}, {'noise.receive': [rng.randrange(0, 3)]}])}


def gen_gotPong(rng, n):
    for i in range(min(n, 40)):
        q = [(str(j), None) for j in range(rng.randrange(0, 3))]
        yield {'inputs': {'self': {'_pingQueue': q, '_pingQueueLock': {'held': False, 'all_blocking': True}, '_YowIqProtocolLayer__logger': {'$opaque': 'logger'},
                                   '_pingThread': None}, 'pingId': str(rng.randrange(0, 3))}}


def gen_waitPong(rng, n):
    for i in range(min(n, 40)):
        q = [(str(j), None) for j in range(rng.randrange(0, 3))]
        yield {'inputs': {'self': {'_pingQueue': q, '_pingQueueLock': {'held': False, 'all_blocking': True}, '_YowIqProtocolLayer__logger': {'$opaque': 'logger'},
                                   '_pingThread': None}, 'id': str(rng.randrange(0, 4))},
               'opaque_results': {'getStack': [{'$opaque': 'stack'}]}}
