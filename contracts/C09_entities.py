"""C09 - entities <-> stanzas.  Only the simplest classes are under discharged obligations here: the parser and the serialiser of
the REAL class are executed symbolically on a symbolic stanza of the documented shape, and every documented attribute must come
back with the same value (scenarios).  All other classes are exercised by the bounded stand-in only (bounded/entity_check.py)."""
from pyvc.lang import *

PTN = "yowsup/structs/protocoltreenode.py"
fields("ProtocolTreeNode", tag=Str, attributes=DictStrStr, children=Opaque("children"), data=Opt(Bytes), __file__=PTN)


def same_attr(m, n, k):
    return attr(m, k) == attr(n, k)


@scenario
def incoming_ack_roundtrip(n: Obj("ProtocolTreeNode")):
    """<ack t= from= id= class=/>: every documented attribute survives stanza -> IncomingAckProtocolEntity -> stanza"""
    requires(n.tag == "ack")
    e = IncomingAckProtocolEntity.fromProtocolTreeNode(n)
    m = e.toProtocolTreeNode()
    ensures(m.tag == "ack" and m.data is None)
    ensures(same_attr(m, n, "id") and same_attr(m, n, "class") and same_attr(m, n, "from") and same_attr(m, n, "t"))
    ensures(attr(m, "type") is None and attr(m, "to") is None and attr(m, "participant") is None)      # nothing is invented


@scenario
def outgoing_ack_roundtrip(n: Obj("ProtocolTreeNode")):
    """<ack id= class= [type=] to= [participant=]/>"""
    requires(n.tag == "ack")
    # an absent optional attribute stays absent; an EMPTY type / participant is indistinguishable from an absent one on this path
    requires(implies(attr(n, "type") is not None, len(attr(n, "type")) > 0) and implies(attr(n, "participant") is not None, len(attr(n, "participant")) > 0))
    e = OutgoingAckProtocolEntity.fromProtocolTreeNode(n)
    m = e.toProtocolTreeNode()
    ensures(m.tag == "ack" and m.data is None)
    ensures(same_attr(m, n, "id") and same_attr(m, n, "class") and same_attr(m, n, "to") and same_attr(m, n, "type") and same_attr(m, n, "participant"))
    ensures(attr(m, "from") is None and attr(m, "t") is None)


@scenario
def presence_roundtrip(n: Obj("ProtocolTreeNode")):
    """<presence [type=] [name=] [from=] [last=]/>"""
    requires(n.tag == "presence")
    requires(implies(attr(n, "type") is not None, len(attr(n, "type")) > 0) and implies(attr(n, "name") is not None, len(attr(n, "name")) > 0)
             and implies(attr(n, "from") is not None, len(attr(n, "from")) > 0) and implies(attr(n, "last") is not None, len(attr(n, "last")) > 0))
    e = PresenceProtocolEntity.fromProtocolTreeNode(n)
    m = e.toProtocolTreeNode()
    ensures(m.tag == "presence" and m.data is None)
    ensures(same_attr(m, n, "type") and same_attr(m, n, "name") and same_attr(m, n, "from") and same_attr(m, n, "last"))


def is_iq_type(v):
    return v is not None and (v == "set" or v == "get" or v == "error" or v == "result")


def nonempty_if_present(n, k):
    return implies(attr(n, k) is not None, len(attr(n, k)) > 0)


@scenario
def iq_roundtrip(n: Obj("ProtocolTreeNode")):
    """<iq id= type=(set|get|error|result) [xmlns=] [to= | from=]/>: the base class of every iq entity"""
    requires(n.tag == "iq" and attr(n, "id") is not None and is_iq_type(attr(n, "type")))
    requires(attr(n, "to") is None or attr(n, "from") is None)          # documented: never both
    requires(nonempty_if_present(n, "xmlns") and nonempty_if_present(n, "to") and nonempty_if_present(n, "from"))
    e = IqProtocolEntity.fromProtocolTreeNode(n)
    m = e.toProtocolTreeNode()
    ensures(m.tag == "iq" and m.data is None)
    ensures(same_attr(m, n, "id") and same_attr(m, n, "type") and same_attr(m, n, "xmlns") and same_attr(m, n, "to") and same_attr(m, n, "from"))
