"""C09 (part b) - notification / ib entities <-> stanzas: stanza of the documented shape -> entity -> stanza, real classes executed
symbolically, every documented attribute must come back with the same value.

Numeric attributes (t, after, timestamp): the code keeps int(x) and writes str(int(x)).  The documented value is a timestamp / count, read
here as "the decimal rendering str(v) of some integer v" (ghost parameter of the scenario); for such values the round trip is decided
(int(str(v)) == v).  A non-canonical numeral ("007", " 7") is outside the documented shape: it would come back as "7".

attr(node, k) cannot tell an absent attribute from a key whose value is None.  NotificationProtocolEntity.toProtocolTreeNode always writes
the six keys t / from / offline / type / id / notify: an attribute that was absent in the input comes back as a key with the value None
(offline: as "0").  The scenarios therefore require the documented attributes to be present.

NOT in this file (see the report of the assignment c09b):
 * CreateGroupsNotificationProtocolEntity - finding: <group s_t=> comes back as an int, not a string; (engine: path limit exceeded as well).
Still to be read with care:
 * AccountIbProtocolEntity writes creation / expiration as ints (int(self.creation)), not as strings: account_ib_roundtrip claims them by value.
History: Groups / SubjectGroups were out of reach until the engine supported `super(C, C).m(...)`; RemoveGroups (mode lost), OfflineIb (from lost)
and AccountIb (fromProtocolTreeNode returned None) were findings of the first pass, fixed in /repo since (300b729, 13c1ec8), now under scenarios."""
from pyvc.lang import *
from contracts.C09_entities import *


@contract("yowsup/structs/protocoltreenode.py", "ProtocolTreeNode.getChild", assumed=True, pure=True,
          reason="first child with that tag, or None: a pure function of the node")
def getChild(self: Obj("ProtocolTreeNode"), identifier: Str) -> Opt(Obj("ProtocolTreeNode")):
    pass


def present(n, k):
    return attr(n, k) is not None


def is_number(n, k, v):
    """attribute k is there and is a timestamp / count, i.e. the decimal rendering str(v) of an integer v (the code keeps int(.) of it and
    writes str(.) of that; v is a ghost parameter of the scenario, arbitrary)"""
    return present(n, k) and attr(n, k) == str(v)


def notification_head(n, t):
    """<notification id= type= t= from=>: what every documented notification carries"""
    return n.tag == "notification" and present(n, "id") and present(n, "from") and present(n, "type") and is_number(n, "t", t)


def is_flag(n, k):
    return present(n, k) and (attr(n, k) == "0" or attr(n, k) == "1")


def notification_shape(n, t):
    """<notification offline=(0|1) id= notify= type= t= from=>: the six documented attributes are there, offline is the documented flag"""
    return notification_head(n, t) and present(n, "notify") and is_flag(n, "offline")


def same_notification_attrs(m, n):
    return m.tag == "notification" and m.data is None and same_attr(m, n, "id") and same_attr(m, n, "type") and same_attr(m, n, "from") \
        and same_attr(m, n, "notify") and same_attr(m, n, "offline") and same_attr(m, n, "t")


def same_child_attr(m, i, n, tag, k):
    """attribute k of the i-th child of the OUTPUT equals attribute k of the INPUT's child <tag>"""
    return attr(child(m, i), k) == attr(pure_child(n, tag), k)


@scenario
def notification_roundtrip(n: Obj("ProtocolTreeNode"), t: Int):
    """<notification offline=(0|1) id= notify= type= t= from=/>"""
    requires(notification_shape(n, t))
    e = NotificationProtocolEntity.fromProtocolTreeNode(n)
    m = e.toProtocolTreeNode()
    ensures(same_notification_attrs(m, n))
    ensures(attr(m, "participant") is None and attr(m, "to") is None)      # nothing is invented
    ensures(n_children(m) == 0)


@scenario
def picture_notification_roundtrip(n: Obj("ProtocolTreeNode"), t: Int):
    """<notification type="picture" .../>"""
    requires(notification_shape(n, t) and attr(n, "type") == "picture")
    e = PictureNotificationProtocolEntity.fromProtocolTreeNode(n)
    m = e.toProtocolTreeNode()
    ensures(same_notification_attrs(m, n))
    ensures(attr(m, "participant") is None and attr(m, "to") is None)
    ensures(n_children(m) == 0)


@scenario
def set_picture_notification_roundtrip(n: Obj("ProtocolTreeNode"), t: Int):
    """<notification type="picture" ...><set jid= id=/></notification>"""
    requires(notification_shape(n, t) and attr(n, "type") == "picture")
    requires(pure_child(n, "set") is not None and present(pure_child(n, "set"), "jid") and present(pure_child(n, "set"), "id"))
    e = SetPictureNotificationProtocolEntity.fromProtocolTreeNode(n)
    m = e.toProtocolTreeNode()
    ensures(same_notification_attrs(m, n))
    ensures(n_children(m) == 1 and child(m, 0).tag == "set" and child(m, 0).data is None and n_children(child(m, 0)) == 0)
    ensures(same_child_attr(m, 0, n, "set", "jid") and same_child_attr(m, 0, n, "set", "id"))
    ensures(attr(child(m, 0), "type") is None)


@scenario
def delete_picture_notification_roundtrip(n: Obj("ProtocolTreeNode"), t: Int):
    """<notification type="picture" ...><delete jid=/></notification>"""
    requires(notification_shape(n, t) and attr(n, "type") == "picture")
    requires(pure_child(n, "delete") is not None and present(pure_child(n, "delete"), "jid"))
    e = DeletePictureNotificationProtocolEntity.fromProtocolTreeNode(n)
    m = e.toProtocolTreeNode()
    ensures(same_notification_attrs(m, n))
    ensures(n_children(m) == 1 and child(m, 0).tag == "delete" and child(m, 0).data is None and n_children(child(m, 0)) == 0)
    ensures(same_child_attr(m, 0, n, "delete", "jid"))
    ensures(attr(child(m, 0), "id") is None)


@scenario
def status_notification_roundtrip(n: Obj("ProtocolTreeNode"), t: Int):
    """<notification type="status" ...><set>STATUS</set></notification>"""
    requires(notification_shape(n, t) and attr(n, "type") == "status")
    requires(pure_child(n, "set") is not None)
    e = StatusNotificationProtocolEntity.fromProtocolTreeNode(n)
    m = e.toProtocolTreeNode()
    ensures(same_notification_attrs(m, n))
    ensures(n_children(m) == 1 and child(m, 0).tag == "set" and n_children(child(m, 0)) == 0)
    ensures(child(m, 0).data == pure_child(n, "set").data)
    ensures(attr(child(m, 0), "jid") is None and attr(child(m, 0), "id") is None)


# ---- protocol_contacts ----------------------------------------------------------------------------------------------
@scenario
def contact_notification_roundtrip(n: Obj("ProtocolTreeNode"), t: Int):
    """<notification type="contacts" .../>"""
    requires(notification_shape(n, t) and attr(n, "type") == "contacts")
    e = ContactNotificationProtocolEntity.fromProtocolTreeNode(n)
    m = e.toProtocolTreeNode()
    ensures(same_notification_attrs(m, n))
    ensures(attr(m, "participant") is None and attr(m, "to") is None)
    ensures(n_children(m) == 0)


@scenario
def add_contact_notification_roundtrip(n: Obj("ProtocolTreeNode"), t: Int):
    """<notification type="contacts" ...><add jid=/></notification>"""
    requires(notification_shape(n, t) and attr(n, "type") == "contacts")
    requires(pure_child(n, "add") is not None and present(pure_child(n, "add"), "jid"))
    e = AddContactNotificationProtocolEntity.fromProtocolTreeNode(n)
    m = e.toProtocolTreeNode()
    ensures(same_notification_attrs(m, n))
    ensures(n_children(m) == 1 and child(m, 0).tag == "add" and child(m, 0).data is None and n_children(child(m, 0)) == 0)
    ensures(same_child_attr(m, 0, n, "add", "jid"))
    ensures(attr(child(m, 0), "id") is None)


@scenario
def remove_contact_notification_roundtrip(n: Obj("ProtocolTreeNode"), t: Int):
    """<notification type="contacts" ...><remove jid=/></notification>"""
    requires(notification_shape(n, t) and attr(n, "type") == "contacts")
    requires(pure_child(n, "remove") is not None and present(pure_child(n, "remove"), "jid"))
    e = RemoveContactNotificationProtocolEntity.fromProtocolTreeNode(n)
    m = e.toProtocolTreeNode()
    ensures(same_notification_attrs(m, n))
    ensures(n_children(m) == 1 and child(m, 0).tag == "remove" and child(m, 0).data is None and n_children(child(m, 0)) == 0)
    ensures(same_child_attr(m, 0, n, "remove", "jid"))
    ensures(attr(child(m, 0), "id") is None)


@scenario
def update_contact_notification_roundtrip(n: Obj("ProtocolTreeNode"), t: Int):
    """<notification type="contacts" ...><update jid=/></notification>"""
    requires(notification_shape(n, t) and attr(n, "type") == "contacts")
    requires(pure_child(n, "update") is not None and present(pure_child(n, "update"), "jid"))
    e = UpdateContactNotificationProtocolEntity.fromProtocolTreeNode(n)
    m = e.toProtocolTreeNode()
    ensures(same_notification_attrs(m, n))
    ensures(n_children(m) == 1 and child(m, 0).tag == "update" and child(m, 0).data is None and n_children(child(m, 0)) == 0)
    ensures(same_child_attr(m, 0, n, "update", "jid"))
    ensures(attr(child(m, 0), "id") is None)


@scenario
def contacts_sync_notification_roundtrip(n: Obj("ProtocolTreeNode"), t: Int, after: Int):
    """<notification from= t= offline=(0|1) type="contacts" id=><sync after=/></notification>
    The documented stanza has no notify attribute: it is left arbitrary here (present or absent).  attr() cannot tell an absent attribute
    from one whose value is None: when notify is absent the serialiser writes the key notify with the value None (reported, not hidden)."""
    requires(notification_head(n, t) and is_flag(n, "offline") and attr(n, "type") == "contacts")
    requires(pure_child(n, "sync") is not None and is_number(pure_child(n, "sync"), "after", after))
    e = ContactsSyncNotificationProtocolEntity.fromProtocolTreeNode(n)
    m = e.toProtocolTreeNode()
    ensures(same_notification_attrs(m, n))
    ensures(n_children(m) == 1 and child(m, 0).tag == "sync" and child(m, 0).data is None and n_children(child(m, 0)) == 0)
    ensures(same_child_attr(m, 0, n, "sync", "after"))
    ensures(attr(child(m, 0), "jid") is None)


# ---- protocol_groups ------------------------------------------------------------------------------------------------
def group_notification_shape(n, t):
    """<notification notify= id= t= participant= from= type="w:gp2">.  The documented stanza has no offline attribute: it is left arbitrary
    (present with any value, or absent)."""
    return notification_head(n, t) and present(n, "notify") and present(n, "participant") and attr(n, "type") == "w:gp2"


def same_group_notification_attrs(m, n):
    """the six documented attributes come back.  offline: kept when it is the flag 0 / 1; when it is ABSENT (the documented shape) the
    serialiser invents offline="0" (reported, not hidden; no documented attribute is touched by that)"""
    return m.tag == "notification" and m.data is None and same_attr(m, n, "id") and same_attr(m, n, "type") and same_attr(m, n, "from") \
        and same_attr(m, n, "notify") and same_attr(m, n, "t") and same_attr(m, n, "participant") \
        and implies(is_flag(n, "offline"), same_attr(m, n, "offline"))


@scenario
def groups_notification_roundtrip(n: Obj("ProtocolTreeNode"), t: Int):
    """<notification notify= id= t= participant= from= type="w:gp2"/>"""
    requires(group_notification_shape(n, t))
    e = GroupsNotificationProtocolEntity.fromProtocolTreeNode(n)
    m = e.toProtocolTreeNode()
    ensures(same_group_notification_attrs(m, n))
    ensures(attr(m, "to") is None and attr(m, "mode") is None)
    ensures(n_children(m) == 0)


@scenario
def subject_groups_notification_roundtrip(n: Obj("ProtocolTreeNode"), t: Int, s_t: Int):
    """<notification ... type="w:gp2"><subject s_t= s_o= subject=/></notification>"""
    requires(group_notification_shape(n, t))
    requires(pure_child(n, "subject") is not None and is_number(pure_child(n, "subject"), "s_t", s_t)
             and present(pure_child(n, "subject"), "s_o") and present(pure_child(n, "subject"), "subject"))
    e = SubjectGroupsNotificationProtocolEntity.fromProtocolTreeNode(n)
    m = e.toProtocolTreeNode()
    ensures(same_group_notification_attrs(m, n))
    ensures(attr(m, "mode") is None)
    ensures(n_children(m) == 1 and child(m, 0).tag == "subject" and child(m, 0).data is None and n_children(child(m, 0)) == 0)
    ensures(same_child_attr(m, 0, n, "subject", "s_t") and same_child_attr(m, 0, n, "subject", "s_o") and same_child_attr(m, 0, n, "subject", "subject"))
    ensures(attr(child(m, 0), "jid") is None)


# the participant lists: ProtocolTreeNode.getAllChildren(tag) loops over the (opaque) child list of the INPUT stanza.  It is not executed here:
# it is an event whose result is a list of exactly TWO arbitrary nodes (bounded in the NUMBER of participants only, their attributes are
# arbitrary); the scenarios check on which node and with which tag it is asked, and compare the output with the two nodes it returned.
opaque(PTN, "ProtocolTreeNode.getAllChildren", event="getAllChildren", returns=ListOf(Obj("ProtocolTreeNode"), 2))


def in_participant(k):
    """the k-th <participant> of the input stanza, as returned by getAllChildren("participant")"""
    return event_result("getAllChildren", 0)[k]


def asked_participants_of(c):
    """the parser asked exactly once, the node c, for its children tagged participant"""
    return n_events("getAllChildren") == 1 and same_obj(event_self("getAllChildren", 0), c) and event_arg("getAllChildren", 0, 0) == "participant"


@scenario
def add_groups_notification_roundtrip(n: Obj("ProtocolTreeNode"), t: Int):
    """<notification ... type="w:gp2"><add><participant jid=/><participant jid=/></add></notification>"""
    requires(group_notification_shape(n, t))
    requires(pure_child(n, "add") is not None)
    e = AddGroupsNotificationProtocolEntity.fromProtocolTreeNode(n)
    m = e.toProtocolTreeNode()
    ensures(asked_participants_of(pure_child(n, "add")))
    ensures(same_group_notification_attrs(m, n))
    ensures(n_children(m) == 1 and child(m, 0).tag == "add" and child(m, 0).data is None and n_children(child(m, 0)) == 2)
    ensures(child(child(m, 0), 0).tag == "participant" and child(child(m, 0), 1).tag == "participant")
    ensures(attr(child(child(m, 0), 0), "jid") == attr(in_participant(0), "jid") and attr(child(child(m, 0), 1), "jid") == attr(in_participant(1), "jid"))


@scenario
def remove_groups_notification_roundtrip(n: Obj("ProtocolTreeNode"), t: Int):
    """<notification ... type="w:gp2" [mode=]><remove subject=><participant jid=/><participant jid=/></remove></notification>
    mode: documented as mode="none"; left arbitrary here (present with any value, or absent) - it comes back as it was, an absent one stays absent"""
    requires(group_notification_shape(n, t))
    requires(pure_child(n, "remove") is not None and present(pure_child(n, "remove"), "subject"))
    e = RemoveGroupsNotificationProtocolEntity.fromProtocolTreeNode(n)
    m = e.toProtocolTreeNode()
    ensures(asked_participants_of(pure_child(n, "remove")))
    ensures(same_group_notification_attrs(m, n))
    ensures(same_attr(m, n, "mode"))
    ensures(implies(attr(n, "mode") is None, not contains_key(m.attributes, "mode")) and implies(attr(n, "mode") == "none", attr(m, "mode") == "none"))
    ensures(n_children(m) == 1 and child(m, 0).tag == "remove" and child(m, 0).data is None and n_children(child(m, 0)) == 2)
    ensures(same_child_attr(m, 0, n, "remove", "subject"))
    ensures(child(child(m, 0), 0).tag == "participant" and child(child(m, 0), 1).tag == "participant")
    ensures(attr(child(child(m, 0), 0), "jid") == attr(in_participant(0), "jid") and attr(child(child(m, 0), 1), "jid") == attr(in_participant(1), "jid"))


# ---- protocol_ib ----------------------------------------------------------------------------------------------------
@scenario
def ib_roundtrip(n: Obj("ProtocolTreeNode")):
    """<ib></ib>"""
    requires(n.tag == "ib")
    e = IbProtocolEntity.fromProtocolTreeNode(n)
    m = e.toProtocolTreeNode()
    ensures(m.tag == "ib" and m.data is None and n_children(m) == 0)
    ensures(same_attr(m, n, "from") and attr(m, "id") is None)         # (from: kept since the fix 13c1ec8)


@scenario
def dirty_ib_roundtrip(n: Obj("ProtocolTreeNode"), ts: Int):
    """<ib><dirty type= timestamp=/></ib>"""
    requires(n.tag == "ib")
    requires(pure_child(n, "dirty") is not None and present(pure_child(n, "dirty"), "type") and is_number(pure_child(n, "dirty"), "timestamp", ts))
    e = DirtyIbProtocolEntity.fromProtocolTreeNode(n)
    m = e.toProtocolTreeNode()
    ensures(m.tag == "ib" and m.data is None)
    ensures(n_children(m) == 1 and child(m, 0).tag == "dirty" and child(m, 0).data is None and n_children(child(m, 0)) == 0)
    ensures(same_child_attr(m, 0, n, "dirty", "type") and same_child_attr(m, 0, n, "dirty", "timestamp"))
    ensures(same_attr(m, n, "from") and attr(child(m, 0), "count") is None)


@scenario
def clean_iq_roundtrip(n: Obj("ProtocolTreeNode")):
    """<iq id= type="set" to= xmlns="urn:xmpp:whatsapp:dirty"><clean type=/></iq>"""
    requires(n.tag == "iq" and present(n, "id") and attr(n, "type") == "set" and attr(n, "xmlns") == "urn:xmpp:whatsapp:dirty")
    requires(present(n, "to") and len(attr(n, "to")) > 0 and attr(n, "from") is None)
    requires(pure_child(n, "clean") is not None and present(pure_child(n, "clean"), "type"))
    e = CleanIqProtocolEntity.fromProtocolTreeNode(n)
    m = e.toProtocolTreeNode()
    ensures(m.tag == "iq" and m.data is None)
    ensures(same_attr(m, n, "id") and same_attr(m, n, "type") and same_attr(m, n, "xmlns") and same_attr(m, n, "to") and same_attr(m, n, "from"))
    ensures(n_children(m) == 1 and child(m, 0).tag == "clean" and child(m, 0).data is None and n_children(child(m, 0)) == 0)
    ensures(same_child_attr(m, 0, n, "clean", "type"))


@scenario
def offline_ib_roundtrip(n: Obj("ProtocolTreeNode"), count: Int):
    """<ib from=><offline count=/></ib>"""
    requires(n.tag == "ib" and present(n, "from"))
    requires(pure_child(n, "offline") is not None and is_number(pure_child(n, "offline"), "count", count))
    e = OfflineIbProtocolEntity.fromProtocolTreeNode(n)
    m = e.toProtocolTreeNode()
    ensures(m.tag == "ib" and m.data is None and same_attr(m, n, "from") and attr(m, "id") is None)
    ensures(n_children(m) == 1 and child(m, 0).tag == "offline" and child(m, 0).data is None and n_children(child(m, 0)) == 0)
    ensures(same_child_attr(m, 0, n, "offline", "count"))
    ensures(attr(child(m, 0), "type") is None)


@scenario
def account_ib_roundtrip(n: Obj("ProtocolTreeNode"), creation: Int, expiration: Int):
    """<ib from=><account status= kind= creation= expiration=/></ib>
    creation / expiration: the serialiser writes the INT int(self.creation), not its decimal rendering: they are claimed BY VALUE (the int that
    is written is the int whose rendering came in); that the attribute value is not a string is reported, not hidden."""
    requires(n.tag == "ib" and present(n, "from"))
    requires(pure_child(n, "account") is not None and present(pure_child(n, "account"), "status") and present(pure_child(n, "account"), "kind"))
    requires(is_number(pure_child(n, "account"), "creation", creation) and is_number(pure_child(n, "account"), "expiration", expiration))
    e = AccountIbProtocolEntity.fromProtocolTreeNode(n)
    m = e.toProtocolTreeNode()
    ensures(m.tag == "ib" and m.data is None and same_attr(m, n, "from") and attr(m, "id") is None)
    ensures(n_children(m) == 1 and child(m, 0).tag == "account" and child(m, 0).data is None and n_children(child(m, 0)) == 0)
    ensures(same_child_attr(m, 0, n, "account", "status") and same_child_attr(m, 0, n, "account", "kind"))
    ensures(attr(child(m, 0), "creation") == creation and attr(child(m, 0), "expiration") == expiration)
    ensures(attr(child(m, 0), "count") is None)
