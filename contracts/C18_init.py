"""C18 - the stack constructor: which order convention the given sequence is read in, and that assembly runs once on it."""
from pyvc.lang import *

STACK = "yowsup/stacks/yowstack.py"
fields("YowStack", _YowStack__stackInstances=ListObj, _YowStack__stack=TupleObj, _props=DictStrObj)
opaque(STACK, "YowStack._construct", event="construct", raises=True)
opaque(STACK, "YowStack.setProp", event="setProp")


def in_range(r, a, b):
    return implies(a <= b, a <= r and r <= b)


extern("random.randint", event="randint", returns=Int, raises=True, assume="in_range",
       reason="documented contract of random.randint(a, b): a <= N <= b (an empty range raises)")


@contract(STACK, "YowStack.__init__")
def init(self: Obj("YowStack"), stackClassesArr: TupleObj, reversed: Bool, props: Opt(DictStrObj)):
    modifies(self._YowStack__stackInstances, self._YowStack__stack, self._props)
    ensures(len(self._YowStack__stack) == len(stackClassesArr))
    ensures(implies(not reversed, forall(range(0, len(stackClassesArr)), lambda i: same_obj(self._YowStack__stack[i], stackClassesArr[i]))))
    ensures(implies(reversed, forall(range(0, len(stackClassesArr)), lambda i: same_obj(self._YowStack__stack[i], stackClassesArr[len(stackClassesArr) - 1 - i]))))
    ensures(n_events("construct") == 1 and n_events("setProp") == 1)
    ensures(at_event("construct", 0, lambda: len(self._YowStack__stackInstances) == 0))
    propagates("construct")
    propagates("randint")
