"""C04 - encrypted transport.  The statement quantifies over thread interleavings, chunkings and the Noise handshake inside consonance;
contracts decide the sequential GLUE of YowNoiseLayer only (DESIGN.md section 7, C04: partial):
  * prologue: on the auth event exactly the bytes [ED 00 01 | edge routing info as ONE length-prefixed segment] WA 04 00 go down, raw
    (segmenting off) except the routing info, and segmenting is on afterwards; without a client key pair nothing is sent and a
    disconnect is requested;
  * the client configuration presents the configured account (numeric username), the passive flag of the event and the push name;
  * one handshake worker per attempt, started only when no handshake is in progress, with the stored server key (or none);
  * a failed handshake is reported upward as a <failure> stanza and as an event, exactly once; a successful one reports nothing;
  * when transport state is reached with a different server key, the key is stored in the profile (one write) BEFORE the buffered
    frames are flushed; frames are flushed in queue order, one toUpper per queued segment (C12: under the lock, released on every exit);
  * every incoming segment is queued exactly once and flushed only outside the handshake; every outgoing stanza goes to the
    cipher as bytes exactly once; a disconnect resets the cipher state."""
from pyvc.lang import *

LAYERS = "yowsup/layers/__init__.py"
NOISE = "yowsup/layers/noise/layer.py"

EV_WRITE = "consonance.streams.segmented.blockingqueue.BlockingQueueSegmentedStream.EVENT_WRITE"
EV_READ = "consonance.streams.segmented.blockingqueue.BlockingQueueSegmentedStream.EVENT_READ"
ST_TRANSPORT = "consonance.protocol.WANoiseProtocol.STATE_TRANSPORT"
E_DISCONNECT = "org.openwhatsapp.yowsup.event.network.disconnect"
E_HANDSHAKE_FAILED = "org.whatsapp.yowsup.layer.noise.event.handshake_failed"
P_SEGMENTS = "org.openwhatsapp.yowsup.prop.noise.segmented_enabled"

fields("YowLayerEvent", name=Str, detached=Bool, args=DictStrObj, __file__="yowsup/layers/__init__.py")
inline(LAYERS, "YowLayerEvent.__init__")
inline(LAYERS, "YowLayerEvent.getArg")
fields("YowNoiseLayer", _incoming_segments_queue=Opaque("queue"), _wa_noiseprotocol=Opaque("noise"), _stream=Opaque("stream"), _profile=Opt(Opaque("profile")),
       _rs=Opt(Opaque("key")), _handshake_worker=Opt(Opaque("worker")), _flush_lock=Opaque("lock"))
event_sort("toLower", "obj")
event_sort("toUpper", "obj")
event_sort("setProp", "obj")
event_sort("emitEvent", "obj")
event_sort("broadcastEvent", "obj")
opaque(LAYERS, "YowLayer.toLower", event="toLower", raises=True)
opaque(LAYERS, "YowLayer.getProp", event="getProp", returns=Opaque("profile"))
opaque(LAYERS, "YowLayer.setProp", event="setProp")
opaque(LAYERS, "YowLayer.emitEvent", event="emitEvent", raises=True)
opaque(LAYERS, "YowLayer.broadcastEvent", event="broadcastEvent", raises=True)
opaque(NOISE, "YowNoiseLayer._in_handshake", event="in_handshake", returns=Bool)
opaque(NOISE, "YowNoiseLayer._flush_incoming_buffer", event="flush", raises=True)       # lock balance: contracts/C12_locks.py; draining: below
opaque(LAYERS, "YowLayer.toUpper", event="toUpper", raises=True)

opaque("yowsup/layers/coder/encoder.py", "WriteEncoder.protocolTreeNodeToBytes", event="encode", returns=Bytes, raises=True)
opaque("yowsup/layers/coder/encoder.py", "WriteEncoder.__init__", event="WriteEncoder")
opaque("yowsup/layers/coder/tokendictionary.py", "TokenDictionary.__init__", event="TokenDictionary")
extern("noise.send", event="noise.send", raises=True)
extern("noise.reset", event="noise.reset")
extern("queue.put", event="queue.put")
extern("queue.get", event="queue.get", returns=Opaque("segment"))
extern("stream.get_write_segment", event="stream.get_write_segment", returns=Opaque("segment"))
extern("stream.put_read_segment", event="stream.put_read_segment")
extern("stream.set_events_callback", event="stream.set_events_callback")
extern("profile.write_config", event="profile.write_config", raises=True)
extern("consonance.config.client.ClientConfig", event="ClientConfig", returns=Opaque("clientconfig"))
extern("consonance.config.useragent.UserAgentConfig", event="UserAgentConfig", returns=Opaque("useragent"))
extern("yowsup.layers.noise.workers.handshake.WANoiseProtocolHandshakeWorker", event="HandshakeWorker", returns=Opaque("worker"))
opaque("yowsup/layers/noise/workers/handshake.py", "WANoiseProtocolHandshakeWorker.__init__", event="HandshakeWorker")
extern("*.start", event="start", raises=True)


@contract(NOISE, "YowNoiseLayer.send")
def noise_send(self: Obj("YowNoiseLayer"), data: Bytes):
    # every outgoing stanza reaches the cipher exactly once, unchanged
    ensures(n_events("noise.send") == 1 and event_arg("noise.send", 0, 1) == data and n_events("toLower") == 0 and n_events("toUpper") == 0)
    propagates("noise.send")


@contract(NOISE, "YowNoiseLayer.receive")
def noise_receive(self: Obj("YowNoiseLayer"), data: Bytes):
    # every incoming segment is queued exactly once, first; frames are handed upward only outside the handshake (until then they wait
    # in the queue in arrival order: nothing is lost when they arrive at the very moment the handshake completes)
    ensures(n_events("queue.put") == 1 and event_arg("queue.put", 0, 1) == data)
    ensures(n_events("flush") == (0 if event_result("in_handshake", 0) else 1))
    # the handshake state is looked at AFTER the segment is in the queue: if the handshake completes in between, either the worker's
    # flush or this one finds the segment (looked at before, the segment would wait for the next frame to arrive)
    ensures(n_events("in_handshake") == 1 and at_event("in_handshake", 0, lambda: n_events("queue.put") == 1))
    ensures(implies(not event_result("in_handshake", 0), at_event("flush", 0, lambda: n_events("queue.put") == 1)))
    propagates("flush", ensures=n_events("queue.put") == 1)


# ---- flushing: every buffered frame is decrypted and handed upward, in order, each exactly once, until the queue is seen empty --------
extern("queue.qsize", event="queue.qsize", returns=Int)
extern("queue.empty", event="queue.empty", returns=Bool)
extern("noise.receive", event="noise.receive", raises=True, returns=Value("frame"))
extern("lock.acquire", event="lock.acquire")
extern("lock.release", event="lock.release")
extern("lock.__enter__", event="lock.acquire")
extern("lock.__exit__", event="lock.release")


def polls():
    return n_events("queue.qsize") + n_events("queue.empty")


def seen_empty_last():
    """the last look at the queue (qsize() or empty(), whichever the code uses) found it empty, every earlier one did not"""
    return (n_events("queue.empty") == 0 and n_events("queue.qsize") >= 1 and event_result("queue.qsize", n_events("queue.qsize") - 1) <= 0
            and forall(range(0, n_events("queue.qsize") - 1), lambda i: event_result("queue.qsize", i) != 0)) \
        or (n_events("queue.qsize") == 0 and n_events("queue.empty") >= 1 and event_result("queue.empty", n_events("queue.empty") - 1)
            and forall(range(0, n_events("queue.empty") - 1), lambda i: not event_result("queue.empty", i)))


@contract(NOISE, "YowNoiseLayer._flush_incoming_buffer", opaque_at_calls=True)
def flush_drains(self: Obj("YowNoiseLayer")):
    # one decrypted frame per look at a non-empty queue, handed upward at once and unchanged: so frames go up in the cipher's order,
    # each exactly once, and the flush only returns after it has seen the queue empty (nothing buffered during the handshake is left behind)
    ensures(n_events("toUpper") == n_events("noise.receive") and polls() == n_events("noise.receive") + 1 and seen_empty_last())
    ensures(forall(range(0, n_events("toUpper")), lambda i: same_obj(event_arg("toUpper", i), event_result("noise.receive", i))))
    ensures(n_events("toLower") == 0)
    propagates("*")


@loop(NOISE, "YowNoiseLayer._flush_incoming_buffer", 1)
def flush_drain_loop(self):
    partial("the loop runs while the segment queue is non-empty; queue.Queue is opaque, so termination is not decided")
    invariant(n_events("toUpper") == n_events("noise.receive") and polls() == n_events("noise.receive") and n_events("toLower") == 0)
    invariant(n_events("queue.empty") == 0 or n_events("queue.qsize") == 0)
    invariant(forall(range(0, n_events("queue.qsize")), lambda i: event_result("queue.qsize", i) != 0))
    invariant(forall(range(0, n_events("queue.empty")), lambda i: not event_result("queue.empty", i)))
    invariant(forall(range(0, n_events("toUpper")), lambda i: same_obj(event_arg("toUpper", i), event_result("noise.receive", i))))


@contract(NOISE, "YowNoiseLayer.on_disconnected")
def noise_on_disconnected(self: Obj("YowNoiseLayer"), event: Obj("YowLayerEvent")):
    ensures(n_events("noise.reset") == 1 and n_events("toLower") == 0 and n_events("toUpper") == 0)


@contract(NOISE, "YowNoiseLayer.on_handshake_finished")
def on_handshake_finished(self: Obj("YowNoiseLayer"), e: Opt(Opaque("exception"))):
    # success: silent.  failure: one event and ONE <failure> stanza upward (the login fails instead of hanging)
    ensures(implies(e is None, n_events("emitEvent") == 0 and n_events("toUpper") == 0))
    ensures(implies(e is not None, n_events("emitEvent") == 1 and event_arg("emitEvent", 0).name == E_HANDSHAKE_FAILED and n_events("toUpper") == 1
                    and n_events("encode") == 1 and event_arg("encode", 0, 0).tag == "failure" and event_arg("toUpper", 0) == event_result("encode", 0)))
    ensures(n_events("toLower") == 0)
    propagates("*")


extern("profile.config", event="profile.config", returns=Opaque("config"), pure=True)


@contract(NOISE, "YowNoiseLayer._handle_stream_event")
def _handle_stream_event(self: Obj("YowNoiseLayer"), event: Opaque("streamevent")):
    # the handshake worker's write goes down as one segment; its read takes the OLDEST queued incoming segment (blocking)
    ensures(n_events("toLower") + n_events("stream.put_read_segment") <= 1 and n_events("toUpper") == 0)
    # ... and which of the two happens is decided by the stream's event, nothing else: WRITE -> down, READ -> feed the worker
    ensures(implies(event == ext_value(EV_WRITE), n_events("toLower") == 1 and n_events("stream.put_read_segment") == 0))
    ensures(implies(event != ext_value(EV_WRITE) and event == ext_value(EV_READ), n_events("stream.put_read_segment") == 1 and n_events("toLower") == 0))
    ensures(implies(event != ext_value(EV_WRITE) and event != ext_value(EV_READ), n_events("stream.put_read_segment") == 0 and n_events("toLower") == 0))
    ensures(implies(n_events("toLower") == 1, same_obj(event_arg("toLower", 0), event_result("stream.get_write_segment", 0))))
    ensures(implies(n_events("stream.put_read_segment") == 1, n_events("queue.get") == 1
                    and same_obj(event_arg("stream.put_read_segment", 0, 1), event_result("queue.get", 0))))
    propagates("*")


extern("config.server_static_public", event="config.server_static_public", returns=Opaque("key"))


@contract(NOISE, "YowNoiseLayer._on_protocol_state_changed")
def _on_protocol_state_changed(self: Obj("YowNoiseLayer"), state: Opaque("state")):
    requires(self._profile is not None)         # set by on_auth before the handshake can reach transport state
    modifies(self._rs)
    # a server key different from the one the handshake started with is stored in the profile: one write, with the NEW key, and BEFORE
    # any buffered frame is handed upward; an unchanged key is not rewritten; other states do nothing
    ensures(n_events("profile.write_config") <= 1 and n_events("flush") <= 1)
    # the buffered frames are released exactly when the protocol reaches TRANSPORT state (not earlier: they would be fed to the
    # application undecrypted-in-order; not never: they would stay in the queue)
    ensures((n_events("flush") == 1) == (state == ext_value(ST_TRANSPORT)))
    ensures(implies(n_events("profile.write_config") == 1, n_events("flush") == 1 and at_event("flush", 0, lambda: n_events("profile.write_config") == 1)
                    and n_events("setattr:server_static_public") == 1
                    and same_obj(event_arg("setattr:server_static_public", 0, 1), field(self._wa_noiseprotocol, "rs"))
                    and same_obj(self._rs, field(self._wa_noiseprotocol, "rs"))
                    and at_event("profile.write_config", 0, lambda: n_events("setattr:server_static_public") == 1)))
    ensures(implies(n_events("flush") == 1 and n_events("profile.write_config") == 0, same_obj(old(self._rs), field(self._wa_noiseprotocol, "rs"))))
    ensures(implies(n_events("flush") == 0, n_events("profile.write_config") == 0 and same_obj(self._rs, old(self._rs))))
    propagates("*")


# ---- the auth event: prologue, client configuration, one handshake worker ---------------------------------------------------------------
extern("yowsup.env.env.YowsupEnv.getCurrent", event="YowsupEnv.getCurrent", returns=Opaque("env"))
opaque("yowsup/env/env.py", "YowsupEnv.getCurrent", event="YowsupEnv.getCurrent", returns=Opaque("env"))
extern("consonance.structs.keypair.KeyPair.from_bytes", event="KeyPair.from_bytes", returns=Opaque("keypair"), raises=True)

HEADER = b"WA\x04\x00"
EDGE_HEADER = b"ED\x00\x01"


def cfg(self):
    return field(event_result("getProp", 0), "config")


@contract(NOISE, "YowNoiseLayer.on_auth")
def on_auth(self: Obj("YowNoiseLayer"), event: Obj("YowLayerEvent")):
    modifies(self._profile, self._rs, self._handshake_worker)
    partial("type(local_static) is KeyPair is an assertion about an object of consonance: an AssertionError path is allowed")
    raises(AssertionError)
    # no client key pair: nothing is sent, a disconnect is requested
    ensures(implies(field(cfg(self), "client_static_keypair") is None,
                    n_events("toLower") == 0 and n_events("HandshakeWorker") == 0 and n_events("broadcastEvent") == 1
                    and event_arg("broadcastEvent", 0).name == E_DISCONNECT))
    # otherwise the prologue, raw (segmenting off), the routing info as one segment, segmenting on afterwards
    ensures(implies(field(cfg(self), "client_static_keypair") is not None and not truthy(field(cfg(self), "edge_routing_info")),
                    n_events("toLower") == 1 and event_arg("toLower", 0) == HEADER
                    and n_events("setProp") == 2 and event_arg("setProp", 0, 1) == False and event_arg("setProp", 1, 1) == True
                    and at_event("toLower", 0, lambda: n_events("setProp") == 1)))
    ensures(implies(field(cfg(self), "client_static_keypair") is not None and truthy(field(cfg(self), "edge_routing_info")),
                    n_events("toLower") == 3 and event_arg("toLower", 0) == EDGE_HEADER and same_obj(event_arg("toLower", 1), field(cfg(self), "edge_routing_info"))
                    and event_arg("toLower", 2) == HEADER and n_events("setProp") == 4
                    and event_arg("setProp", 0, 1) == False and event_arg("setProp", 1, 1) == True and event_arg("setProp", 2, 1) == False and event_arg("setProp", 3, 1) == True
                    and at_event("toLower", 0, lambda: n_events("setProp") == 1) and at_event("toLower", 1, lambda: n_events("setProp") == 2)
                    and at_event("toLower", 2, lambda: n_events("setProp") == 3)))
    ensures(implies(n_events("setProp") >= 2, event_arg("setProp", 0, 0) == P_SEGMENTS and event_arg("setProp", 1, 0) == P_SEGMENTS))
    ensures(implies(n_events("setProp") == 4, event_arg("setProp", 2, 0) == P_SEGMENTS and event_arg("setProp", 3, 0) == P_SEGMENTS))
    # the configured account, the passive flag of the event, the push name
    ensures(implies(field(cfg(self), "client_static_keypair") is not None, n_events("ClientConfig") == 1
                    and same_obj(event_kwarg("ClientConfig", 0, "passive"), map_get(event.args, "passive") if contains_key(event.args, "passive") else None)))
    # one worker per attempt, only when no handshake is in progress, started once, with the stored server key
    ensures(n_events("HandshakeWorker") == n_events("start") and n_events("HandshakeWorker") <= 1)
    ensures(implies(n_events("HandshakeWorker") == 1, not event_result("in_handshake", 0) and same_obj(self._rs, field(cfg(self), "server_static_public"))))
    ensures(implies(field(cfg(self), "client_static_keypair") is not None and event_result("in_handshake", 0), n_events("HandshakeWorker") == 0))
    propagates("*")


# =====================================================================================================================
# native generators (replay / directed search on the real functions)
# =====================================================================================================================
def gen__flush_incoming_buffer(rng, n):
    """k buffered frames (k = 0..4): the queue reports k, k-1, ..., 0 (qsize) / not-empty x k, empty (empty); the cipher returns
    k distinct frames, one of them empty"""
    for i in range(min(n, 80)):
        k = i % 5
        frames = [b'' if (j == 1 and i % 2) else bytes([65 + j]) * (j + 1) for j in range(k + 1)]
        yield {'inputs': {'self': {'_incoming_segments_queue': {'$opaque': 'queue'}, '_wa_noiseprotocol': {'$opaque': 'noise'},
                                   '_stream': {'$opaque': 'stream'}, '_profile': None, '_rs': None, '_handshake_worker': None,
                                   '_flush_lock': {'$opaque': 'lock'}}},
               'opaque_results': {'queue.qsize': list(range(k, -1, -1)) + [0] * 3, 'queue.empty': [False] * k + [True] * 4,
                                  'noise.receive': frames}}
