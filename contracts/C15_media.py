"""C15 - media encryption.  Contracts on yowsup/layers/protocol_media/mediacipher.py under assumed
contracts of the cryptographic primitives (python-axolotl HKDF, cryptography AES-CBC / PKCS7, hmac)."""
from pyvc.lang import *
from spec.media import *

FILE = "yowsup/layers/protocol_media/mediacipher.py"

fields("MediaCipher")
fields("HKDFv3")
fields("AES", key=Bytes)
fields("CBC", iv=Bytes)
fields("Cipher", key=Bytes, iv=Bytes)
fields("Encryptor", key=Bytes, iv=Bytes, fed=SeqInt, emitted=SeqInt)
fields("Decryptor", key=Bytes, iv=Bytes, fed=SeqInt, emitted=SeqInt)
fields("PKCS7", bits=Int)
fields("Padder", fed=SeqInt, emitted=SeqInt)
fields("Unpadder", fed=SeqInt, emitted=SeqInt)
fields("HMAC", key=Bytes, fed=SeqInt)

R = "assumed contract of an external primitive"


# ---- python-axolotl -----------------------------------------------------------------------------------------------------
@contract("<ext>", "axolotl.kdf.hkdfv3.HKDFv3", assumed=True, reason=R)
def HKDFv3() -> Obj("HKDFv3"):
    pass


@contract("<ext>", "HKDFv3.deriveSecrets", assumed=True, reason=R)
def deriveSecrets(self: Obj("HKDFv3"), inputKeyMaterial: Bytes, info: Bytes, outputLength: Int) -> Bytes:
    ensures(result == hkdf(inputKeyMaterial, info, outputLength) and len(result) == outputLength)


@contract("<ext>", "axolotl.util.byteutil.ByteUtil.split", assumed=True, reason=R + " (three slices; read from the installed source)")
def split(inp: Bytes, firstLength: Int, secondLength: Int) -> Tup(Bytes, Bytes):
    requires(0 <= firstLength and 0 <= secondLength and firstLength + secondLength <= len(inp))
    ensures(result[0] == inp[0:firstLength] and result[1] == inp[firstLength:firstLength + secondLength])


# ---- cryptography: AES-CBC --------------------------------------------------------------------------------------------------
@contract("<ext>", "cryptography.hazmat.primitives.ciphers.algorithms.AES", assumed=True, reason=R)
def AES(key: Bytes) -> Obj("AES"):
    raises(ValueError, when=not (len(key) == 16 or len(key) == 24 or len(key) == 32))
    ensures(result.key == key)


@contract("<ext>", "cryptography.hazmat.primitives.ciphers.modes.CBC", assumed=True, reason=R)
def CBC(iv: Bytes) -> Obj("CBC"):
    ensures(result.iv == iv)


@contract("<ext>", "cryptography.hazmat.backends.default_backend", assumed=True, reason=R)
def default_backend() -> Opaque:
    pass


@contract("<ext>", "cryptography.hazmat.primitives.ciphers.Cipher", assumed=True, reason=R)
def Cipher(algorithm: Obj("AES"), mode: Obj("CBC"), backend: Opaque = None) -> Obj("Cipher"):
    raises(ValueError, when=len(mode.iv) != 16)
    ensures(result.key == algorithm.key and result.iv == mode.iv)


@contract("<ext>", "Cipher.encryptor", assumed=True, reason=R)
def encryptor(self: Obj("Cipher")) -> Obj("Encryptor"):
    ensures(result.key == self.key and result.iv == self.iv and result.fed == [] and result.emitted == [])


@contract("<ext>", "Cipher.decryptor", assumed=True, reason=R)
def decryptor(self: Obj("Cipher")) -> Obj("Decryptor"):
    ensures(result.key == self.key and result.iv == self.iv and result.fed == [] and result.emitted == [])


@contract("<ext>", "Encryptor.update", assumed=True, reason=R + ": streaming; what update returns plus what finalize returns is the ciphertext")
def enc_update(self: Obj("Encryptor"), data: Bytes) -> Bytes:
    modifies(self.fed, self.emitted)
    ensures(self.fed == old(self.fed) + data and self.emitted == old(self.emitted) + result)


@contract("<ext>", "Encryptor.finalize", assumed=True, reason=R + ": raises unless the data is block aligned")
def enc_finalize(self: Obj("Encryptor")) -> Bytes:
    raises(ValueError, when=len(self.fed) % 16 != 0)
    ensures(self.emitted + result == cbc_enc(self.key, self.iv, self.fed))


@contract("<ext>", "Decryptor.update", assumed=True, reason=R)
def dec_update(self: Obj("Decryptor"), data: Bytes) -> Bytes:
    modifies(self.fed, self.emitted)
    ensures(self.fed == old(self.fed) + data and self.emitted == old(self.emitted) + result)


@contract("<ext>", "Decryptor.finalize", assumed=True, reason=R)
def dec_finalize(self: Obj("Decryptor")) -> Bytes:
    raises(ValueError, when=len(self.fed) % 16 != 0)
    ensures(self.emitted + result == cbc_dec(self.key, self.iv, self.fed))


# ---- cryptography: PKCS7 --------------------------------------------------------------------------------------------------------
@contract("<ext>", "cryptography.hazmat.primitives.padding.PKCS7", assumed=True, reason=R)
def PKCS7(block_size: Int) -> Obj("PKCS7"):
    ensures(result.bits == block_size)


@contract("<ext>", "PKCS7.padder", assumed=True, reason=R)
def padder(self: Obj("PKCS7")) -> Obj("Padder"):
    requires(self.bits == 128)
    ensures(result.fed == [] and result.emitted == [])


@contract("<ext>", "PKCS7.unpadder", assumed=True, reason=R)
def unpadder(self: Obj("PKCS7")) -> Obj("Unpadder"):
    requires(self.bits == 128)
    ensures(result.fed == [] and result.emitted == [])


@contract("<ext>", "Padder.update", assumed=True, reason=R)
def pad_update(self: Obj("Padder"), data: Bytes) -> Bytes:
    modifies(self.fed, self.emitted)
    ensures(self.fed == old(self.fed) + data and self.emitted == old(self.emitted) + result)


@contract("<ext>", "Padder.finalize", assumed=True, reason=R + ": PKCS#7 always appends 1..16 bytes")
def pad_finalize(self: Obj("Padder")) -> Bytes:
    ensures(self.emitted + result == pkcs7_pad(self.fed))


@contract("<ext>", "Unpadder.update", assumed=True, reason=R)
def unpad_update(self: Obj("Unpadder"), data: Bytes) -> Bytes:
    modifies(self.fed, self.emitted)
    ensures(self.fed == old(self.fed) + data and self.emitted == old(self.emitted) + result)


@contract("<ext>", "Unpadder.finalize", assumed=True, reason=R + ": raises unless the tail is n copies of n, 1 <= n <= 16")
def unpad_finalize(self: Obj("Unpadder")) -> Bytes:
    raises(ValueError, when=not pkcs7_ok(self.fed))
    ensures(self.emitted + result == pkcs7_unpad(self.fed))


# ---- hmac --------------------------------------------------------------------------------------------------------------------------
@contract("<ext>", "hmac.new", assumed=True, reason=R)
def hmac_new(key: Bytes, msg: Opaque = None, digestmod: Opaque = None) -> Obj("HMAC"):
    ensures(result.key == key and result.fed == [])


@contract("<ext>", "HMAC.update", assumed=True, reason=R)
def hmac_update(self: Obj("HMAC"), msg: Bytes):
    modifies(self.fed)
    ensures(self.fed == old(self.fed) + msg)


@contract("<ext>", "HMAC.digest", assumed=True, reason=R)
def hmac_digest(self: Obj("HMAC")) -> Bytes:
    ensures(result == hmac256(self.key, self.fed) and len(result) == 32)


@lemma(assumed=True, reason="AES-CBC decryption inverts encryption under the same key and IV; ciphertext has the length of the "
                            "(block aligned) plaintext; HKDF returns the requested number of bytes; HMAC-SHA256 is 32 bytes")
def primitives(key: SeqInt, iv: SeqInt, x: SeqInt):
    ensures(implies(len(x) % 16 == 0, cbc_dec(key, iv, cbc_enc(key, iv, x)) == x and len(cbc_enc(key, iv, x)) == len(x)))
    trigger(cbc_enc(key, iv, x))


@lemma(assumed=True, reason="lengths of the primitives' outputs")
def primitive_lengths(k: SeqInt, m: SeqInt, n: Int):
    ensures(len(hmac256(k, m)) == 32 and implies(n >= 0, len(hkdf(k, m, n)) == n))
    ensures(is_bytes(hmac256(k, m)) and is_bytes(hkdf(k, m, n)))
    trigger(hmac256(k, m), hkdf(k, m, n))


# =====================================================================================================================
# the real code
# =====================================================================================================================
@contract(FILE, "MediaCipher.encrypt")
def encrypt(self: Obj("MediaCipher"), plaintext: Bytes, ref_key: Bytes, media_info: Bytes) -> Bytes:
    # layout: derived IV / keys, ALWAYS padded AES-CBC, 10-byte truncated MAC over IV and ciphertext
    ensures(result == media_encrypt(plaintext, ref_key, media_info))


@contract(FILE, "MediaCipher.decrypt")
def decrypt(self: Obj("MediaCipher"), ciphertext: Bytes, ref_key: Bytes, media_info: Bytes) -> Bytes:
    requires(len(ciphertext) >= 10)
    # never returns unless the tag matches; raises ValueError otherwise
    raises(ValueError, when=ciphertext[len(ciphertext) - 10:] != media_mac(ciphertext[:len(ciphertext) - 10], ref_key, media_info)
           or len(ciphertext[:len(ciphertext) - 10]) % 16 != 0
           or not pkcs7_ok(cbc_dec(media_key(ref_key, media_info), media_iv(ref_key, media_info), ciphertext[:len(ciphertext) - 10])),
           ensures=implies(ciphertext[len(ciphertext) - 10:] != media_mac(ciphertext[:len(ciphertext) - 10], ref_key, media_info),
                           n_events("Cipher.decryptor") == 0))
    ensures(result == pkcs7_unpad(cbc_dec(media_key(ref_key, media_info), media_iv(ref_key, media_info),
                                          ciphertext[:len(ciphertext) - 10])))


@lemma
def pad_unpad(x: SeqInt):
    requires(is_bytes(x))
    ensures(pkcs7_ok(pkcs7_pad(x)) and pkcs7_unpad(pkcs7_pad(x)) == x and len(pkcs7_pad(x)) % 16 == 0)


@lemma
def c15_roundtrip(p: SeqInt, k: SeqInt, info: SeqInt):
    """decrypt(encrypt(p)) == p for EVERY plaintext, including empty and block aligned ones (spec level: the two
    function contracts above tie the real code to media_encrypt and to the decryption formula)"""
    requires(is_bytes(p))
    ensures(media_encrypt(p, k, info)[len(media_encrypt(p, k, info)) - 10:] == media_mac(media_ct(p, k, info), k, info))
    ensures(media_encrypt(p, k, info)[:len(media_encrypt(p, k, info)) - 10] == media_ct(p, k, info))
    ensures(pkcs7_unpad(cbc_dec(media_key(k, info), media_iv(k, info), media_ct(p, k, info))) == p)
    ensures(pkcs7_ok(cbc_dec(media_key(k, info), media_iv(k, info), media_ct(p, k, info))))
    use(pad_unpad(p))


# ---- the eight per-kind wrappers: each pair uses the same constant, and the constants are WhatsApp's --------------
REF_IMAGE = b"WhatsApp Image Keys"
REF_AUDIO = b"WhatsApp Audio Keys"
REF_VIDEO = b"WhatsApp Video Keys"
REF_DOCUM = b"WhatsApp Document Keys"


@contract(FILE, "MediaCipher.encrypt_image")
def encrypt_image(self: Obj("MediaCipher"), plaintext: Bytes, ref_key: Bytes) -> Bytes:
    ensures(result == media_encrypt(plaintext, ref_key, REF_IMAGE))


@contract(FILE, "MediaCipher.encrypt_audio")
def encrypt_audio(self: Obj("MediaCipher"), ciphertext: Bytes, ref_key: Bytes) -> Bytes:
    ensures(result == media_encrypt(ciphertext, ref_key, REF_AUDIO))


@contract(FILE, "MediaCipher.encrypt_video")
def encrypt_video(self: Obj("MediaCipher"), ciphertext: Bytes, ref_key: Bytes) -> Bytes:
    ensures(result == media_encrypt(ciphertext, ref_key, REF_VIDEO))


@contract(FILE, "MediaCipher.encrypt_document")
def encrypt_document(self: Obj("MediaCipher"), ciphertext: Bytes, ref_key: Bytes) -> Bytes:
    ensures(result == media_encrypt(ciphertext, ref_key, REF_DOCUM))


@spec
def media_decrypt_ok(c: SeqInt, k: SeqInt, info: SeqInt) -> Bool:
    return (len(c) >= 10 and c[len(c) - 10:] == media_mac(c[:len(c) - 10], k, info) and len(c[:len(c) - 10]) % 16 == 0
            and pkcs7_ok(cbc_dec(media_key(k, info), media_iv(k, info), c[:len(c) - 10])))


@spec
def media_decrypt(c: SeqInt, k: SeqInt, info: SeqInt) -> SeqInt:
    return pkcs7_unpad(cbc_dec(media_key(k, info), media_iv(k, info), c[:len(c) - 10]))


@contract(FILE, "MediaCipher.decrypt_image")
def decrypt_image(self: Obj("MediaCipher"), ciphertext: Bytes, ref_key: Bytes) -> Bytes:
    requires(len(ciphertext) >= 10)
    raises(ValueError, when=not media_decrypt_ok(ciphertext, ref_key, REF_IMAGE))
    ensures(result == media_decrypt(ciphertext, ref_key, REF_IMAGE))


@contract(FILE, "MediaCipher.decrypt_audio")
def decrypt_audio(self: Obj("MediaCipher"), ciphertext: Bytes, ref_key: Bytes) -> Bytes:
    requires(len(ciphertext) >= 10)
    raises(ValueError, when=not media_decrypt_ok(ciphertext, ref_key, REF_AUDIO))
    ensures(result == media_decrypt(ciphertext, ref_key, REF_AUDIO))


@contract(FILE, "MediaCipher.decrypt_video")
def decrypt_video(self: Obj("MediaCipher"), ciphertext: Bytes, ref_key: Bytes) -> Bytes:
    requires(len(ciphertext) >= 10)
    raises(ValueError, when=not media_decrypt_ok(ciphertext, ref_key, REF_VIDEO))
    ensures(result == media_decrypt(ciphertext, ref_key, REF_VIDEO))


@contract(FILE, "MediaCipher.decrypt_document")
def decrypt_document(self: Obj("MediaCipher"), ciphertext: Bytes, ref_key: Bytes) -> Bytes:
    requires(len(ciphertext) >= 10)
    raises(ValueError, when=not media_decrypt_ok(ciphertext, ref_key, REF_DOCUM))
    ensures(result == media_decrypt(ciphertext, ref_key, REF_DOCUM))


# ---- native scenario generators: also the cross-check of the layout against the independent implementation ----------
def _key(rng):
    return [rng.randrange(256) for _ in range(32)]


def _gen_enc(rng, n, with_info):
    infos = [REF_IMAGE, REF_AUDIO, REF_VIDEO, REF_DOCUM]
    for i in range(n):
        ln = i % 66 if i < 132 else rng.choice([100, 256, 1000, 4096, 65536])
        sc = {'inputs': {'self': {}, 'plaintext': [rng.randrange(256) for _ in range(ln)], 'ref_key': _key(rng)}}
        sc['inputs']['ciphertext'] = sc['inputs']['plaintext']
        if with_info:
            sc['inputs']['media_info'] = list(infos[i % 4])
        yield sc


def gen_encrypt(rng, n):
    return _gen_enc(rng, n, True)


def gen_encrypt_image(rng, n):
    return _gen_enc(rng, min(n, 70), False)


gen_encrypt_audio = gen_encrypt_video = gen_encrypt_document = gen_encrypt_image


def _gen_dec(rng, n, info):
    infos = [REF_IMAGE, REF_AUDIO, REF_VIDEO, REF_DOCUM]
    for i in range(n):
        inf = list(info if info is not None else infos[i % 4])
        k = _key(rng)
        p = [rng.randrange(256) for _ in range(i % 50)]
        if i % 3 == 0 and p:
            # plaintexts that END in the very byte PKCS7 will append (16 - len % 16): an unpadder that strips by value eats them
            pad = 16 - len(p) % 16
            for j_ in range(rng.choice([1, 1, 2, min(len(p), 5)])):
                p[len(p) - 1 - j_] = pad
        c = media_encrypt(p, k, inf)
        mode = i % 6
        if mode == 1:                       # single byte corruption anywhere (ciphertext or tag)
            j = rng.randrange(len(c))
            c = c[:j] + [c[j] ^ (1 << rng.randrange(8))] + c[j + 1:]
        elif mode == 2:                     # truncation
            c = c[:max(10, len(c) - rng.randrange(1, 17))]
        elif mode == 3:                     # wrong key
            k = _key(rng)
        elif mode == 4 and info is None:    # wrong media kind
            inf = list(infos[(i + 1) % 4])
        sc = {'inputs': {'self': {}, 'ciphertext': c, 'ref_key': k}}
        if info is None:
            sc['inputs']['media_info'] = inf
        yield sc


def gen_decrypt(rng, n):
    return _gen_dec(rng, n, None)


def gen_decrypt_image(rng, n):
    return _gen_dec(rng, min(n, 120), REF_IMAGE)


def gen_decrypt_audio(rng, n):
    return _gen_dec(rng, min(n, 120), REF_AUDIO)


def gen_decrypt_video(rng, n):
    return _gen_dec(rng, min(n, 120), REF_VIDEO)


def gen_decrypt_document(rng, n):
    return _gen_dec(rng, min(n, 120), REF_DOCUM)
