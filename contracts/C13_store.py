"""C13 - the encryption key store is durable and its updates are all-or-nothing across crashes.
Contracts on yowsup/axolotl/store/sqlite/*.py under the assumed transactional model of sqlite3 (pyvc/sqlmodel.py,
DESIGN.md appendix D): db_w(conn) is the working table state (what SELECT sees), db_d(conn) the durable state (what
a reopened database shows after a crash at this instant); DML changes W, commit() sets D := W atomically.

Every update gets three kinds of postcondition:
  functional   - over the WHOLE table view (exactly this key changes, every other key is left alone);
  durability   - at return D == W;
  crash atomic - after EVERY statement and commit of the call (at_every_db_event), the durable record being replaced
                 is either its previous or its new value and never missing if it existed, every other record untouched.
"""
from pyvc.lang import *

SESS = "yowsup/axolotl/store/sqlite/litesessionstore.py"
IDEN = "yowsup/axolotl/store/sqlite/liteidentitykeystore.py"
PREK = "yowsup/axolotl/store/sqlite/liteprekeystore.py"
SPRE = "yowsup/axolotl/store/sqlite/litesignedprekeystore.py"
SEND = "yowsup/axolotl/store/sqlite/litesenderkeystore.py"

R = "assumed contract of a python-axolotl record class: a pure function of the serialized bytes"

fields("LiteSessionStore", dbConn=Conn("LiteSessionStore"))
fields("LiteIdentityKeyStore", dbConn=Conn("LiteIdentityKeyStore"))
fields("LitePreKeyStore", dbConn=Conn("LitePreKeyStore"))
fields("LiteSignedPreKeyStore", dbConn=Conn("LiteSignedPreKeyStore"))
fields("LiteSenderKeyStore", dbConn=Conn("LiteSenderKeyStore"))

extern("record.serialize", event="record.serialize", returns=Bytes, pure=True)


@contract("<ext>", "axolotl.state.sessionrecord.SessionRecord", assumed=True, pure=True, reason=R)
def SessionRecord(sessionState: Opt(Opaque) = None, serialized: Opt(Bytes) = None) -> Opaque("record"):
    pass


@contract("<ext>", "axolotl.state.prekeyrecord.PreKeyRecord", assumed=True, pure=True, reason=R)
def PreKeyRecord(_id: Opt(Opaque) = None, ecKeyPair: Opt(Opaque) = None, serialized: Opt(Bytes) = None) -> Opaque("record"):
    pass


@contract("<ext>", "axolotl.state.signedprekeyrecord.SignedPreKeyRecord", assumed=True, pure=True, reason=R)
def SignedPreKeyRecord(_id: Opt(Opaque) = None, timestamp: Opt(Opaque) = None, ecKeyPair: Opt(Opaque) = None,
                       signature: Opt(Opaque) = None, serialized: Opt(Bytes) = None) -> Opaque("record"):
    pass


@contract("<ext>", "axolotl.groups.state.senderkeyrecord.SenderKeyRecord", assumed=True, pure=True, reason=R)
def SenderKeyRecord(serialized: Opt(Bytes) = None) -> Opaque("record"):
    pass


def unchanged_elsewhere(m, m0, k):
    """every record other than k is the same in m and m0"""
    return map_eq(map_del(m, k), map_del(m0, k))


def old_or_new(d, d0, k, new):
    """crash atomicity for the record k being written: previous or new value, never missing if it existed"""
    return unchanged_elsewhere(d, d0, k) \
        and implies(contains_key(d0, k), contains_key(d, k)) \
        and implies(contains_key(d, k), same_obj(map_get(d, k), new) or (contains_key(d0, k) and same_obj(map_get(d, k), map_get(d0, k))))


# =====================================================================================================================
# sessions
# =====================================================================================================================
def s_key(r):
    return key("LiteSessionStore", recipient_id=r)


def has_session(m, r, d):
    """a session row for recipient r exists and is the one for device d"""
    return contains_key(m, s_key(r)) and col_is("LiteSessionStore", map_get(m, s_key(r)), "device_id", d)


def read_only(conn):
    return map_eq(db_w(conn), old(db_w(conn))) and map_eq(db_d(conn), old(db_d(conn)))


@contract(SESS, "LiteSessionStore.loadSession")
def loadSession(self: Obj("LiteSessionStore"), recipientId: Int, deviceId: Int):
    # returns what was stored (deserialised), a fresh record if there is none; reads only
    ensures(implies(has_session(db_w(self.dbConn), recipientId, deviceId),
                    same_obj(result, pure_call("axolotl.state.sessionrecord.SessionRecord", None,
                                               col("LiteSessionStore", map_get(db_w(self.dbConn), s_key(recipientId)), "record")))))
    ensures(implies(not has_session(db_w(self.dbConn), recipientId, deviceId),
                    same_obj(result, pure_call("axolotl.state.sessionrecord.SessionRecord", None, None))))
    ensures(read_only(self.dbConn))


@contract(SESS, "LiteSessionStore.containsSession")
def containsSession(self: Obj("LiteSessionStore"), recipientId: Int, deviceId: Int) -> Bool:
    ensures(result == has_session(db_w(self.dbConn), recipientId, deviceId))
    ensures(read_only(self.dbConn))


@contract(SESS, "LiteSessionStore.deleteSession")
def deleteSession(self: Obj("LiteSessionStore"), recipientId: Int, deviceId: Int):
    requires(map_eq(db_w(self.dbConn), db_d(self.dbConn)))
    modifies(self.dbConn.W, self.dbConn.D)
    ensures(implies(has_session(old(db_w(self.dbConn)), recipientId, deviceId),
                    map_eq(db_w(self.dbConn), map_del(old(db_w(self.dbConn)), s_key(recipientId)))))
    ensures(implies(not has_session(old(db_w(self.dbConn)), recipientId, deviceId),
                    map_eq(db_w(self.dbConn), old(db_w(self.dbConn)))))
    ensures(map_eq(db_d(self.dbConn), db_w(self.dbConn)))
    ensures(at_every_db_event(self.dbConn, lambda d: unchanged_elsewhere(d, old(db_d(self.dbConn)), s_key(recipientId))))


def session_row(r, d, rec):
    return row("LiteSessionStore", recipient_id=r, device_id=d, record=getter("record.serialize", rec))


@contract(SESS, "LiteSessionStore.storeSession")
def storeSession(self: Obj("LiteSessionStore"), recipientId: Int, deviceId: Int, sessionRecord: Opaque("record")):
    requires(map_eq(db_w(self.dbConn), db_d(self.dbConn)))
    # the sessions table is UNIQUE on recipient_id alone: a session of the same recipient under another device id
    # cannot be replaced through this API (the INSERT fails); stated, not hidden
    requires(implies(contains_key(db_w(self.dbConn), s_key(recipientId)), has_session(db_w(self.dbConn), recipientId, deviceId)))
    modifies(self.dbConn.W, self.dbConn.D)
    ensures(map_eq(db_w(self.dbConn), map_put(old(db_w(self.dbConn)), s_key(recipientId), session_row(recipientId, deviceId, sessionRecord))))
    ensures(map_eq(db_d(self.dbConn), db_w(self.dbConn)))
    ensures(at_every_db_event(self.dbConn, lambda d: old_or_new(d, old(db_d(self.dbConn)), s_key(recipientId),
                                                                session_row(recipientId, deviceId, sessionRecord))))


@contract(SESS, "LiteSessionStore.getSubDeviceSessions")
def getSubDeviceSessions(self: Obj("LiteSessionStore"), recipientId: Int):
    ensures(read_only(self.dbConn))
    ensures(implies(not contains_key(db_w(self.dbConn), s_key(recipientId)), len(result) == 0))
    ensures(implies(contains_key(db_w(self.dbConn), s_key(recipientId)), len(result) == 1))


@contract(SESS, "LiteSessionStore.deleteAllSessions")
def deleteAllSessions(self: Obj("LiteSessionStore"), recipientId: Int):
    requires(map_eq(db_w(self.dbConn), db_d(self.dbConn)))
    modifies(self.dbConn.W, self.dbConn.D)
    ensures(implies(contains_key(old(db_w(self.dbConn)), s_key(recipientId)),
                    map_eq(db_w(self.dbConn), map_del(old(db_w(self.dbConn)), s_key(recipientId)))))
    ensures(implies(not contains_key(old(db_w(self.dbConn)), s_key(recipientId)), map_eq(db_w(self.dbConn), old(db_w(self.dbConn)))))
    ensures(map_eq(db_d(self.dbConn), db_w(self.dbConn)))
    ensures(at_every_db_event(self.dbConn, lambda d: unchanged_elsewhere(d, old(db_d(self.dbConn)), s_key(recipientId))))


# =====================================================================================================================
# pinned identities (recipient_id -> public key); the local key pair lives in the row recipient_id = -1
# =====================================================================================================================
extern("identitykey.getPublicKey", event="identitykey.getPublicKey", returns=Opaque("ecpublickey"), pure=True)
extern("ecpublickey.serialize", event="ecpublickey.serialize", returns=Bytes, pure=True)


def i_key(r):
    return key("LiteIdentityKeyStore", recipient_id=r)


def identity_row(r, k):
    return row("LiteIdentityKeyStore", recipient_id=r, public_key=getter("ecpublickey.serialize", getter("identitykey.getPublicKey", k)))


@contract(IDEN, "LiteIdentityKeyStore.saveIdentity")
def saveIdentity(self: Obj("LiteIdentityKeyStore"), recipientId: Int, identityKey: Opaque("identitykey")):
    requires(map_eq(db_w(self.dbConn), db_d(self.dbConn)))
    modifies(self.dbConn.W, self.dbConn.D)
    ensures(map_eq(db_w(self.dbConn), map_put(old(db_w(self.dbConn)), i_key(recipientId), identity_row(recipientId, identityKey))))
    ensures(map_eq(db_d(self.dbConn), db_w(self.dbConn)))
    # a crash while the pin is being replaced never un-pins the contact
    ensures(at_every_db_event(self.dbConn, lambda d: old_or_new(d, old(db_d(self.dbConn)), i_key(recipientId),
                                                                identity_row(recipientId, identityKey))))


@contract(IDEN, "LiteIdentityKeyStore.isTrustedIdentity")
def isTrustedIdentity(self: Obj("LiteIdentityKeyStore"), recipientId: Int, identityKey: Opaque("identitykey")) -> Bool:
    # trusted iff unknown contact, or byte-equal to the pinned key
    ensures(result == ((not contains_key(db_w(self.dbConn), i_key(recipientId)))
                       or col("LiteIdentityKeyStore", map_get(db_w(self.dbConn), i_key(recipientId)), "public_key")
                       == getter("ecpublickey.serialize", getter("identitykey.getPublicKey", identityKey))))
    ensures(read_only(self.dbConn))


@contract(IDEN, "LiteIdentityKeyStore.getLocalRegistrationId")
def getLocalRegistrationId(self: Obj("LiteIdentityKeyStore")):
    ensures(read_only(self.dbConn))
    ensures(implies(not contains_key(db_w(self.dbConn), i_key(-1)), result is None))
    ensures(implies(contains_key(db_w(self.dbConn), i_key(-1)) and not col_is_null("LiteIdentityKeyStore", map_get(db_w(self.dbConn), i_key(-1)), "registration_id"),
                    result == col("LiteIdentityKeyStore", map_get(db_w(self.dbConn), i_key(-1)), "registration_id")))


# =====================================================================================================================
# one-time prekeys (prekey_id -> sent_to_server flag, record)
# =====================================================================================================================
def p_key(i):
    return key("LitePreKeyStore", prekey_id=i)


@contract(PREK, "LitePreKeyStore.storePreKey")
def storePreKey(self: Obj("LitePreKeyStore"), preKeyId: Int, preKeyRecord: Opaque("record")):
    requires(map_eq(db_w(self.dbConn), db_d(self.dbConn)))
    modifies(self.dbConn.W, self.dbConn.D)
    # a prekey id is never reused: storing under an existing id is refused by the UNIQUE constraint, nothing changes
    raises(sqlite3.IntegrityError, when=contains_key(db_w(self.dbConn), p_key(preKeyId)),
           ensures=map_eq(db_w(self.dbConn), old(db_w(self.dbConn))) and map_eq(db_d(self.dbConn), old(db_d(self.dbConn))))
    # stored with the flag unset (NULL = not yet confirmed by the server)
    ensures(map_eq(db_w(self.dbConn), map_put(old(db_w(self.dbConn)), p_key(preKeyId),
                   row("LitePreKeyStore", prekey_id=preKeyId, record=getter("record.serialize", preKeyRecord)))))
    ensures(map_eq(db_d(self.dbConn), db_w(self.dbConn)))
    ensures(at_every_db_event(self.dbConn, lambda d: old_or_new(d, old(db_d(self.dbConn)), p_key(preKeyId),
            row("LitePreKeyStore", prekey_id=preKeyId, record=getter("record.serialize", preKeyRecord)))))


@contract(PREK, "LitePreKeyStore.loadPreKey")
def loadPreKey(self: Obj("LitePreKeyStore"), preKeyId: Int):
    raises(InvalidKeyIdException, when=not contains_key(db_w(self.dbConn), p_key(preKeyId)))
    ensures(same_obj(result, pure_call("axolotl.state.prekeyrecord.PreKeyRecord", None, None,
                                       col("LitePreKeyStore", map_get(db_w(self.dbConn), p_key(preKeyId)), "record"))))
    ensures(read_only(self.dbConn))


@contract(PREK, "LitePreKeyStore.containsPreKey")
def containsPreKey(self: Obj("LitePreKeyStore"), preKeyId: Int) -> Bool:
    ensures(result == contains_key(db_w(self.dbConn), p_key(preKeyId)) and read_only(self.dbConn))


@contract(PREK, "LitePreKeyStore.removePreKey")
def removePreKey(self: Obj("LitePreKeyStore"), preKeyId: Int):
    requires(map_eq(db_w(self.dbConn), db_d(self.dbConn)))
    modifies(self.dbConn.W, self.dbConn.D)
    ensures(implies(contains_key(old(db_w(self.dbConn)), p_key(preKeyId)),
                    map_eq(db_w(self.dbConn), map_del(old(db_w(self.dbConn)), p_key(preKeyId)))))
    ensures(implies(not contains_key(old(db_w(self.dbConn)), p_key(preKeyId)), map_eq(db_w(self.dbConn), old(db_w(self.dbConn)))))
    ensures(map_eq(db_d(self.dbConn), db_w(self.dbConn)))
    ensures(at_every_db_event(self.dbConn, lambda d: unchanged_elsewhere(d, old(db_d(self.dbConn)), p_key(preKeyId))))


@contract(PREK, "LitePreKeyStore.loadMaxPreKeyId")
def loadMaxPreKeyId(self: Obj("LitePreKeyStore")) -> Int:
    ensures(read_only(self.dbConn))
    ensures(implies(max_key(db_w(self.dbConn)) is None, result == 0))
    ensures(implies(max_key(db_w(self.dbConn)) is not None, result == max_key(db_w(self.dbConn))))


@contract(PREK, "LitePreKeyStore.loadUnsentPendingPreKeys")
def loadUnsentPendingPreKeys(self: Obj("LitePreKeyStore")):
    # exactly the rows whose flag is NULL or 0, deserialised, in table order
    ensures(read_only(self.dbConn))
    ensures(len(result) == len(rows_unsent(db_w(self.dbConn))))
    ensures(forall(range(0, len(result)), lambda i: same_obj(result[i], pure_call("axolotl.state.prekeyrecord.PreKeyRecord", None, None,
            col("LitePreKeyStore", rows_unsent(db_w(self.dbConn))[i], "record")))))


@contract(PREK, "LitePreKeyStore.loadPendingPreKeys")
def loadPendingPreKeys(self: Obj("LitePreKeyStore")):
    ensures(read_only(self.dbConn))
    ensures(len(result) == len(rows_all(db_w(self.dbConn))))
    ensures(forall(range(0, len(result)), lambda i: same_obj(result[i], pure_call("axolotl.state.prekeyrecord.PreKeyRecord", None, None,
            col("LitePreKeyStore", rows_all(db_w(self.dbConn))[i], "record")))))


# =====================================================================================================================
# signed prekeys
# =====================================================================================================================
def sp_key(i):
    return key("LiteSignedPreKeyStore", prekey_id=i)


@contract(SPRE, "LiteSignedPreKeyStore.storeSignedPreKey")
def storeSignedPreKey(self: Obj("LiteSignedPreKeyStore"), signedPreKeyId: Int, signedPreKeyRecord: Opaque("record")):
    requires(map_eq(db_w(self.dbConn), db_d(self.dbConn)))
    modifies(self.dbConn.W, self.dbConn.D)
    raises(sqlite3.IntegrityError, when=contains_key(db_w(self.dbConn), sp_key(signedPreKeyId)),
           ensures=map_eq(db_w(self.dbConn), old(db_w(self.dbConn))) and map_eq(db_d(self.dbConn), old(db_d(self.dbConn))))
    ensures(map_eq(db_w(self.dbConn), map_put(old(db_w(self.dbConn)), sp_key(signedPreKeyId),
                   row("LiteSignedPreKeyStore", prekey_id=signedPreKeyId, record=getter("record.serialize", signedPreKeyRecord)))))
    ensures(map_eq(db_d(self.dbConn), db_w(self.dbConn)))
    ensures(at_every_db_event(self.dbConn, lambda d: old_or_new(d, old(db_d(self.dbConn)), sp_key(signedPreKeyId),
            row("LiteSignedPreKeyStore", prekey_id=signedPreKeyId, record=getter("record.serialize", signedPreKeyRecord)))))


@contract(SPRE, "LiteSignedPreKeyStore.loadSignedPreKey")
def loadSignedPreKey(self: Obj("LiteSignedPreKeyStore"), signedPreKeyId: Int):
    raises(InvalidKeyIdException, when=not contains_key(db_w(self.dbConn), sp_key(signedPreKeyId)))
    ensures(same_obj(result, pure_call("axolotl.state.signedprekeyrecord.SignedPreKeyRecord", None, None, None, None,
                                       col("LiteSignedPreKeyStore", map_get(db_w(self.dbConn), sp_key(signedPreKeyId)), "record"))))
    ensures(read_only(self.dbConn))


@contract(SPRE, "LiteSignedPreKeyStore.containsSignedPreKey")
def containsSignedPreKey(self: Obj("LiteSignedPreKeyStore"), signedPreKeyId: Int) -> Bool:
    ensures(result == contains_key(db_w(self.dbConn), sp_key(signedPreKeyId)) and read_only(self.dbConn))


@contract(SPRE, "LiteSignedPreKeyStore.removeSignedPreKey")
def removeSignedPreKey(self: Obj("LiteSignedPreKeyStore"), signedPreKeyId: Int):
    requires(map_eq(db_w(self.dbConn), db_d(self.dbConn)))
    modifies(self.dbConn.W, self.dbConn.D)
    ensures(implies(contains_key(old(db_w(self.dbConn)), sp_key(signedPreKeyId)),
                    map_eq(db_w(self.dbConn), map_del(old(db_w(self.dbConn)), sp_key(signedPreKeyId)))))
    ensures(implies(not contains_key(old(db_w(self.dbConn)), sp_key(signedPreKeyId)), map_eq(db_w(self.dbConn), old(db_w(self.dbConn)))))
    ensures(map_eq(db_d(self.dbConn), db_w(self.dbConn)))
    ensures(at_every_db_event(self.dbConn, lambda d: unchanged_elsewhere(d, old(db_d(self.dbConn)), sp_key(signedPreKeyId))))


# =====================================================================================================================
# group sender keys ((group_id, sender_id) -> record), INSERT OR REPLACE: one statement, one commit
# =====================================================================================================================
extern("senderkeyname.getGroupId", event="senderkeyname.getGroupId", returns=Str, pure=True)
extern("senderkeyname.getSender", event="senderkeyname.getSender", returns=Opaque("address"), pure=True)
extern("address.getName", event="address.getName", returns=Int, pure=True)


def sk_key(n):
    return key("LiteSenderKeyStore", group_id=getter("senderkeyname.getGroupId", n),
               sender_id=getter("address.getName", getter("senderkeyname.getSender", n)))


def sk_row(n, rec):
    return row("LiteSenderKeyStore", group_id=getter("senderkeyname.getGroupId", n),
               sender_id=getter("address.getName", getter("senderkeyname.getSender", n)), record=getter("record.serialize", rec))


@contract(SEND, "LiteSenderKeyStore.storeSenderKey")
def storeSenderKey(self: Obj("LiteSenderKeyStore"), senderKeyName: Opaque("senderkeyname"), senderKeyRecord: Opaque("record")):
    requires(map_eq(db_w(self.dbConn), db_d(self.dbConn)))
    modifies(self.dbConn.W, self.dbConn.D)
    ensures(map_eq(db_w(self.dbConn), map_put(old(db_w(self.dbConn)), sk_key(senderKeyName), sk_row(senderKeyName, senderKeyRecord))))
    ensures(map_eq(db_d(self.dbConn), db_w(self.dbConn)))
    ensures(at_every_db_event(self.dbConn, lambda d: old_or_new(d, old(db_d(self.dbConn)), sk_key(senderKeyName),
                                                                sk_row(senderKeyName, senderKeyRecord))))


@contract(SEND, "LiteSenderKeyStore.loadSenderKey")
def loadSenderKey(self: Obj("LiteSenderKeyStore"), senderKeyName: Opaque("senderkeyname")):
    ensures(implies(contains_key(db_w(self.dbConn), sk_key(senderKeyName)),
                    same_obj(result, pure_call("axolotl.groups.state.senderkeyrecord.SenderKeyRecord",
                                               col("LiteSenderKeyStore", map_get(db_w(self.dbConn), sk_key(senderKeyName)), "record")))))
    ensures(implies(not contains_key(db_w(self.dbConn), sk_key(senderKeyName)),
                    same_obj(result, pure_call("axolotl.groups.state.senderkeyrecord.SenderKeyRecord", None))))
    ensures(read_only(self.dbConn))


# ---- the uploaded flag: set for exactly the given ids, in ONE transaction -----------------------------------------
@spec
def flag_one(m: Table, i: Int) -> Table:
    """UPDATE prekeys SET sent_to_server = 1 WHERE prekey_id = i"""
    if contains_key(m, key("LitePreKeyStore", prekey_id=i)):
        return map_put(m, key("LitePreKeyStore", prekey_id=i),
                       with_col("LitePreKeyStore", map_get(m, key("LitePreKeyStore", prekey_id=i)), "sent_to_server", 1))
    return m


@spec
def flag_all(m: Table, ids: SeqInt) -> Table:
    if len(ids) == 0:
        return m
    return flag_one(flag_all(m, ids[:-1]), ids[-1])


@contract(PREK, "LitePreKeyStore.setAsSent")
def setAsSent(self: Obj("LitePreKeyStore"), prekeyIds: ListInt):
    requires(map_eq(db_w(self.dbConn), db_d(self.dbConn)))
    modifies(self.dbConn.W, self.dbConn.D)
    # exactly the given ids get the flag, every other row (and every other column) is untouched
    ensures(map_eq(db_w(self.dbConn), flag_all(old(db_w(self.dbConn)), prekeyIds)))
    ensures(map_eq(db_d(self.dbConn), db_w(self.dbConn)))
    # all-or-nothing: until the single commit the durable state is the old one
    ensures(at_every_db_event(self.dbConn, lambda d: map_eq(d, old(db_d(self.dbConn))) or map_eq(d, flag_all(old(db_w(self.dbConn)), prekeyIds))))


@loop(PREK, "LitePreKeyStore.setAsSent", 1)
def setAsSent_loop(self, prekeyIds):
    invariant(map_eq(db_w(self.dbConn), flag_all(old(db_w(self.dbConn)), prekeyIds[:loop_k()])))
    invariant(map_eq(db_d(self.dbConn), old(db_d(self.dbConn))))
    invariant(at_every_db_event(self.dbConn, lambda d: map_eq(d, old(db_d(self.dbConn)))))


# ---- native scenario generators (real sqlite database per scenario; bounded stand-in and replay) ---------------------
def _rec(rng):
    return {'$record': [rng.randrange(256) for _ in range(rng.randrange(1, 12))]}


def _real_prekeys(lo, n):
    import importlib
    kh = importlib.import_module('axolotl.util.keyhelper').KeyHelper
    return kh.generatePreKeys(lo, n)


def _sess_rows(rng):
    ids = rng.sample(range(1, 6), rng.randrange(0, 4))
    return [{'recipient_id': i, 'device_id': 1, 'record': [rng.randrange(256) for _ in range(5)]} for i in ids]


def gen_storeSession(rng, n):
    for _ in range(min(n, 60)):
        yield {'inputs': {'self': {'dbConn': {'rows': _sess_rows(rng)}}, 'recipientId': rng.randrange(1, 6), 'deviceId': 1, 'sessionRecord': _rec(rng)}}


def gen_deleteSession(rng, n):
    for _ in range(min(n, 40)):
        yield {'inputs': {'self': {'dbConn': {'rows': _sess_rows(rng)}}, 'recipientId': rng.randrange(1, 6), 'deviceId': rng.choice([1, 1, 2])}}


def gen_containsSession(rng, n):
    return gen_deleteSession(rng, n)


def _id_rows(rng):
    ids = rng.sample(range(1, 6), rng.randrange(0, 4))
    return [{'recipient_id': i, 'public_key': [5] + [rng.randrange(256) for _ in range(4)]} for i in ids]


class _FakeIdentityKey:
    def __init__(self, b):
        self.b = b

    def getPublicKey(self):
        return self

    def serialize(self):
        return self.b

    def __deepcopy__(self, memo):
        return self


def _ik(rng, rows):
    if rows and rng.random() < 0.5:
        b = bytes(rng.choice(rows)['public_key'])
    else:
        b = bytes([5] + [rng.randrange(256) for _ in range(4)])
    return {'$call': "importlib.import_module('contracts.C13_store')._FakeIdentityKey(%r)" % (b,)}


def gen_saveIdentity(rng, n):
    for _ in range(min(n, 60)):
        rows = _id_rows(rng)
        yield {'inputs': {'self': {'dbConn': {'rows': rows}}, 'recipientId': rng.randrange(1, 6), 'identityKey': _ik(rng, rows)}}


def gen_isTrustedIdentity(rng, n):
    return gen_saveIdentity(rng, n)


def _pk_rows(rng):
    ids = sorted(rng.sample(range(1, 9), rng.randrange(0, 7)))
    keys = {k.getId(): k for k in _real_prekeys(1, 8)}
    return [{'prekey_id': i, 'sent_to_server': rng.choice([None, None, 0, 1]), 'record': list(keys[i].serialize())} for i in ids]


def gen_setAsSent(rng, n):
    for _ in range(min(n, 60)):
        rows = _pk_rows(rng)
        ids = [r['prekey_id'] for r in rows]
        pick = rng.sample(range(1, 10), rng.randrange(0, 4))
        if len(ids) >= 3 and rng.random() < 0.5:
            pick = [ids[0], ids[-1]]            # a non-consecutive batch with rows in between
        yield {'inputs': {'self': {'dbConn': {'rows': rows}}, 'prekeyIds': pick}}


def gen_loadUnsentPendingPreKeys(rng, n):
    for _ in range(min(n, 40)):
        yield {'inputs': {'self': {'dbConn': {'rows': _pk_rows(rng)}}}}


def gen_loadPendingPreKeys(rng, n):
    return gen_loadUnsentPendingPreKeys(rng, n)


def gen_storePreKey(rng, n):
    for _ in range(min(n, 40)):
        yield {'inputs': {'self': {'dbConn': {'rows': _pk_rows(rng)}}, 'preKeyId': rng.randrange(1, 10), 'preKeyRecord': _rec(rng)}}


def gen_removePreKey(rng, n):
    for _ in range(min(n, 40)):
        yield {'inputs': {'self': {'dbConn': {'rows': _pk_rows(rng)}}, 'preKeyId': rng.randrange(1, 10)}}


def gen_loadMaxPreKeyId(rng, n):
    return gen_loadUnsentPendingPreKeys(rng, n)
