"""PyVC symbolic interpreter: executes the *real* function bodies (ast of /repo files) over
symbolic values, one path at a time; loops are cut by sidecar invariants, calls to functions under
contract are replaced by their contracts, everything that leaves the verified text is an event.

Direct style with decision replay: `branch(c)` returns a Python bool taken from the current
decision prefix; the driver enumerates the prefixes.
"""
import ast
import z3

from . import theory as T
from .values import *
from .repo import ClassInfo, FuncInfo, ModuleInfo
from .contracts import Ty, parse_type
from . import prover


class Unsupported(Exception):
    def __init__(self, msg, node=None):
        self.msg = msg
        self.node = node
        line = getattr(node, 'lineno', '?')
        super().__init__('unsupported: %s @L%s' % (msg, line))


_LIT_CACHE = {}      # tuple of code points -> z3 literal term
_LIT_BACK = {}       # z3 ast id -> (term kept alive, list of code points): the way back, for contract text that needs a Python string


class RestartFunction(Unsupported):
    """The exploration of the current function has to start again (a loop body emitted events that the cut had not summarised;
    they are summarised from now on)."""


class PathEnd(Exception):
    """The current path is abandoned (assumption made it dead, or the loop body was closed)."""


class ReturnSig(Exception):
    def __init__(self, value):
        self.value = value


class BreakSig(Exception):
    pass


class ContinueSig(Exception):
    pass


class PyExc(Exception):
    """A Python exception raised by the interpreted program."""

    def __init__(self, exc):
        self.exc = exc


BUILTIN_EXC = {
    'BaseException': None, 'Exception': 'BaseException', 'ValueError': 'Exception', 'TypeError': 'Exception',
    'LookupError': 'Exception', 'IndexError': 'LookupError', 'KeyError': 'LookupError',
    'AssertionError': 'Exception', 'AttributeError': 'Exception', 'ArithmeticError': 'Exception',
    'ZeroDivisionError': 'ArithmeticError', 'OverflowError': 'ArithmeticError', 'RuntimeError': 'Exception',
    'NotImplementedError': 'RuntimeError', 'OSError': 'Exception', 'IOError': 'Exception',
    'FileNotFoundError': 'OSError', 'StopIteration': 'Exception', 'UnicodeError': 'ValueError',
    'UnicodeEncodeError': 'UnicodeError', 'UnicodeDecodeError': 'UnicodeError', 'struct.error': 'Exception',
    'zlib.error': 'Exception', 'binascii.Error': 'ValueError', 'sqlite3.IntegrityError': 'Exception',
    'socket.error': 'OSError', 'socket.timeout': 'OSError',
}


class Event:
    def __init__(self, name, args, kwargs=None, result=None):
        self.name = name
        self.args = args
        self.kwargs = kwargs or {}
        self.result = result

    def __repr__(self):
        return 'Event(%s, %r)' % (self.name, self.args)


class GhostSeg:
    """Summary of an unknown number of events of one name (a cut loop, or a callee under contract): ghost
    sequences, one per argument position."""

    def __init__(self, name, seq):
        self.name = name
        self.seq = seq      # VSeq: the first arguments of the events
        self.more = {}      # argument position j >= 1 -> VSeq over SeqO


class State:
    def __init__(self):
        self.pc = []
        self.heap = {}
        self.trace = []
        self.next_loc = 1
        self.counter = 0

    def snapshot(self):
        s = State()
        s.pc = list(self.pc)
        s.heap = dict(self.heap)
        s.trace = list(self.trace)
        s.next_loc = self.next_loc
        s.counter = self.counter
        if 'class_epoch' in self.__dict__:
            s.class_epoch = self.class_epoch
        return s


class Frame:
    def __init__(self, env, module, cls=None, finfo=None, parent=None, sidecar=None):
        self.env = env
        self.module = module
        self.cls = cls
        self.finfo = finfo
        self.parent = parent        # lexical parent frame (closures)
        self.sidecar = sidecar      # set when evaluating contract text
        self.spec = None            # SpecCtx when evaluating contract text
        self.loop_ctx = []


class SpecCtx:
    def __init__(self, old_state=None, entry_env=None, result=None, has_result=False, loop=None, exc=None):
        self.old_state = old_state
        self.entry_env = entry_env
        self.result = result
        self.has_result = has_result
        self.loop = loop
        self.exc = exc


class Obligation:
    def __init__(self, name, func, kind, status, backend, secs, path, detail='', model=None, goal=None):
        self.name, self.func, self.kind, self.status = name, func, kind, status
        self.backend, self.secs, self.path, self.detail, self.model, self.goal = backend, secs, path, detail, model, goal


def pow2(k):
    return 1 << k


class Interp:
    def __init__(self, ctx):
        self.ctx = ctx              # driver.Context
        self.repo = ctx.repo
        self.st = State()
        self.decisions = []
        self.dpos = 0
        self.pending = []           # alternative decision prefixes discovered on this path
        self.pure = 0
        self.cur_func = '?'
        self.depth = 0
        self.text_counts = {}
        self.callsite_counts = {}
        self.lits = {}
        self.assumed_used = set()
        self.inlined_used = set()
        self.opaque_used = set()
        self.handlers = []
        self.active_contract = None
        self.entry = None
        self.spec_fuel = None

    # ------------------------------------------------------------------------------------------
    # fresh symbols, literals
    # ------------------------------------------------------------------------------------------
    def fresh(self, prefix, sort):
        self.st.counter += 1
        return z3.Const('%s!%d' % (prefix, self.st.counter), sort)

    def fresh_int(self, prefix='i'):
        return self.fresh(prefix, T.I)

    def fresh_bool(self, prefix='b'):
        return self.fresh(prefix, T.B)

    def str_lit(self, s, kind='str'):
        """Literal as a unit/append term (so that concatenation and indexing axioms apply)."""
        if isinstance(s, str):
            codes = tuple(ord(c) for c in s)
        else:
            codes = tuple(s)
        # literal terms are immutable: built once per distinct literal (profiling: building and re-reading string literals was
        # 40% of the time spent on a function with a thousand paths)
        cache = _LIT_CACHE
        t = cache.get(codes)
        if t is None:
            t = T.SeqI.lit([z3.IntVal(c) for c in codes])
            cache[codes] = t
            _LIT_BACK[t.get_id()] = (t, list(codes))
        return VSeq(t, kind)

    # ------------------------------------------------------------------------------------------
    # path conditions, branching, obligations
    # ------------------------------------------------------------------------------------------
    def assume(self, cond):
        if isinstance(cond, bool):
            if not cond:
                raise PathEnd()
            return
        c = z3.simplify(cond)
        if z3.is_false(c):
            raise PathEnd()
        if z3.is_true(c):
            return
        self.st.pc.append(cond)

    def axioms(self, light=False):
        return self.ctx.axioms(light)

    def branch(self, cond):
        """Decide a symbolic condition.  Returns a Python bool; records the alternative."""
        if isinstance(cond, bool):
            return cond
        c = z3.simplify(cond)
        if z3.is_true(c):
            return True
        if z3.is_false(c):
            return False
        if self.pure:
            raise Unsupported('branch in pure (spec) evaluation: %s' % c)
        if self.dpos < len(self.decisions):
            d = self.decisions[self.dpos]
            self.dpos += 1
            self.st.pc.append(cond if d else z3.Not(cond))
            return d
        ft = prover.feasible(self.axioms(True), self.st.pc, cond)
        ff = prover.feasible(self.axioms(True), self.st.pc, z3.Not(cond))
        if ft and ff:
            self.pending.append(self.decisions[:self.dpos] + [False])
            d = True
        elif ft:
            d = True
        elif ff:
            d = False
        else:
            raise PathEnd()
        self.decisions = self.decisions[:self.dpos] + [d]
        self.dpos += 1
        self.st.pc.append(cond if d else z3.Not(cond))
        return d

    def exc_allowed_or_caught(self, exc):
        return self.ctx.exception_allowed(self, exc)

    def provable(self, cond, timeout_ms=2000):
        """Quick side query used to choose an encoding (never a verdict)."""
        if isinstance(cond, bool):
            return cond
        c = z3.simplify(cond)
        if z3.is_true(c):
            return True
        if z3.is_false(c):
            return False
        r = prover.check_valid(self.axioms(True), self.st.pc, cond, timeout_ms=timeout_ms, external=False)
        return r.status == 'unsat'

    def _oblname(self, kind, node=None, text=None):
        if text is None and node is not None:
            try:
                text = ast.unparse(node)
            except Exception:
                text = '?'
        text = (text or '')[:60]
        return '%s:%s[%s]' % (self.cur_func, kind, text) if text else '%s:%s' % (self.cur_func, kind)

    def prove(self, name, kind, goal, node=None, detail=''):
        """Record an obligation PC => goal."""
        if isinstance(goal, bool):
            goal = z3.BoolVal(goal)
        g = z3.simplify(goal)
        line = getattr(node, 'lineno', None)
        if z3.is_true(g):
            self.ctx.record(Obligation(name, self.cur_func, kind, 'discharged', 'trivial', 0.0, list(self.decisions[:self.dpos]), detail))
            return True
        ok_all = True
        fc = self.ctx.__dict__.setdefault('fail_counts', {})
        if fc.get(name, 0) >= 3:
            # the same obligation already failed on three paths: do not spend the budget again (still counted as failed)
            self.ctx.record(Obligation(name, self.cur_func, kind, 'failed', 'skipped', 0.0, list(self.decisions[:self.dpos]),
                                       'not re-attempted: this obligation already failed on 3 other paths'))
            self.st.pc.append(goal)
            return False
        for gi in prover.split_conj(goal):
            if z3.is_true(z3.simplify(gi)):
                continue
            r = prover.check_valid(self.axioms(), self.st.pc, gi, timeout_ms=self.ctx.timeout_ms, seed=self.ctx.seed)
            if r.status == 'unsat':
                self.ctx.record(Obligation(name, self.cur_func, kind, 'discharged', r.backend, r.secs,
                                           list(self.decisions[:self.dpos]), detail))
            else:
                ok_all = False
                ob = Obligation(name, self.cur_func, kind, 'failed', r.backend, r.secs,
                                list(self.decisions[:self.dpos]),
                                detail + (' line %s' % line if line else '') + ' goal: %s' % str(z3.simplify(gi))[:400] + ' reason: %s' % r.reason,
                                model=r.model, goal=gi)
                hook = getattr(self.ctx, 'on_fail', None)
                if hook is not None:
                    try:
                        hook(self, ob, r.model)
                    except Exception as e:      # concretisation must never turn into a verdict
                        ob.detail += ' (concretisation failed: %r)' % (e,)
                ob.model = None
                fc[name] = fc.get(name, 0) + 1
                self.ctx.record(ob)
            # continue under the assumption, as verifiers do, to avoid cascades
        self.st.pc.append(goal)
        return ok_all

    def require(self, cond, kind, node, exc=None):
        """Safety obligation: the partial operation at `node` is defined.  If the contract of the
        function under verification allows the exception class (`raises`), fork instead."""
        if isinstance(cond, bool) and cond:
            return
        if exc is not None and self.ctx.exception_allowed(self, exc):
            if not self.branch(cond):
                raise PyExc(VExc(exc, origin=kind))
            return
        name = self._oblname('safety:' + kind, node)
        self.prove(name, 'safety', cond, node)

    # ------------------------------------------------------------------------------------------
    # heap
    # ------------------------------------------------------------------------------------------
    def alloc(self, cell):
        loc = self.st.next_loc
        self.st.next_loc += 1
        self.st.heap[loc] = cell
        return VRef(loc)

    def cell(self, ref):
        return self.st.heap[ref.loc]

    def is_list(self, v):
        return isinstance(v, VRef) and isinstance(self.st.heap.get(v.loc), HList)

    def is_obj(self, v):
        return isinstance(v, VRef) and isinstance(self.st.heap.get(v.loc), HObj)

    def is_dict(self, v):
        return isinstance(v, VRef) and isinstance(self.st.heap.get(v.loc), HDict)

    def list_to_seq(self, items, kind='list', hint=None):
        """Concrete python list of V -> VSeq, if homogeneous."""
        if all(isinstance(x, VInt) for x in items) and (items or hint in (None, 'int')):
            return VSeq(T.SeqI.lit([x.t for x in items]), kind, T.SeqI)
        if items and all(isinstance(x, VBool) for x in items):
            return VSeq(T.SeqI.lit([z3.If(x.t, 1, 0) for x in items]), kind, T.SeqI)
        if items and all(isinstance(x, VSeq) and x.th is T.SeqI for x in items):
            return VSeq(T.SeqS.lit([x.t for x in items]), kind, T.SeqS, ekind=items[0].kind)
        if items and all(isinstance(x, VOpaque) for x in items):
            return VSeq(T.SeqO.lit([x.t for x in items]), kind, T.SeqO)
        if not items and hint == 'seq':
            return VSeq(T.SeqS.Empty, kind, T.SeqS)
        if not items and hint == 'obj':
            return VSeq(T.SeqO.Empty, kind, T.SeqO)
        return None

    def seq_of(self, v, node=None, want=None):
        """View a value as an immutable VSeq (lists/bytearrays through the heap)."""
        v = self.unwrap(v, node)
        if isinstance(v, VSeq):
            return v
        if isinstance(v, VOpaque) and v.label in ('missing', 'undefined') and self.pure:
            # spec text about an event / value that does not exist on this path (the clause is guarded): an unconstrained sequence
            self.ctx.qcount += 1
            th = {'seq': T.SeqS, 'obj': T.SeqO}.get(want, T.SeqI)
            return VSeq(z3.Const('undefined-seq!%d' % self.ctx.qcount, th.sort), 'list', th)
        if isinstance(v, VOpaque) and self.pure:
            # spec text taking the length / elements of a value known only as an object term (an argument of a SUMMARISED event): the
            # sequence that object is - a function of the object, nothing else known
            th = {'seq': T.SeqS, 'int': T.SeqI}.get(want, T.SeqO)
            return VSeq(self.ctx.uf('obj_as_' + str(th.sort), T.Obj, th.sort)(v.t), 'list', th)
        if isinstance(v, VRef):
            c = self.st.heap.get(v.loc)
            if isinstance(c, HList):
                if isinstance(c.content, VSeq):
                    return c.content
                s = self.list_to_seq(c.content, c.kind, hint=want)
                if s is None:
                    raise Unsupported('heterogeneous list used as a sequence', node)
                return s
        if isinstance(v, VTuple):
            s = self.list_to_seq(v.items, 'tuple', hint=want)
            if s is not None:
                return s
        raise Unsupported('not a sequence: %r' % (v,), node)

    def wrap_elem(self, seq, t):
        if seq.th is T.SeqI:
            if seq.kind == 'str':
                return VSeq(T.SeqI.Unit(t), 'str')
            return VInt(t)
        if seq.th is T.SeqS:
            return VSeq(t, seq.ekind or 'bytes')
        if seq.th is T.SeqO:
            return VOpaque(t, seq.ekind or '')
        th = seq.th
        wrap = getattr(th, 'wrap', None)
        if wrap:
            return wrap(self, t)
        raise Unsupported('element of %s' % seq.th.name)

    def elem_term(self, seq_th, v, node=None):
        v = self.unwrap(v, node)
        if seq_th is T.SeqI:
            if isinstance(v, VInt):
                return v.t
            if isinstance(v, VBool):
                return z3.If(v.t, 1, 0)
        if seq_th is T.SeqS and isinstance(v, VSeq) and v.th is T.SeqI:
            return v.t
        if seq_th is T.SeqS and isinstance(v, VRef) and self.is_list(v):
            return self.seq_of(v).t
        if seq_th is T.SeqO:
            return self.ctx.obj_term(self, v, node)
        unwrap = getattr(seq_th, 'unwrap', None)
        if unwrap:
            return unwrap(self, v)
        raise Unsupported('cannot store %r into %s' % (v, seq_th.name), node)

    # ------------------------------------------------------------------------------------------
    # dynamic typing helpers
    # ------------------------------------------------------------------------------------------
    def unwrap(self, v, node=None):
        """Dynamic dispatch on Optional: fork on None-ness."""
        while isinstance(v, VOpt):
            if self.pure:
                return v.val
            if self.branch(v.is_none):
                return NONE
            v = v.val
        return v

    def truthy(self, v, node=None):
        if isinstance(v, VBool):
            return v.t
        if isinstance(v, VInt):
            return v.t != 0
        if isinstance(v, VNone):
            return z3.BoolVal(False)
        if isinstance(v, VSeq):
            return v.th.Len(v.t) > 0
        if isinstance(v, VTuple):
            return z3.BoolVal(len(v.items) > 0)
        if isinstance(v, VOpt):
            return z3.And(z3.Not(v.is_none), self.truthy(v.val, node))
        if isinstance(v, VRef):
            c = self.cell(v)
            if isinstance(c, HList):
                if isinstance(c.content, VSeq):
                    return c.content.th.Len(c.content.t) > 0
                return z3.BoolVal(len(c.content) > 0)
            if isinstance(c, HDict):
                if isinstance(c.content, list):
                    return z3.BoolVal(len(c.content) > 0)
                return self.ctx.map_nonempty(c.content)
            if isinstance(c, HObj):
                if c.cls is not None and (c.cls.find_method(self.repo, '__bool__') or c.cls.find_method(self.repo, '__len__')):
                    raise Unsupported('truthiness of object with __bool__/__len__', node)
                return z3.BoolVal(True)
        if isinstance(v, VOpaque):
            return self.ctx.obj_truthy(v.t)
        if isinstance(v, (VFunc, VClosure, VBuiltin, VClass, VType, VModule, VSpecFunc, VExc)):
            return z3.BoolVal(True)
        if isinstance(v, VRat):
            return v.num != 0
        raise Unsupported('truthiness of %r' % (v,), node)

    def type_name(self, v, node=None):
        v = self.unwrap(v, node)
        if isinstance(v, VBool):
            return 'bool'
        if isinstance(v, VInt):
            return 'int'
        if isinstance(v, VNone):
            return 'NoneType'
        if isinstance(v, VSeq):
            return v.kind
        if isinstance(v, VTuple):
            return 'tuple'
        if isinstance(v, VRat):
            return 'float'
        if isinstance(v, VRef):
            c = self.cell(v)
            if isinstance(c, HList):
                return c.kind
            if isinstance(c, HDict):
                return 'dict'
            if isinstance(c, HObj):
                return ('class', c.cls) if c.cls else ('ext', c.extname)
        if isinstance(v, (VFunc, VClosure, VBuiltin)):
            return 'function'
        raise Unsupported('type() of %r' % (v,), node)

    # ------------------------------------------------------------------------------------------
    # equality
    # ------------------------------------------------------------------------------------------
    def veq(self, a, b, node=None):
        """Python `a == b` as a z3 Bool."""
        if (isinstance(a, VOpaque) and a.label == 'missing') or (isinstance(b, VOpaque) and b.label == 'missing'):
            self.ctx.qcount += 1
            return z3.Const('missing-cmp!%d' % self.ctx.qcount, T.B)
        if isinstance(a, VOpt):
            return z3.If(a.is_none, self.veq(NONE, b, node), self.veq(a.val, b, node))
        if isinstance(b, VOpt):
            return z3.If(b.is_none, self.veq(a, NONE, node), self.veq(a, b.val, node))
        if (isinstance(a, VNone) and isinstance(b, VOpaque)) or (isinstance(b, VNone) and isinstance(a, VOpaque)):
            x = a if isinstance(a, VOpaque) else b
            return x.t == self.ctx.NONE_OBJ         # a value known only as a term may be None
        if isinstance(a, VNone) or isinstance(b, VNone):
            return z3.BoolVal(isinstance(a, VNone) and isinstance(b, VNone))
        num = lambda x: x.t if isinstance(x, VInt) else z3.If(x.t, 1, 0)
        if isinstance(a, (VInt, VBool)) and isinstance(b, (VInt, VBool)):
            if isinstance(a, VBool) and isinstance(b, VBool):
                return a.t == b.t
            return num(a) == num(b)
        if isinstance(a, VRat) or isinstance(b, VRat):
            if isinstance(a, VRat) and isinstance(b, VInt):
                return a.num == b.t * a.den
            if isinstance(b, VRat) and isinstance(a, VInt):
                return b.num == a.t * b.den
            raise Unsupported('float comparison', node)
        if isinstance(a, VRef) and isinstance(b, VRef) and a.loc == b.loc:
            return z3.BoolVal(True)
        sa = self._as_seq_or_none(a)
        sb = self._as_seq_or_none(b)
        if sa is not None and sb is not None:
            ka, kb = self._eqclass(sa.kind), self._eqclass(sb.kind)
            if ka != kb and not self.pure:
                return z3.BoolVal(False)
            if sa.th is not sb.th:
                if self._known_empty(sa) or self._known_empty(sb):
                    return z3.And(sa.th.Len(sa.t) == 0, sb.th.Len(sb.t) == 0)
                raise Unsupported('comparison of sequences over different element sorts', node)
            return sa.t == sb.t
        if isinstance(a, VTuple) and isinstance(b, VTuple):
            if len(a.items) != len(b.items):
                return z3.BoolVal(False)
            return z3.And(*[self.veq(x, y, node) for x, y in zip(a.items, b.items)]) if a.items else z3.BoolVal(True)
        if isinstance(a, VOpaque) and isinstance(b, VOpaque):
            return a.t == b.t
        if isinstance(a, VOpaque) or isinstance(b, VOpaque):
            x, y = (a, b) if isinstance(a, VOpaque) else (b, a)
            if isinstance(y, (VSeq, VInt, VBool)) or (self.pure and isinstance(y, VRef)):
                return x.t == self.ctx.obj_term(self, y, node)
        if (isinstance(a, VOpaque) and isinstance(b, VClass)) or (isinstance(b, VOpaque) and isinstance(a, VClass)):
            x, c = (a, b) if isinstance(a, VOpaque) else (b, a)
            return x.t == self.ctx.class_const(c.info)
        if (isinstance(a, VOpaque) and isinstance(b, VBuiltin) and b.self_val is None) or (isinstance(b, VOpaque) and isinstance(a, VBuiltin) and a.self_val is None):
            x, c = (a, b) if isinstance(a, VOpaque) else (b, a)
            return x.t == z3.Const('extname.' + c.name, T.Obj)      # an external class / function as a constant (e.g. x.__class__ == WhisperMessage)
        if isinstance(a, VType) and isinstance(b, VType):
            return z3.BoolVal(a.name == b.name)
        if isinstance(a, VClass) and isinstance(b, VClass):
            return z3.BoolVal(a.info is b.info)
        if isinstance(a, VRef) and isinstance(b, VRef):
            ca, cb = self.cell(a), self.cell(b)
            if isinstance(ca, HObj) and isinstance(cb, HObj):
                if ca.cls is not None and ca.cls.find_method(self.repo, '__eq__'):
                    raise Unsupported('user-defined __eq__', node)
                return z3.BoolVal(a.loc == b.loc)
            if isinstance(ca, HDict) and isinstance(cb, HDict):
                return self.ctx.dict_eq(self, ca, cb, node)
        if type(a) is not type(b):
            simple = (VInt, VBool, VSeq, VTuple, VNone)
            if isinstance(a, simple) and isinstance(b, simple):
                return z3.BoolVal(False)
        raise Unsupported('equality of %r and %r' % (a, b), node)

    def _known_empty(self, s):
        return z3.eq(s.t, s.th.Empty)

    @staticmethod
    def _eqclass(kind):
        return {'bytes': 'bytes', 'bytearray': 'bytes', 'str': 'str', 'list': 'list', 'tuple': 'tuple'}[kind]

    def _as_seq_or_none(self, v):
        if isinstance(v, VSeq):
            return v
        if isinstance(v, VRef):
            c = self.cell(v)
            if isinstance(c, HList):
                if isinstance(c.content, VSeq):
                    return c.content
                return self.list_to_seq(c.content, c.kind)
        if isinstance(v, VTuple):
            return None
        return None

    def videntical(self, a, b, node=None):
        """Python `a is b`."""
        if isinstance(a, VOpt) and isinstance(b, VNone):
            return a.is_none
        if isinstance(b, VOpt) and isinstance(a, VNone):
            return b.is_none
        if isinstance(a, VOpt) or isinstance(b, VOpt):
            a, b = self.unwrap(a, node), self.unwrap(b, node)
        if (isinstance(a, VNone) and isinstance(b, VOpaque)) or (isinstance(b, VNone) and isinstance(a, VOpaque)):
            x = a if isinstance(a, VOpaque) else b
            return x.t == self.ctx.NONE_OBJ         # a value known only as a term may be None (objects declared Opaque(...) are assumed not to be)
        if isinstance(a, VNone) or isinstance(b, VNone):
            return z3.BoolVal(isinstance(a, VNone) and isinstance(b, VNone))
        if (isinstance(a, VOpaque) and isinstance(b, VClass)) or (isinstance(b, VOpaque) and isinstance(a, VClass)):
            x, c = (a, b) if isinstance(a, VOpaque) else (b, a)
            return x.t == self.ctx.class_const(c.info)
        if (isinstance(a, VOpaque) and isinstance(b, (VBuiltin, VType))) or (isinstance(b, VOpaque) and isinstance(a, (VBuiltin, VType))):
            # the class of an object of an unverified library against an external class / builtin type: a constant per name
            x, c = (a, b) if isinstance(a, VOpaque) else (b, a)
            if isinstance(c, VType) or c.self_val is None:
                return x.t == z3.Const(('type.' if isinstance(c, VType) else 'extname.') + c.name, T.Obj)
        if isinstance(a, VType) and isinstance(b, VType):
            return z3.BoolVal(a.name == b.name)
        if isinstance(a, VType) or isinstance(b, VType):
            x, y = (a, b) if isinstance(a, VType) else (b, a)
            if isinstance(y, VClass):
                return z3.BoolVal(False)
        if isinstance(a, VClass) and isinstance(b, VClass):
            return z3.BoolVal(a.info is b.info)
        if isinstance(a, VRef) and isinstance(b, VRef):
            return z3.BoolVal(a.loc == b.loc)
        if isinstance(a, VBool) and isinstance(b, VBool):
            return a.t == b.t
        if isinstance(a, VInt) and isinstance(b, VInt):
            return a.t == b.t       # small-int identity; only used by `x is 0`-style code
        if isinstance(a, VOpaque) and isinstance(b, VOpaque):
            return a.t == b.t
        if type(a) is not type(b):
            return z3.BoolVal(False)
        raise Unsupported('identity of %r and %r' % (a, b), node)

    # ------------------------------------------------------------------------------------------
    # name resolution
    # ------------------------------------------------------------------------------------------
    def lookup(self, name, frame, node=None):
        f = frame
        while f is not None:
            if name in f.env:
                return f.env[name]
            f = f.parent
        if frame.sidecar is not None:
            r = self.ctx.sidecar_lookup(self, frame.sidecar, name)
            if r is not None:
                return r
            if name[:1].isupper() and frame.module is None:
                # contract text may name a repository class (its class-level state, isinstance): resolved by its unique name
                ci = self.ctx.find_class_by_name(name)
                if ci is not None:
                    return VClass(ci)
        if frame.cls is not None and frame.finfo is None:
            # evaluation of a class-body expression: earlier class attributes are in scope
            a = frame.cls.find_attr(self.repo, name)
            if a is not None:
                owner, expr = a
                return self.ev(expr, Frame({}, owner.module, owner))
        if frame.module is not None:
            r = frame.module.lookup(self.repo, name)
            if r is not None:
                return self.static_value(r, frame, node)
        b = self.ctx.builtin_name(name)
        if b is not None:
            return b
        if frame.module is not None:
            # `from external.module import *`: a name the sidecar declares as an extern of exactly that module
            for dotted in getattr(frame.module, 'star_imports', []):
                if self.repo.module_by_dotted(dotted) is None:
                    cand = dotted + '.' + name
                    R = self.ctx.registry
                    if cand in R.externs or ('<ext>', cand) in R.contracts:
                        return self.static_value(('ext', cand), frame, node)
        raise Unsupported('unbound name %s' % name, node)

    def static_value(self, r, frame, node=None):
        if isinstance(r, ClassInfo):
            return VClass(r)
        if isinstance(r, FuncInfo):
            return VFunc(r)
        if isinstance(r, ModuleInfo):
            return VModule(r)
        if isinstance(r, tuple) and r[0] == 'ext':
            return self.ctx.extern_value(r[1])
        if isinstance(r, tuple) and r[0] == 'assign':
            _, mod, expr = r
            return self.ev(expr, Frame({}, mod))
        raise Unsupported('cannot resolve %r' % (r,), node)

    # ------------------------------------------------------------------------------------------
    # expressions
    # ------------------------------------------------------------------------------------------
    def ev(self, node, frame):
        m = getattr(self, 'ev_' + type(node).__name__, None)
        if m is None:
            raise Unsupported('expression %s' % type(node).__name__, node)
        return m(node, frame)

    def ev_Constant(self, node, frame):
        v = node.value
        if isinstance(v, bool):
            return VBool(v)
        if isinstance(v, int):
            return VInt(v)
        if v is None:
            return NONE
        if isinstance(v, str):
            return self.str_lit(v, 'str')
        if isinstance(v, bytes):
            return self.str_lit(v, 'bytes')
        raise Unsupported('constant %r' % (v,), node)

    def ev_Name(self, node, frame):
        if frame.spec is not None and node.id == 'result':
            if not frame.spec.has_result:
                raise Unsupported('result used outside a postcondition', node)
            return frame.spec.result
        return self.lookup(node.id, frame, node)

    def ev_Tuple(self, node, frame):
        return VTuple([self.ev(e, frame) for e in node.elts])

    def ev_List(self, node, frame):
        items = [self.ev(e, frame) for e in node.elts]
        if self.pure:
            s = self.list_to_seq(items, 'list')
            if s is None:
                raise Unsupported('heterogeneous list in spec', node)
            return s
        return self.alloc(HList(items, 'list'))

    def ev_Dict(self, node, frame):
        items = []
        for k, v in zip(node.keys, node.values):
            if k is None:
                raise Unsupported('dict unpacking', node)
            items.append((self.ev(k, frame), self.ev(v, frame)))
        return self.alloc(HDict(items))

    def ev_ListComp(self, node, frame):
        if len(node.generators) != 1 or node.generators[0].is_async:
            raise Unsupported('nested comprehension', node)
        g = node.generators[0]
        it = self.unwrap(self.ev(g.iter, frame), node)
        items = self.ctx.loops.concrete_items(self, it)
        if items is None:
            h = self.ctx.comprehension_hook(self, node, it, frame)
            if h is not None:
                return h
            return self.symbolic_comprehension(node, it, frame)
        out = []
        fr = Frame({}, frame.module, frame.cls, frame.finfo, parent=frame, sidecar=frame.sidecar)
        fr.spec = frame.spec
        for x in items:
            self.assign(g.target, x, fr)
            ok = True
            for cond in g.ifs:
                if not self.branch(self.truthy(self.ev(cond, fr), node)):
                    ok = False
                    break
            if ok:
                out.append(self.ev(node.elt, fr))
        if self.pure:
            sq = self.list_to_seq(out, 'list')
            if sq is None:
                raise Unsupported('heterogeneous comprehension in spec', node)
            return sq
        return self.alloc(HList(out, 'list'))

    def ev_GeneratorExp(self, node, frame):
        return self.ev_ListComp(node, frame)

    def ev_Lambda(self, node, frame):
        return VClosure(node, None, frame)

    def ev_IfExp(self, node, frame):
        static = self.ctx.static_test(self, node.test, frame)
        if static is not None:
            return self.ev(node.body if static else node.orelse, frame)
        c = self.truthy(self.ev(node.test, frame), node)
        if self.pure:
            cs = z3.simplify(c)
            if z3.is_true(cs):
                return self.ev(node.body, frame)
            if z3.is_false(cs):
                return self.ev(node.orelse, frame)
            a = self.ev(node.body, frame)
            b = self.ev(node.orelse, frame)
            try:
                return self.merge(c, a, b, node)
            except Unsupported:
                # values that cannot be merged (e.g. tuples of different length): decide the test under the path condition
                if self.provable(c):
                    return a
                if self.provable(z3.Not(c)):
                    return b
                raise
        if isinstance(node.orelse, ast.Constant) and node.orelse.value is None:
            # `e if c else None`: an optional value, no fork
            ok, v = self.eval_under(c, lambda: self.ev(node.body, frame))
            if ok:
                if isinstance(v, VOpt) and isinstance(v.val, (VOpaque, VInt, VBool, VSeq)):
                    return VOpt(z3.Or(z3.Not(c), v.is_none), v.val)
                if isinstance(v, (VOpaque, VInt, VBool, VSeq)):
                    return VOpt(z3.Not(c), v)
                if isinstance(v, VNone):
                    return NONE
                if isinstance(v, VRef) and self.is_obj(v):
                    return VOpt(z3.Not(c), v)
        if self.branch(c):
            return self.ev(node.body, frame)
        return self.ev(node.orelse, frame)

    def merge(self, c, a, b, node=None):
        if isinstance(a, VInt) and isinstance(b, VInt):
            return VInt(z3.If(c, a.t, b.t))
        if isinstance(a, VBool) and isinstance(b, VBool):
            return VBool(z3.If(c, a.t, b.t))
        if isinstance(a, VSeq) and isinstance(b, VSeq) and a.th is b.th:
            return VSeq(z3.If(c, a.t, b.t), a.kind, a.th, a.ekind)
        if isinstance(a, VSeq) and isinstance(b, VSeq):
            if self._known_empty(a):
                return VSeq(z3.If(c, b.th.Empty, b.t), b.kind, b.th, b.ekind)
            if self._known_empty(b):
                return VSeq(z3.If(c, a.t, a.th.Empty), a.kind, a.th, a.ekind)
        if isinstance(a, VOpaque) and isinstance(b, VOpaque):
            return VOpaque(z3.If(c, a.t, b.t))
        if isinstance(a, VMap) and isinstance(b, VMap) and a.th is b.th:
            return VMap(z3.If(c, a.t, b.t), a.th, a.kkind, a.vkind)
        if isinstance(a, VNone) and isinstance(b, VNone):
            return NONE
        if isinstance(a, VNone):
            if isinstance(b, VOpt):
                return VOpt(z3.Or(c, b.is_none), b.val)
            return VOpt(c, b)
        if isinstance(b, VNone):
            if isinstance(a, VOpt):
                return VOpt(z3.Or(z3.Not(c), a.is_none), a.val)
            return VOpt(z3.Not(c), a)
        if isinstance(a, VOpt) and isinstance(b, VOpt):
            return VOpt(z3.If(c, a.is_none, b.is_none), self.merge(c, a.val, b.val, node))
        if isinstance(a, VOpt):
            return VOpt(z3.And(c, a.is_none), self.merge(c, a.val, b, node))
        if isinstance(b, VOpt):
            return VOpt(z3.And(z3.Not(c), b.is_none), self.merge(c, a, b.val, node))
        if isinstance(a, VTuple) and isinstance(b, VTuple) and len(a.items) == len(b.items):
            return VTuple([self.merge(c, x, y, node) for x, y in zip(a.items, b.items)])
        m = self.ctx.merge_hook(self, c, a, b)
        if m is not None:
            return m
        raise Unsupported('cannot merge %r / %r' % (a, b), node)

    def ev_BoolOp(self, node, frame):
        is_and = isinstance(node.op, ast.And)
        if self.pure:
            vals = [self.ev(v, frame) for v in node.values]
            if all(isinstance(v, (VBool, VOpaque)) for v in vals) or frame.spec is not None:
                # contract text: and / or are the logical connectives
                ts = [self.truthy(v, node) for v in vals]
                return VBool(z3.And(*ts) if is_and else z3.Or(*ts))
            # value-returning and/or in spec text
            acc = vals[-1]
            for v in reversed(vals[:-1]):
                c = self.truthy(v, node)
                acc = self.merge(c, acc, v, node) if is_and else self.merge(c, v, acc, node)
            return acc
        v = None
        for i, e in enumerate(node.values):
            v = self.ev(e, frame)
            if i == len(node.values) - 1:
                return v
            t = self.branch(self.truthy(v, node))
            if is_and and not t:
                return v
            if (not is_and) and t:
                return v
        return v

    def ev_UnaryOp(self, node, frame):
        v = self.ev(node.operand, frame)
        if isinstance(node.op, ast.Not):
            return VBool(z3.Not(self.truthy(v, node)))
        v = self.unwrap(v, node)
        if isinstance(node.op, ast.USub):
            if isinstance(v, VInt):
                return VInt(-v.t)
            if isinstance(v, VBool):
                return VInt(-z3.If(v.t, 1, 0))
        if isinstance(node.op, ast.UAdd) and isinstance(v, VInt):
            return v
        raise Unsupported('unary %s on %r' % (type(node.op).__name__, v), node)

    def as_int(self, v, node=None):
        v = self.unwrap(v, node)
        if isinstance(v, VInt):
            return v.t
        if isinstance(v, VBool):
            return z3.If(v.t, z3.IntVal(1), z3.IntVal(0))
        if isinstance(v, VOpaque) and self.pure:
            return self.ctx.obj_int(v.t)        # spec text: the integer a term stands for (unconstrained when it stands for none)
        raise Unsupported('int expected, got %r' % (v,), node)

    def ev_BinOp(self, node, frame):
        a = self.ev(node.left, frame)
        b = self.ev(node.right, frame)
        return self.binop(node.op, a, b, node)

    def binop(self, op, a, b, node):
        a = self.unwrap(a, node)
        b = self.unwrap(b, node)
        if self.pure:
            undef = lambda x: isinstance(x, VOpaque) and x.label in ('missing', 'undefined')
            if undef(a) and isinstance(b, VSeq):
                a = self.seq_of(a, node).with_term(self.seq_of(a, node).t) if False else VSeq(self.seq_of(a, node).t, b.kind, b.th) if b.th is T.SeqI else a
            if undef(b) and isinstance(a, VSeq):
                b = VSeq(self.seq_of(b, node).t, a.kind, a.th) if a.th is T.SeqI else b
        isnum = lambda x: isinstance(x, (VInt, VBool))
        if isinstance(op, (ast.Add, ast.Sub)) and ((isinstance(a, VOpaque) and isnum(b)) or (isinstance(b, VOpaque) and isnum(a))):
            # a counter kept in a container of objects: its integer value (an int was stored: box_int / obj_int are inverse)
            a = VInt(self.ctx.obj_int(a.t)) if isinstance(a, VOpaque) else a
            b = VInt(self.ctx.obj_int(b.t)) if isinstance(b, VOpaque) else b
        if isnum(a) and isnum(b):
            x, y = self.as_int(a), self.as_int(b)
            if isinstance(op, ast.Add):
                return VInt(x + y)
            if isinstance(op, ast.Sub):
                return VInt(x - y)
            if isinstance(op, ast.Mult):
                return VInt(x * y)
            if isinstance(op, (ast.FloorDiv, ast.Mod)):
                yc = VInt(y).const()
                if yc is None or yc <= 0:
                    raise Unsupported('// or % with a non-constant or non-positive divisor', node)
                return VInt(x / y) if isinstance(op, ast.FloorDiv) else VInt(x % y)
            if isinstance(op, ast.Div):
                yc = VInt(y).const()
                if yc is None or yc <= 0:
                    raise Unsupported('true division by non-constant', node)
                return VRat(x, yc)
            if isinstance(op, ast.LShift):
                return VInt(self.shift_left(x, y, node))
            if isinstance(op, ast.RShift):
                return VInt(self.shift_right(x, y, node))
            if isinstance(op, ast.BitAnd):
                return VInt(self.bit_and(x, y, node))
            if isinstance(op, ast.BitOr):
                return VInt(self.bit_or(x, y, node))
            if isinstance(op, ast.BitXor):
                return VInt(self.ctx.bxor(x, y))
            if isinstance(op, ast.Pow):
                xc, yc = VInt(x).const(), VInt(y).const()
                if xc is not None and yc is not None and yc >= 0:
                    return VInt(xc ** yc)
            raise Unsupported('integer operator %s' % type(op).__name__, node)
        if isinstance(op, ast.Add):
            sa, sb = self._as_seq_or_none(a), self._as_seq_or_none(b)
            if sa is not None and sb is not None:
                ka, kb = self._eqclass(sa.kind), self._eqclass(sb.kind)
                if ka != kb:
                    if self.pure:
                        pass
                    else:
                        raise PyExc(VExc('TypeError', origin='concat %s + %s' % (sa.kind, sb.kind)))
                th = sa.th if not self._known_empty(sa) else sb.th
                if sa.th is not sb.th and not (self._known_empty(sa) or self._known_empty(sb)):
                    raise Unsupported('concatenation over different element sorts', node)
                ta = sa.t if sa.th is th else th.Empty
                tb = sb.t if sb.th is th else th.Empty
                res = VSeq(th.app(ta, tb), sa.kind, th, sa.ekind or sb.ekind)
                if sa.kind in ('list', 'bytearray') and not self.pure:
                    return self.alloc(HList(res, sa.kind))
                return res
            if isinstance(a, VTuple) and isinstance(b, VTuple):
                return VTuple(a.items + b.items)
            if (isinstance(a, VTuple) and sb is not None) or (isinstance(b, VTuple) and sa is not None):
                # symbolic tuple + concrete tuple: lift the concrete one into the element theory of the other
                other = sb if isinstance(a, VTuple) else sa
                if other.kind == 'tuple':
                    conc = a if isinstance(a, VTuple) else b
                    lifted = other.th.lit([self.elem_term(other.th, x, node) for x in conc.items])
                    ta, tb = (lifted, other.t) if isinstance(a, VTuple) else (other.t, lifted)
                    return VSeq(other.th.app(ta, tb), 'tuple', other.th, other.ekind)
            if self.is_list(a) and self.is_list(b):
                ca, cb = self.cell(a), self.cell(b)
                if isinstance(ca.content, list) and isinstance(cb.content, list):
                    return self.alloc(HList(ca.content + cb.content, ca.kind))
        if isinstance(op, ast.Mult):
            # [x] * n
            seq, n = (a, b) if not isnum(a) else (b, a)
            if isnum(n):
                nn = self.as_int(n)
                if self.is_list(seq) and isinstance(self.cell(seq).content, list) and VInt(nn).const() is not None \
                        and 0 <= VInt(nn).const() <= 64:
                    # a literal list repeated a literal number of times ([None] * 2)
                    return self.alloc(HList(list(self.cell(seq).content) * VInt(nn).const(), self.cell(seq).kind))
                if self.is_list(seq) and isinstance(self.cell(seq).content, list) and len(self.cell(seq).content) == 1:
                    e = self.cell(seq).content[0]
                    if isinstance(e, VInt):
                        rep = VSeq(T.SeqI.Rep(e.t, z3.If(nn >= 0, nn, 0)), 'list')
                        return self.alloc(HList(rep, 'list'))
                if isinstance(seq, VSeq) and self.pure:
                    pass
        if isinstance(op, ast.Mod) and isinstance(a, VSeq) and a.kind in ('str', 'bytes'):
            return self.format_percent(a, b, node)
        raise Unsupported('operator %s on %r, %r' % (type(op).__name__, a, b), node)

    def format_percent(self, fmt, arg, node):
        """"literal %s / %d" % args.  Modelled exactly when the format is a literal made of plain text and
        %s / %d directives applied to str / int arguments; otherwise the result is an unconstrained string."""
        lit = self.ctx.seq_literal(fmt.t)
        args = arg.items if isinstance(arg, VTuple) else [arg]
        if lit is not None and fmt.kind == 'str':
            txt = ''.join(map(chr, lit))
            parts, i, k, ok = [], 0, 0, True
            cur = ''
            while i < len(txt):
                if txt[i] == '%' and i + 1 < len(txt) and txt[i + 1] in 'sd':
                    if cur:
                        parts.append(self.str_lit(cur).t)
                        cur = ''
                    if k >= len(args):
                        ok = False
                        break
                    a = self.unwrap(args[k], node)
                    k += 1
                    if isinstance(a, VSeq) and a.kind == 'str' and txt[i + 1] == 's':
                        parts.append(a.t)
                    elif isinstance(a, VInt):
                        from .builtins_model import IntToStr
                        parts.append(IntToStr(a.t))
                    else:
                        ok = False
                        break
                    i += 2
                elif txt[i] == '%':
                    ok = False
                    break
                else:
                    cur += txt[i]
                    i += 1
            if ok and k == len(args):
                if cur:
                    parts.append(self.str_lit(cur).t)
                return VSeq(T.SeqI.concat(parts), 'str')
        return VSeq(self.fresh('fmt', T.SeqI.sort), fmt.kind)

    # ---- bit operations, encoded arithmetically (DESIGN.md section 2 / 3.6) -----------------
    def shift_left(self, x, k, node):
        kc = VInt(k).const()
        if kc is not None:
            if kc < 0:
                raise Unsupported('negative shift', node)
            return x * pow2(kc)
        return x * self.pow2_term(k, node)

    def shift_right(self, x, k, node):
        kc = VInt(k).const()
        if kc is not None:
            if kc < 0:
                raise Unsupported('negative shift', node)
            return x if kc == 0 else x / pow2(kc)
        raise Unsupported('right shift by a non-constant', node)

    def pow2_term(self, k, node):
        """2**k for a symbolic shift amount: case split over the values it can take (0..31)."""
        name = self._oblname('safety:shift-range', node)
        self.prove(name, 'safety', z3.And(k >= 0, k <= 31), node)
        vals = [j for j in range(0, 32) if prover.feasible(self.axioms(True), self.st.pc, k == j, timeout_ms=500)]
        if not vals:
            raise PathEnd()
        t = z3.IntVal(pow2(vals[-1]))
        for j in reversed(vals[:-1]):
            t = z3.If(k == j, z3.IntVal(pow2(j)), t)
        return t

    def bit_and(self, x, y, node):
        xc, yc = VInt(x).const(), VInt(y).const()
        if xc is not None and yc is not None:
            return z3.IntVal(xc & yc)
        if yc is None and xc is not None:
            x, y, xc, yc = y, x, yc, xc
        if yc is not None and yc >= 0:
            # contiguous mask  ((1<<w)-1) << j
            if yc == 0:
                return z3.IntVal(0)
            j = (yc & -yc).bit_length() - 1
            w = (yc >> j)
            if w & (w + 1) == 0:
                wbits = w.bit_length()
                t = x if j == 0 else x / pow2(j)
                t = t % pow2(wbits)
                return t if j == 0 else t * pow2(j)
            # non-contiguous mask: sum of contiguous runs
            total = z3.IntVal(0)
            m = yc
            pos = 0
            while m:
                if m & 1:
                    run = 0
                    while (m >> run) & 1:
                        run += 1
                    total = total + self.bit_and(x, z3.IntVal(((1 << run) - 1) << pos), node)
                    m >>= run
                    pos += run
                else:
                    m >>= 1
                    pos += 1
            return total
        raise Unsupported('& with two symbolic operands', node)

    def bit_or(self, a, b, node):
        ac, bc = VInt(a).const(), VInt(b).const()
        if ac is not None and bc is not None:
            return z3.IntVal(ac | bc)
        if ac == 0:
            return b
        if bc == 0:
            return a
        cands = [(a == 0, b), (b == 0, a)]
        for j in (4, 7, 8, 16, 24, 1, 2, 3, 5, 6, 12, 20, 31, 32):
            p = pow2(j)
            cands.append((z3.And(a % p == 0, 0 <= b, b < p), a + b))
            cands.append((z3.And(b % p == 0, 0 <= a, a < p), a + b))
        for c, r in cands:
            if self.provable(c, timeout_ms=1000):
                return r
        # not decided on this path: case split on the disjointness conditions that are feasible
        if not self.pure:
            for c, r in cands[:10]:
                if prover.feasible(self.axioms(True), self.st.pc, c, timeout_ms=500):
                    if self.branch(c):
                        return r
        # bits may overlap: fall back to the uninterpreted function (nothing provable about it but congruence)
        self.ctx.note('bit_or: disjointness not provable at line %s; uninterpreted bor used' % getattr(node, 'lineno', '?'))
        return self.ctx.bor(a, b)

    # ---- comparisons ----------------------------------------------------------------------------
    def ev_Compare(self, node, frame):
        left = self.ev(node.left, frame)
        res = None
        for op, rn in zip(node.ops, node.comparators):
            right = self.ev(rn, frame)
            c = self.compare(op, left, right, node)
            if res is None:
                res = c
            else:
                res = z3.And(res, c)
            left = right
        return VBool(res)

    def compare(self, op, a, b, node):
        if isinstance(op, ast.Is):
            return self.videntical(a, b, node)
        if isinstance(op, ast.IsNot):
            return z3.Not(self.videntical(a, b, node))
        if isinstance(op, ast.Eq):
            return self.veq(a, b, node)
        if isinstance(op, ast.NotEq):
            return z3.Not(self.veq(a, b, node))
        if isinstance(op, (ast.In, ast.NotIn)):
            r = self.contains(b, a, node)
            return r if isinstance(op, ast.In) else z3.Not(r)
        a = self.unwrap(a, node)
        b = self.unwrap(b, node)
        if isinstance(a, VRat) or isinstance(b, VRat):
            raise Unsupported('ordering of floats', node)
        if isinstance(a, (VInt, VBool)) and isinstance(b, (VInt, VBool)):
            x, y = self.as_int(a), self.as_int(b)
            return {ast.Lt: x < y, ast.LtE: x <= y, ast.Gt: x > y, ast.GtE: x >= y}[type(op)]
        if isinstance(a, (VOpaque, VBuiltin)) or isinstance(b, (VOpaque, VBuiltin)):
            # ordering involving a value of an unverified library (e.g. logger.level <= logging.DEBUG): either outcome
            return self.fresh_bool('cmp_unknown')
        raise Unsupported('ordering of %r and %r' % (a, b), node)

    def contains(self, container, item, node):
        if isinstance(container, VOpaque) and container.label == 'missing':
            # the argument of an event that does not exist on this path: no information (the clause must pin n_events)
            return self.fresh_bool('missing_in')
        container = self.unwrap(container, node)
        if isinstance(container, VTuple) or (self.is_list(container) and isinstance(self.cell(container).content, list)):
            items = container.items if isinstance(container, VTuple) else self.cell(container).content
            if not items:
                return z3.BoolVal(False)
            return z3.Or(*[self.veq(item, x, node) for x in items])
        if isinstance(container, VRange):
            x = self.as_int(item, node)
            if container.step != 1:
                raise Unsupported('in range() with step', node)
            return z3.And(container.lo <= x, x < container.hi)
        if self.is_dict(container):
            return self.ctx.dict_has(self, container, item, node)
        s = self._as_seq_or_none(container)
        if s is not None:
            if self._known_empty(s):
                return z3.BoolVal(False)
            if isinstance(item, VOpt) and s.th is T.SeqO:
                # an optional value looked up in a list of objects: None is a possible element, no case split needed
                return self.ctx.seq_contains(s.th, s.t, self.ctx.obj_term(self, item, node))
            item = self.unwrap(item, node)
            if s.th is T.SeqI and s.kind == 'str':
                if isinstance(item, VSeq):
                    # substring test: only the single-character case is modelled
                    if self.provable(T.SeqI.Len(item.t) == 1):
                        return self.ctx.seq_contains(s.th, s.t, T.SeqI.Idx(item.t, 0))
                    return self.ctx.substr(s.t, item.t)
            et = self.elem_term(s.th, item, node)
            return self.ctx.seq_contains(s.th, s.t, et)
        if isinstance(container, (VNone, VInt, VBool)):
            self.require(False, 'in-on-non-container', node, exc='TypeError')
            raise PyExc(VExc('TypeError', origin="argument of type '%s' is not iterable" % type(container).__name__))
        raise Unsupported('`in` on %r' % (container,), node)

    # ---- attribute access ------------------------------------------------------------------------
    def ev_Attribute(self, node, frame):
        # super(X, self).m
        if isinstance(node.value, ast.Call) and isinstance(node.value.func, ast.Name) and node.value.func.id == 'super':
            return self.super_attr(node, frame)
        obj = self.ev(node.value, frame)
        return self.getattr(obj, node.attr, node, frame, for_call=getattr(node, '_is_callee', False))

    def super_attr(self, node, frame):
        call = node.value
        if call.args:
            cls_v = self.ev(call.args[0], frame)
            self_v = self.ev(call.args[1], frame)
            if not isinstance(cls_v, VClass):
                raise Unsupported('super() first argument', node)
            start = cls_v.info
        else:
            start = frame.cls
            self_v = frame.env.get('self')
        if isinstance(self_v, VClass):
            # super(C, C).m: the unbound / static / class method found after C in C's own MRO
            mro = self_v.info.mro(self.repo)
            idx = mro.index(start)
            for k in mro[idx + 1:]:
                if node.attr in k.methods:
                    m = k.methods[node.attr]
                    return VFunc(m, self_v) if m.is_classmethod else VFunc(m)
            raise Unsupported('super(C, C).%s: not a repository method' % node.attr, node)
        c = self.cell(self_v)
        mro = c.cls.mro(self.repo)
        idx = mro.index(start)
        for k in mro[idx + 1:]:
            if node.attr in k.methods:
                return VFunc(k.methods[node.attr], self_v)
        # external base (e.g. object.__init__)
        return VBuiltin('object.' + node.attr, self_v)

    def mangle(self, name, frame):
        if name.startswith('__') and not name.endswith('__') and frame is not None and frame.cls is not None:
            return '_%s%s' % (frame.cls.name.lstrip('_'), name)
        return name

    def getattr(self, obj, name, node, frame=None, for_call=True):
        obj = self.unwrap(obj, node)
        if isinstance(obj, VNone):
            if self.pure:
                # spec text under a guard that excludes this case (implies(x is not None, x.f ...)): an unconstrained value
                self.ctx.qcount += 1
                return VOpaque(z3.Const('undefined!%d' % self.ctx.qcount, T.Obj), 'undefined')
            self.require(False, 'attr-of-None', node, exc='AttributeError')
            raise PyExc(VExc('AttributeError', origin='None.%s' % name))
        if isinstance(obj, VRef):
            c = self.cell(obj)
            if isinstance(c, HObj):
                mname = self.mangle(name, frame)
                if c.cls is None and c.extname:
                    for pl in self.ctx.plugins:
                        if hasattr(pl, 'ext_getattr') and getattr(pl, 'owns', lambda e: False)(c.extname):
                            return pl.ext_getattr(self, obj, c, name, node)
                if mname in c.fields:
                    return c.fields[mname]
                if name == '__class__' and c.cls is not None:
                    return VClass(c.cls)
                if c.cls is not None:
                    m = c.cls.find_method(self.repo, name)
                    if m is not None:
                        if m.is_property:
                            return self.call_function(VFunc(m, obj), [], {}, node)
                        if m.is_static:
                            return VFunc(m)
                        if m.is_classmethod:
                            return VFunc(m, VClass(c.cls))
                        return VFunc(m, obj)
                    a = c.cls.find_attr(self.repo, mname) or c.cls.find_attr(self.repo, name)
                    if a is not None:
                        owner, expr = a
                        cv = self.ctx.class_var_get(self, owner, mname)
                        if cv is not None:
                            return cv
                        v0 = self.ev(expr, Frame({}, owner.module, owner))
                        if mname in self.ctx.mutable_class_attrs() or name in self.ctx.mutable_class_attrs():
                            return self.ctx.class_attr_entry_value(self, owner, mname, v0)
                        return v0
                    lazy = self.ctx.lazy_field(self, obj, c, mname)
                    if lazy is not None:
                        return lazy
                    if c.cls.ext_bases(self.repo):
                        return VBuiltin('extattr:' + name, obj)
                    raise Unsupported('attribute %s of %s' % (name, c.cls.name), node)
                return self.ctx.ext_getattr(self, obj, c, name, node)
            if isinstance(c, HList):
                return VBuiltin('list.' + name, obj)
            if isinstance(c, HDict):
                return VBuiltin('dict.' + name, obj)
        if isinstance(obj, VSeq):
            return VBuiltin(('str.' if obj.kind == 'str' else 'bytes.' if obj.kind in ('bytes', 'bytearray') else 'seq.') + name, obj)
        if isinstance(obj, VTuple):
            return VBuiltin('tuple.' + name, obj)
        if isinstance(obj, VClass):
            info = obj.info
            m = info.find_method(self.repo, name)
            if m is not None:
                if m.is_classmethod:
                    return VFunc(m, obj)
                return VFunc(m)
            mname = self.mangle(name, frame)
            cv = self.ctx.class_var_get(self, info, mname)
            if cv is not None:
                return cv
            a = info.find_attr(self.repo, mname) or info.find_attr(self.repo, name)
            if a is None and name.startswith('_') and '__' in name[1:]:
                # an already mangled name (_Class__attr, as contract text writes it): the class body spells it __attr
                cname_, _, rest_ = name[1:].partition('__')
                a = info.find_attr(self.repo, '__' + rest_)
                if a is not None and a[0].name.lstrip('_') != cname_:
                    a = None
            if a is not None:
                owner, expr = a
                v0 = self.ev(expr, Frame({}, owner.module, owner))
                if mname in self.ctx.mutable_class_attrs() or name in self.ctx.mutable_class_attrs():
                    return self.ctx.class_attr_entry_value(self, owner, mname, v0)
                return v0
            raise Unsupported('class attribute %s.%s' % (info.name, name), node)
        if isinstance(obj, VModule):
            if isinstance(obj.name, ModuleInfo):
                r = obj.name.lookup(self.repo, name)
                if r is None:
                    raise Unsupported('module attribute %s' % name, node)
                return self.static_value(r, frame, node)
            return self.ctx.extern_value(obj.name + '.' + name)
        if isinstance(obj, VOpaque) and obj.label == 'missing' and self.pure:
            return obj          # attribute of a non-existent event argument: still "missing"
        if isinstance(obj, VOpaque) and self.pure:
            # spec text reading a field of an object known only as a term (e.g. an argument of a summarised event)
            return VOpaque(self.ctx.uf('field.' + name, T.Obj, T.Obj)(obj.t), 'field')
        if isinstance(obj, VOpaque) and not for_call:
            # a data attribute of an object of an unverified class: a value determined by the object, nothing else known
            return VOpaque(self.ctx.uf('field.' + name, T.Obj, T.Obj)(obj.t), 'field')
        if isinstance(obj, VOpaque):
            return VBuiltin('opaque.' + name, obj)
        if isinstance(obj, VBuiltin) and obj.self_val is None and not obj.name.startswith(('extcontract:', 'exc-class:')):
            return self.ctx.extern_value(obj.name + '.' + name)       # attribute of an external module / class
        if isinstance(obj, VBuiltin) and obj.name.startswith('extcontract:') and obj.self_val is None:
            return self.ctx.extern_value(obj.name[len('extcontract:'):] + '.' + name)
        if isinstance(obj, VExc):
            if name == 'args':
                return VTuple(obj.args)
            return VBuiltin('exc.' + name, obj)
        if isinstance(obj, VFunc) and name == 'event_callback':
            raise Unsupported('function attribute', node)
        h = self.ctx.getattr_hook(self, obj, name, node)
        if h is not None:
            return h
        raise Unsupported('attribute %s of %r' % (name, obj), node)

    def setattr(self, obj, name, val, node, frame=None):
        obj = self.unwrap(obj, node)
        if isinstance(obj, VRef):
            c = self.cell(obj)
            if isinstance(c, HObj):
                mname = self.mangle(name, frame)
                if name == '__class__' and isinstance(val, VClass):
                    # entity.__class__ = Subclass: the object keeps its fields and changes its class (used by the entity parsers)
                    self.st.heap[obj.loc] = HObj(val.info, c.fields, c.extname)
                    return
                if c.cls is not None:
                    s = c.cls.find_setter(self.repo, name)
                    if s is not None:
                        self.call_function(VFunc(s, obj), [val], {}, node)
                        return
                if c.cls is None and c.extname:
                    for pl in self.ctx.plugins:
                        if hasattr(pl, 'ext_setattr') and getattr(pl, 'owns', lambda e: False)(c.extname):
                            pl.ext_setattr(self, obj, c, name, val, node)
                            return
                self.st.heap[obj.loc] = c.set(mname, val)
                return
        if isinstance(obj, VClass):
            self.ctx.class_var_set(self, obj.info, self.mangle(name, frame), val)
            return
        if isinstance(obj, VOpaque):
            self.emit('setattr:' + name, [obj, val])
            return
        raise Unsupported('attribute store on %r' % (obj,), node)

    # ---- subscripts ------------------------------------------------------------------------------
    def ev_Subscript(self, node, frame):
        obj = self.ev(node.value, frame)
        if isinstance(node.slice, ast.Slice):
            lo = self.ev(node.slice.lower, frame) if node.slice.lower is not None else None
            hi = self.ev(node.slice.upper, frame) if node.slice.upper is not None else None
            if node.slice.step is not None:
                st = VInt(self.as_int(self.ev(node.slice.step, frame))).const()
                o = self.unwrap(obj, node)
                items = o.items if isinstance(o, VTuple) else (self.cell(o).content if self.is_list(o) and isinstance(self.cell(o).content, list) else None)
                if st == -1 and items is None and lo is None and hi is None:
                    # x[::-1] of a symbolic sequence: its reversal (same length, element i is element len-1-i)
                    try:
                        sq = self.seq_of(obj, node)
                    except Unsupported:
                        sq = None
                    if sq is not None and sq.kind in ('tuple', 'list', 'bytes') and not self.is_list(o):
                        return VSeq(self.ctx.seq_reverse(sq.th, sq.t), sq.kind, sq.th, getattr(sq, 'ekind', None))
                if st is None or items is None or lo is not None or hi is not None:
                    raise Unsupported('slice step', node)
                return VTuple(items[::st]) if isinstance(o, VTuple) else self.alloc(HList(items[::st], self.cell(o).kind))
            return self.slice(obj, lo, hi, node)
        idx = self.ev(node.slice, frame)
        return self.index(obj, idx, node)

    def norm_bound(self, s, v, default, node):
        """Clamp a Python slice bound into 0..len(s); picks the simplest provable form."""
        L = s.th.Len(s.t)
        if v is None:
            return default
        x = self.as_int(v, node)
        xc = VInt(x).const()
        if self.pure:
            if xc is not None and xc >= 0:
                return x        # spec text: bounds are within range by convention (checked natively)
            if xc is not None and xc < 0:
                return L + x
            return x
        if xc is not None and xc < 0:
            if self.provable(L + x >= 0):
                return L + x
            return z3.If(L + x >= 0, L + x, 0)
        if xc is None:
            if self.provable(z3.And(0 <= x, x <= L)):
                return x
            if self.provable(x >= 0):
                return z3.If(x <= L, x, L)
            return z3.If(x < 0, z3.If(L + x >= 0, L + x, 0), z3.If(x <= L, x, L))
        if self.provable(x <= L):
            return x
        return z3.If(x <= L, x, L)

    def slice(self, obj, lo, hi, node):
        obj = self.unwrap(obj, node)
        if isinstance(obj, VTuple):
            l = VInt(self.as_int(lo)).const() if lo is not None else 0
            h = VInt(self.as_int(hi)).const() if hi is not None else len(obj.items)
            if l is None or h is None:
                raise Unsupported('symbolic slice of a concrete tuple', node)
            return VTuple(obj.items[l:h])
        if self.is_list(obj) and isinstance(self.cell(obj).content, list):
            l = VInt(self.as_int(lo)).const() if lo is not None else 0
            h = VInt(self.as_int(hi)).const() if hi is not None else len(self.cell(obj).content)
            if l is not None and h is not None:
                return self.alloc(HList(self.cell(obj).content[l:h], self.cell(obj).kind))
        s = self.seq_of(obj, node)
        L = s.th.Len(s.t)
        a = self.norm_bound(s, lo, z3.IntVal(0), node)
        b = self.norm_bound(s, hi, L, node)
        if not self.pure and not self.provable(a <= b):
            b = z3.If(a <= b, b, a)
        bb = None if (hi is None) else b
        t = s.th.slice(s.t, a, bb)
        res = s.with_term(t)
        if s.kind in ('list', 'bytearray') and not self.pure:
            return self.alloc(HList(res, s.kind))
        return res

    def index(self, obj, idx, node):
        obj = self.unwrap(obj, node)
        if isinstance(obj, VNone) and self.pure:
            self.ctx.qcount += 1        # spec text under a guard that excludes None: an unconstrained value
            return VOpaque(z3.Const('undefined!%d' % self.ctx.qcount, T.Obj), 'undefined')
        if isinstance(obj, VTuple) or (self.is_list(obj) and isinstance(self.cell(obj).content, list)):
            items = obj.items if isinstance(obj, VTuple) else self.cell(obj).content
            ic = VInt(self.as_int(idx, node)).const()
            if ic is None:
                s = self.list_to_seq(items, 'list')
                if s is None:
                    if self.pure or not items:
                        raise Unsupported('symbolic index into a heterogeneous tuple/list', node)
                    # one of the elements, which one is not tracked: an object of unknown kind (over-approximation); the index must be
                    # in range
                    i_ = self.as_int(idx, node)
                    self.require(z3.And(-len(items) <= i_, i_ < len(items)), 'index', node, exc='IndexError')
                    self.ctx.qcount += 1
                    return VOpaque(z3.Const('elem!%d' % self.ctx.qcount, T.Obj), 'element')
                return self.index_seq(s, idx, node)
            if not (-len(items) <= ic < len(items)):
                if self.pure:
                    self.ctx.qcount += 1
                    return VOpaque(z3.Const('undefined!%d' % self.ctx.qcount, T.Obj), 'undefined')
                self.require(False, 'index', node, exc='IndexError')
                raise PyExc(VExc('IndexError', origin='index'))
            return items[ic]
        if self.is_dict(obj):
            return self.ctx.dict_get(self, obj, idx, node)
        if self.is_obj(obj):
            c = self.cell(obj)
            if c.cls is not None:
                m = c.cls.find_method(self.repo, '__getitem__')
                if m is not None:
                    return self.call_function(VFunc(m, obj), [idx], {}, node)
        s = self._as_seq_or_none(obj)
        if s is not None:
            return self.index_seq(s, idx, node)
        h = self.ctx.index_hook(self, obj, idx, node)
        if h is not None:
            return h
        if isinstance(obj, VOpaque):
            # x[k] on an object known only as a term (a stanza in a queue): a function of the object and the key
            k = self.unwrap(idx, node)
            if isinstance(k, VSeq) and k.th is T.SeqI:
                # a stanza: node["key"] is its attribute (the spec form attr(node, "key") is the same pair of functions)
                return VOpt(self.ctx.uf("node.attr.none", T.Obj, T.SeqI.sort, T.B)(obj.t, k.t),
                            VSeq(self.ctx.uf("node.attr.val", T.Obj, T.SeqI.sort, T.SeqI.sort)(obj.t, k.t), "str"))
            return VOpaque(self.ctx.uf('getitem', T.Obj, T.Obj, T.Obj)(obj.t, self.ctx.obj_term(self, k, node)), 'v')
        raise Unsupported('subscript of %r' % (obj,), node)

    def symbolic_comprehension(self, node, it, frame):
        """[f(x) for x in s] over a symbolic sequence s, for an element expression f that is a pure function of x:
        the result is a fresh sequence r with |r| = |s| and r[i] = f(s[i]) for all i."""
        g = node.generators[0]
        if g.ifs:
            raise Unsupported('filtered comprehension over a symbolic iterable', node)
        s = self.seq_of(it, node)
        self.ctx.qcount += 1
        cx = z3.Const('cx!%d' % self.ctx.qcount, s.th.elem)
        counter0 = self.st.counter
        npc = len(self.st.pc)
        fr = Frame({}, frame.module, frame.cls, frame.finfo, parent=frame, sidecar=frame.sidecar)
        fr.spec = frame.spec
        self.assign(g.target, self.wrap_elem(s, cx), fr)
        ntrace = len(self.st.trace)
        v = self.ev(node.elt, fr)
        if self.st.counter != counter0 or len(self.st.pc) != npc:
            raise Unsupported('comprehension element is not a pure function of the iteration variable', node)
        del self.st.trace[ntrace:]
        v = self.unwrap(v, node)
        if isinstance(v, VInt):
            th, tv, kind = T.SeqI, v.t, None
        elif isinstance(v, VSeq) and v.th is T.SeqI:
            th, tv, kind = T.SeqS, v.t, v.kind
        else:
            th, tv, kind = T.SeqO, self.ctx.obj_term(self, v, node), getattr(v, 'label', '')
        r = self.fresh('comp', th.sort)
        i = z3.Int('ci!%d' % self.ctx.qcount)
        self.assume(th.Len(r) == s.th.Len(s.t))
        body = th.Idx(r, i) == z3.substitute(tv, (cx, s.th.Idx(s.t, i)))
        self.assume(z3.ForAll([i], z3.Implies(z3.And(0 <= i, i < s.th.Len(s.t)), body), patterns=[th.Idx(r, i)]))
        return self.alloc(HList(VSeq(r, 'list', th, ekind=kind), 'list'))

    def index_seq(self, s, idx, node):
        i = self.as_int(idx, node)
        L = s.th.Len(s.t)
        ic = VInt(i).const()
        if self.pure:
            if ic is not None and ic < 0:
                i = L + i
            return self.wrap_elem(s, s.th.Idx(s.t, i))
        if ic is not None and ic < 0:
            self.require(L + i >= 0, 'index', node, exc='IndexError')
            i = L + i
        elif ic is not None:
            self.require(i < L, 'index', node, exc='IndexError')
        else:
            if not self.provable(i >= 0):
                self.require(z3.And(-L <= i, i < L), 'index', node, exc='IndexError')
                i = z3.If(i < 0, L + i, i)
            else:
                self.require(i < L, 'index', node, exc='IndexError')
        return self.wrap_elem(s, s.th.Idx(s.t, i))

    # ---- calls -----------------------------------------------------------------------------------
    def ev_Call(self, node, frame):
        # spec-level special forms
        if isinstance(node.func, ast.Name):
            fn = node.func.id
            if frame.spec is not None or frame.sidecar is not None:
                sf = self.ctx.spec_form(self, fn, node, frame)
                if sf is not NotImplemented:
                    return sf
            if fn == 'int' and len(node.args) == 1 and not node.keywords:
                v = self.ev(node.args[0], frame)
                return self.ctx.builtins.call(self, 'int', [v], {}, node)
        if isinstance(node.func, ast.Attribute):
            node.func._is_callee = True
        f = self.ev(node.func, frame)
        args = []
        for a in node.args:
            if isinstance(a, ast.Starred):
                v = self.ev(a.value, frame)
                v = self.unwrap(v, node)
                if isinstance(v, VTuple):
                    args += v.items
                elif self.is_list(v) and isinstance(self.cell(v).content, list):
                    args += self.cell(v).content
                else:
                    raise Unsupported('star-args of symbolic length', node)
            else:
                args.append(self.ev(a, frame))
        kwargs = {}
        for k in node.keywords:
            if k.arg is None:
                v = self.ev(k.value, frame)
                if self.is_dict(v) and isinstance(self.cell(v).content, list):
                    for kk, vv in self.cell(v).content:
                        kwargs[self.ctx.const_str(self, kk)] = vv
                else:
                    raise Unsupported('**kwargs of symbolic dict', node)
            else:
                kwargs[k.arg] = self.ev(k.value, frame)
        return self.call(f, args, kwargs, node, frame)

    def call(self, f, args, kwargs, node, frame=None):
        f = self.unwrap(f, node)
        if isinstance(f, VFunc):
            return self.call_function(f, args, kwargs, node)
        if isinstance(f, VBuiltin):
            return self.ctx.builtins.call(self, f.name, ([f.self_val] if f.self_val is not None else []) + args, kwargs, node)
        if isinstance(f, VClass):
            return self.instantiate(f.info, args, kwargs, node)
        if isinstance(f, VType):
            return self.ctx.builtins.call(self, f.name, args, kwargs, node)
        if isinstance(f, VClosure):
            return self.call_closure(f, args, kwargs, node, caller=frame)
        if isinstance(f, VSpecFunc):
            return self.ctx.apply_spec(self, f.spec, args, node)
        if isinstance(f, VOpaque):
            nm = 'call:' + (f.label or 'callable')
            d = dict(self.ctx.registry.externs.get(nm) or {})      # extern("call:<label>", returns=...) refines what the call returns
            d.pop('event', None)
            d.setdefault('raises', True)
            return self.opaque_call(nm, [f] + args, kwargs, node, d)
        if isinstance(f, VNone):
            self.require(False, 'call-of-None', node, exc='TypeError')
            raise PyExc(VExc('TypeError', origin='NoneType not callable'))
        raise Unsupported('call of %r' % (f,), node)

    def bind_args(self, fnode, args, kwargs, node, self_val=None, frame_for_defaults=None, qual='?'):
        """Python call binding.  Errors are TypeError safety obligations."""
        a = fnode.args
        params = [p.arg for p in a.args]
        env = {}
        pos = list(args)
        if self_val is not None:
            pos = [self_val] + pos
        if len(pos) > len(params) and a.vararg is None:
            self.require(False, 'call-arity', node, exc='TypeError')
            raise PyExc(VExc('TypeError', origin='too many positional arguments for %s' % qual))
        for p, v in zip(params, pos):
            env[p] = v
        if a.vararg is not None:
            env[a.vararg.arg] = VTuple(pos[len(params):])
        extra = {}
        for k, v in kwargs.items():
            if k in env:
                self.require(False, 'call-duplicate-argument', node, exc='TypeError')
                raise PyExc(VExc('TypeError', origin="multiple values for argument '%s' of %s" % (k, qual)))
            if k in params or k in [p.arg for p in a.kwonlyargs]:
                env[k] = v
            elif a.kwarg is not None:
                extra[k] = v
            else:
                self.require(False, 'call-unexpected-keyword', node, exc='TypeError')
                raise PyExc(VExc('TypeError', origin="unexpected keyword argument '%s' for %s" % (k, qual)))
        if a.kwarg is not None:
            env[a.kwarg.arg] = self.alloc(HDict([(self.str_lit(k), v) for k, v in extra.items()]))
        ndef = len(a.defaults)
        for i, p in enumerate(params):
            if p not in env:
                di = i - (len(params) - ndef)
                if di >= 0:
                    env[p] = self.ev(a.defaults[di], frame_for_defaults)
                else:
                    self.require(False, 'call-missing-argument', node, exc='TypeError')
                    raise PyExc(VExc('TypeError', origin="missing argument '%s' of %s" % (p, qual)))
        for p, d in zip(a.kwonlyargs, a.kw_defaults):
            if p.arg not in env:
                if d is None:
                    self.require(False, 'call-missing-argument', node, exc='TypeError')
                    raise PyExc(VExc('TypeError', origin='missing kw-only'))
                env[p.arg] = self.ev(d, frame_for_defaults)
        return env

    def call_function(self, f, args, kwargs, node):
        fi = f.finfo
        key = fi.key
        ctx = self.ctx
        mode = ctx.call_mode(self, fi)
        if mode == 'contract':
            return ctx.apply_contract(self, ctx.registry.contracts[key], fi, f.self_val, args, kwargs, node)
        if mode == 'opaque':
            d = ctx.registry.opaques[key]
            self.opaque_used.add(key)
            recv = [f.self_val] if f.self_val is not None else []
            d2_ = dict(d)
            d2_['__callee__'] = fi.qualname
            if d.get('recv_as_arg') and recv:
                # opaque(..., recv_as_arg=True): the event has the layout of an extern method event ("*.m": receiver is argument 0),
                # so that calls resolved to this class and calls on objects of unknown class share one event shape
                return self.opaque_call(d.get('event', fi.name), recv + list(args), kwargs, node, d2_)
            return self.opaque_call(d.get('event', fi.name), args, kwargs, node, d2_, recv=recv)
        if mode == 'inline':
            self.inlined_used.add(key)
            return self.run_function(fi, f.self_val, args, kwargs, node)
        # no contract, not declared opaque: execute the real body symbolically (auto-inline), bounded in depth (6) and
        # never recursively.  Sound (it is the code that runs); it only costs modularity.  Reported under "inlined".
        stack = self.__dict__.setdefault('auto_inline_stack', [])
        if len(stack) < 6 and key not in stack:
            stack.append(key)
            self.inlined_used.add(key)
            try:
                return self.run_function(fi, f.self_val, args, kwargs, node)
            finally:
                stack.pop()
        raise Unsupported('call to %s:%s which has no contract and is not declared inline/opaque' % key, node)

    def run_function(self, fi, self_val, args, kwargs, node):
        if self.depth > 40:
            raise Unsupported('inlining depth exceeded at %s' % fi.qualname, node)
        mframe = Frame({}, fi.module, fi.cls)
        sv = self_val if not fi.is_static else None
        env = self.bind_args(fi.node, args, kwargs, node, self_val=sv, frame_for_defaults=mframe, qual=fi.qualname)
        fr = Frame(env, fi.module, fi.cls, fi)
        self.depth += 1
        try:
            self.ex_block(fi.node.body, fr)
            return NONE
        except ReturnSig as r:
            return r.value
        finally:
            self.depth -= 1

    def call_closure(self, f, args, kwargs, node, caller=None):
        n = f.node
        env = self.bind_args(n, args, kwargs, node, frame_for_defaults=f.frame, qual='<lambda>')
        fr = Frame(env, f.frame.module, f.frame.cls, f.frame.finfo, parent=f.frame, sidecar=f.frame.sidecar)
        fr.spec = f.frame.spec if f.frame.spec is not None else (caller.spec if caller is not None else None)
        if isinstance(n, ast.Lambda):
            return self.ev(n.body, fr)
        try:
            self.ex_block(n.body, fr)
            return NONE
        except ReturnSig as r:
            return r.value

    def instantiate(self, info, args, kwargs, node):
        exc_base = self.ctx.exception_class_of(info)
        if exc_base is not None:
            return VExc(info.name, args, origin='raise')
        h = self.ctx.instantiate_hook(self, info, args, kwargs, node)
        if h is not None:
            return h
        obj = self.alloc(HObj(info, {}))
        init = info.find_method(self.repo, '__init__')
        if init is not None:
            self.call_function(VFunc(init, obj), args, kwargs, node)
        return obj

    # ---- events -----------------------------------------------------------------------------------
    def emit(self, name, args, kwargs=None, result=None):
        ev = Event(name, list(args), kwargs, result)
        ev.heap = dict(self.st.heap)          # state at the event, for at_event(...) assertions
        self.st.trace.append(ev)

    def opaque_call(self, name, args, kwargs, node, decl, recv=()):
        """A call that leaves the verified text.  One event; result constrained only by its declared type;
        may raise if so declared.  Frame assumption: it mutates nothing it was not handed; mutable
        arguments it *was* handed are havocked."""
        # the event records the arguments as they are AT the call (lists by value)
        frozen = []
        for a in args:
            if isinstance(a, VRef) and self.is_list(a):
                try:
                    frozen.append(self.seq_of(a, node))
                except Unsupported:
                    frozen.append(a)
            else:
                frozen.append(a)
        if not decl.get('readonly'):
            for a in args:
                if isinstance(a, VRef) and self.is_list(a):
                    self.havoc_ref(a)
        res = NONE
        rt = decl.get('returns')
        if rt is not None:
            res = self.ctx.make_symbolic(self, rt, 'ret_' + name.replace('.', '_').replace(':', '_'))
        self.emit(name, frozen, kwargs, res)
        self.st.trace[-1].recv = list(recv)
        self.st.trace[-1].callee = decl.get('__callee__')
        if decl.get('raises'):
            b = self.fresh_bool('raises_' + name.replace('.', '_').replace(':', '_'))
            if self.branch(b):
                self.st.trace[-1].raised = True
                ex_ = VExc('opaque:' + name, origin=name)
                # the class of the exception is unknown but FIXED: one symbolic class code per raise, so that `except A` / `except B`
                # tests of the same exception are consistent and contracts can speak about it (event_raised_class)
                ex_.cls_t = self.fresh_int('exc_cls')
                self.st.trace[-1].exc_cls = ex_.cls_t
                raise PyExc(ex_)
        if decl.get('assume'):
            # extern(..., assume="helper", reason="..."): an ASSUMED fact about what the external callee returns - the sidecar helper
            # applied to the result; listed with its reason among the unchecked assumptions of every run that uses it
            hname = decl['assume']
            R = self.ctx.registry
            if hname not in R.helpers:
                raise Unsupported('extern %s: assume=%r is not a helper of the sidecar' % (name, hname), node)
            hnode, hsc = R.helpers[hname]
            self.pure += 1
            try:
                # helper(result) or helper(result, arg0, arg1, ...): the assumed relation may mention the arguments of the call
                n_ = len(hnode.args.args)
                v = self.call_closure(VClosure(hnode, None, Frame({}, None, sidecar=hsc)), ([res] + list(args))[:max(1, n_)], {}, node)
            finally:
                self.pure -= 1
            self.assume(self.truthy(v))
            self.ctx.assumptions.add('assumed about the external callee %s: %s(%s) - %s' % (name, hname, 'result' if n_ <= 1 else 'result, arguments',
                                                                                           decl.get('reason', 'no reason given')))
        return res

    def havoc_ref(self, ref, hint=None):
        c = self.cell(ref)
        if isinstance(c, HList):
            cont = c.content
            if isinstance(cont, list):
                s = self.list_to_seq(cont, c.kind, hint=hint)
                if s is None:
                    if not cont:
                        th = {'int': T.SeqI, 'seq': T.SeqS, 'obj': T.SeqO, None: T.SeqI}.get(hint, T.SeqI)
                        s = VSeq(th.Empty, c.kind, th)
                    else:
                        # a list of mixed values handed to an opaque callee: its content is unknown from here on;
                        # any later use of the list is reported as unsupported (never silently trusted)
                        self.st.heap[ref.loc] = HList(VSeq(self.fresh('hv', T.SeqO.sort), c.kind, T.SeqO), c.kind)
                        return
                cont = s
            new = cont.with_term(self.fresh('hv', cont.th.sort))
            self.st.heap[ref.loc] = HList(new, c.kind)
            if c.kind == 'bytearray':
                self.assume(T.IsBytes(new.t))
            return
        if isinstance(c, HDict):
            if isinstance(c.content, list) and hint == 'objmap':
                self.st.heap[ref.loc] = HDict(VMap(self.fresh('hvmap', T.MapOO.sort), T.MapOO, 'obj', 'obj'))
                return
            self.ctx.havoc_dict(self, ref)
            return
        raise Unsupported('havoc of %r' % (c,))

    # ------------------------------------------------------------------------------------------
    # statements
    # ------------------------------------------------------------------------------------------
    def ex_block(self, stmts, frame):
        for st in stmts:
            self.ex(st, frame)

    def ex(self, node, frame):
        m = getattr(self, 'ex_' + type(node).__name__, None)
        if m is None:
            raise Unsupported('statement %s' % type(node).__name__, node)
        return m(node, frame)

    def ex_Pass(self, node, frame):
        pass

    def ex_Expr(self, node, frame):
        v = node.value
        if isinstance(v, ast.Constant):
            return
        if self.ctx.is_dropped_stmt(self, node, frame):
            return
        self.ev(v, frame)

    def ex_Return(self, node, frame):
        raise ReturnSig(self.ev(node.value, frame) if node.value is not None else NONE)

    def ex_Break(self, node, frame):
        raise BreakSig()

    def ex_Continue(self, node, frame):
        raise ContinueSig()

    def ex_Global(self, node, frame):
        raise Unsupported('global statement', node)

    def ex_Assign(self, node, frame):
        v = self.ev(node.value, frame)
        for t in node.targets:
            self.assign(t, v, frame)

    def ex_AnnAssign(self, node, frame):
        if node.value is not None:
            self.assign(node.target, self.ev(node.value, frame), frame)

    def assign(self, target, v, frame):
        if isinstance(target, ast.Name):
            frame.env[target.id] = v
            return
        if isinstance(target, (ast.Tuple, ast.List)):
            v = self.unwrap(v, target)
            if isinstance(v, VNone):
                self.require(False, 'unpack-None', target, exc='TypeError')
                raise PyExc(VExc('TypeError', origin='cannot unpack None'))
            if isinstance(v, VTuple):
                items = v.items
            elif isinstance(v, VOpaque):
                items = self.ctx.unbox(self, v, len(target.elts))
            elif self.is_list(v) and isinstance(self.cell(v).content, list):
                items = self.cell(v).content
            else:
                s = self.seq_of(v, target)
                n = len(target.elts)
                self.require(s.th.Len(s.t) == n, 'unpack-length', target, exc='ValueError')
                items = [self.wrap_elem(s, s.th.Idx(s.t, z3.IntVal(i))) for i in range(n)]
            if len(items) != len(target.elts):
                self.require(False, 'unpack-length', target, exc='ValueError')
                raise PyExc(VExc('ValueError', origin='unpack'))
            for t, x in zip(target.elts, items):
                self.assign(t, x, frame)
            return
        if isinstance(target, ast.Attribute):
            obj = self.ev(target.value, frame)
            self.setattr(obj, target.attr, v, target, frame)
            return
        if isinstance(target, ast.Subscript):
            obj = self.ev(target.value, frame)
            if isinstance(target.slice, ast.Slice):
                raise Unsupported('slice assignment', target)
            idx = self.ev(target.slice, frame)
            self.setitem(obj, idx, v, target)
            return
        raise Unsupported('assignment target %s' % type(target).__name__, target)

    def setitem(self, obj, idx, v, node):
        obj = self.unwrap(obj, node)
        if self.is_dict(obj):
            self.ctx.dict_set(self, obj, idx, v, node)
            return
        if self.is_list(obj):
            c = self.cell(obj)
            i = self.as_int(idx, node)
            ic = VInt(i).const()
            if isinstance(c.content, list) and ic is not None:
                if not (-len(c.content) <= ic < len(c.content)):
                    self.require(False, 'index', node, exc='IndexError')
                    raise PyExc(VExc('IndexError'))
                items = list(c.content)
                items[ic] = v
                self.st.heap[obj.loc] = HList(items, c.kind)
                return
            s = self.seq_of(obj, node)
            L = s.th.Len(s.t)
            if ic is not None and ic < 0:
                self.require(L + i >= 0, 'index', node, exc='IndexError')
                i = L + i
            else:
                self.require(z3.And(0 <= i, i < L), 'index', node, exc='IndexError')
            et = self.elem_term(s.th, v, node)
            if c.kind == 'bytearray':
                self.require(z3.And(0 <= et, et < 256), 'byte-range', node, exc='ValueError')
            self.st.heap[obj.loc] = HList(s.with_term(s.th.Upd(s.t, i, et)), c.kind)
            return
        if self.is_obj(obj):
            c = self.cell(obj)
            if c.cls is not None:
                m = c.cls.find_method(self.repo, '__setitem__')
                if m is not None:
                    self.call_function(VFunc(m, obj), [idx, v], {}, node)
                    return
        raise Unsupported('item assignment on %r' % (obj,), node)

    def ex_AugAssign(self, node, frame):
        t = node.target
        if isinstance(t, ast.Name):
            cur = self.lookup(t.id, frame, node)
            cur_u = self.unwrap(cur, node)
            if isinstance(node.op, ast.Add) and self.is_list(cur_u):
                self.ctx.builtins.call(self, 'list.extend', [cur_u, self.ev(node.value, frame)], {}, node)
                return
            frame.env[t.id] = self.binop(node.op, cur, self.ev(node.value, frame), node)
            return
        if isinstance(t, ast.Attribute):
            obj = self.ev(t.value, frame)
            cur = self.getattr(obj, t.attr, t, frame)
            if isinstance(node.op, ast.Add) and self.is_list(self.unwrap(cur, node)):
                self.ctx.builtins.call(self, 'list.extend', [cur, self.ev(node.value, frame)], {}, node)
                return
            self.setattr(obj, t.attr, self.binop(node.op, cur, self.ev(node.value, frame), node), t, frame)
            return
        if isinstance(t, ast.Subscript):
            obj = self.ev(t.value, frame)
            idx = self.ev(t.slice, frame)
            cur = self.index(obj, idx, t)
            self.setitem(obj, idx, self.binop(node.op, cur, self.ev(node.value, frame), node), t)
            return
        raise Unsupported('augmented assignment target', node)

    def ex_Delete(self, node, frame):
        for t in node.targets:
            if isinstance(t, ast.Subscript):
                obj = self.unwrap(self.ev(t.value, frame), node)
                if isinstance(t.slice, ast.Slice):
                    lo = self.ev(t.slice.lower, frame) if t.slice.lower is not None else None
                    hi = self.ev(t.slice.upper, frame) if t.slice.upper is not None else None
                    if not self.is_list(obj):
                        raise Unsupported('del slice of non-list', node)
                    s = self.seq_of(obj, node)
                    L = s.th.Len(s.t)
                    a = self.norm_bound(s, lo, z3.IntVal(0), node)
                    b = self.norm_bound(s, hi, L, node)
                    if not self.provable(a <= b):
                        b = z3.If(a <= b, b, a)
                    new = s.th.app(s.th.slice(s.t, z3.IntVal(0), a), s.th.slice(s.t, b, None))
                    self.st.heap[obj.loc] = HList(s.with_term(new), self.cell(obj).kind)
                    continue
                idx = self.ev(t.slice, frame)
                if self.is_dict(obj):
                    self.ctx.dict_del(self, obj, idx, node)
                    continue
                if self.is_obj(obj):
                    c = self.cell(obj)
                    m = c.cls.find_method(self.repo, '__delitem__') if c.cls else None
                    if m is not None:
                        self.call_function(VFunc(m, obj), [idx], {}, node)
                        continue
                raise Unsupported('del item', node)
            elif isinstance(t, ast.Name):
                frame.env.pop(t.id, None)
            else:
                raise Unsupported('del target', node)

    def ex_If(self, node, frame):
        static = self.ctx.static_test(self, node.test, frame)
        if static is not None:
            self.ex_block(node.body if static else node.orelse, frame)
            return
        c = self.truthy(self.ev(node.test, frame), node)
        if self.guarded_field_update(node, c, frame):
            return
        if self.branch(c):
            self.ex_block(node.body, frame)
        else:
            self.ex_block(node.orelse, frame)

    # ---- value-level merging of two frequent shapes (no path fork; both are plain if-then-else on values) -----------------
    def eval_under(self, cond, thunk):
        """Evaluate thunk() assuming cond, without forking.  Returns (True, value) or (False, None) when the evaluation forks,
        raises or touches the heap - the caller then falls back to ordinary path splitting.  Facts learnt are kept as cond => fact."""
        cs = z3.simplify(cond)
        if z3.is_false(cs):
            return False, None
        saved = self.st.snapshot()
        n = len(self.st.pc)
        pend0, dpos0, dec0 = len(self.pending), self.dpos, list(self.decisions)
        heap0 = dict(self.st.heap)
        trace0 = len(self.st.trace)
        self.st.pc.append(cond)
        ok = True
        v = None
        try:
            v = thunk()
        except (PyExc, Unsupported, PathEnd):
            ok = False
        if ok and len(self.st.trace) != trace0:
            ok = False          # the expression emits events (calls with effects): it must not be evaluated on the path where cond is false
        if ok and (len(self.pending) != pend0 or any(self.st.heap.get(k) is not heap0.get(k) for k in set(heap0) | set(self.st.heap) if k in heap0)):
            ok = False
        if not ok:
            # restore IN PLACE: callers (in_closure, loop cuts) hold a reference to this very state object
            self.st.pc[:] = saved.pc
            self.st.heap = saved.heap
            self.st.trace = saved.trace
            self.st.next_loc = saved.next_loc
            del self.pending[pend0:]
            self.dpos, self.decisions = dpos0, dec0
            return False, None
        facts = self.st.pc[n + 1:]
        del self.st.pc[n:]
        for f in facts:
            self.st.pc.append(z3.Implies(cond, f))
        return True, v

    def guarded_field_update(self, node, c, frame):
        """`if c: obj.f = e` on an object of a modelled external class (a protobuf message): a conditional update of one field."""
        if node.orelse or len(node.body) != 1:
            return False
        st = node.body[0]
        merge = False
        if isinstance(st, ast.Assign) and len(st.targets) == 1:
            tgt, rhs = st.targets[0], st.value
        elif isinstance(st, ast.Expr) and isinstance(st.value, ast.Call) and isinstance(st.value.func, ast.Attribute) \
                and st.value.func.attr == 'MergeFrom' and len(st.value.args) == 1 and not st.value.keywords:
            tgt, rhs, merge = st.value.func.value, st.value.args[0], True       # `if c: obj.sub.MergeFrom(e)`
        else:
            return False
        if not isinstance(tgt, ast.Attribute) or not isinstance(tgt.value, ast.Name):
            return False
        try:
            obj = self.lookup(tgt.value.id, frame, node)
        except Unsupported:
            return False
        if not self.is_obj(obj):
            return False
        cell = self.cell(obj)
        pl = None
        for p in self.ctx.plugins:
            if cell.cls is None and cell.extname and hasattr(p, 'guarded_setattr') and p.owns(cell.extname):
                pl = p
        if pl is None:
            return False
        ok, v = self.eval_under(c, lambda: self.unwrap(self.ev(rhs, frame), node))
        if not ok:
            return False
        return pl.guarded_setattr(self, obj, tgt.attr, c, v, node, merge=merge)

    def ex_Assert(self, node, frame):
        c = self.truthy(self.ev(node.test, frame), node)
        if not self.branch(c):
            raise PyExc(VExc('AssertionError', origin='assert'))

    def ex_Raise(self, node, frame):
        if node.exc is None:
            cur = frame.env.get('$exc')
            if cur is None:
                raise Unsupported('bare raise outside handler', node)
            raise PyExc(cur)
        v = self.ev(node.exc, frame)
        if isinstance(v, VClass):
            v = self.instantiate(v.info, [], {}, node)
        if isinstance(v, VType):
            v = VExc(v.name)
        if isinstance(v, VBuiltin) and v.name.startswith('exc-class:'):
            v = VExc(v.name[len('exc-class:'):])
        if not isinstance(v, VExc):
            raise Unsupported('raise of %r' % (v,), node)
        raise PyExc(v)

    def exc_matches(self, exc, type_node, frame):
        """Does the exception match the handler's type expression?  Returns z3 Bool or python bool."""
        if type_node is None:
            return True
        tv = self.ev(type_node, frame)
        names = []

        def collect(v):
            if isinstance(v, VTuple):
                for x in v.items:
                    collect(x)
            elif isinstance(v, VType):
                names.append(v.name)
            elif isinstance(v, VClass):
                names.append(v.info)
            elif isinstance(v, VBuiltin) and v.name.startswith('exc-class:'):
                names.append(v.name[len('exc-class:'):])
            else:
                raise Unsupported('except clause type %r' % (v,), type_node)
        collect(tv)
        if exc.cls.startswith('opaque:'):
            if any(n in ('Exception', 'BaseException') for n in names if isinstance(n, str)):
                return True
            ct = getattr(exc, 'cls_t', None)
            if ct is None:
                return self.fresh_bool('exc_is')
            simple = [n if isinstance(n, str) else n.name for n in names]
            return z3.Or(*[ct == self.ctx.exc_class_code(n.split('.')[-1]) for n in simple])
        for n in names:
            if self.ctx.exc_isinstance(exc.cls, n):
                return True
        return False

    def ex_Try(self, node, frame):
        def run_finally():
            if node.finalbody:
                self.ex_block(node.finalbody, frame)
        hs = []
        for h in node.handlers:
            if h.type is None:
                hs.append(None)
            elif isinstance(h.type, ast.Tuple):
                hs += [ast.unparse(e).split('.')[-1] for e in h.type.elts]
            else:
                hs.append(ast.unparse(h.type).split('.')[-1])
        try:
            try:
                self.handlers.append(hs)
                try:
                    self.ex_block(node.body, frame)
                finally:
                    self.handlers.pop()
            except PyExc as pe:
                handled = False
                for h in node.handlers:
                    m = self.exc_matches(pe.exc, h.type, frame)
                    if not isinstance(m, bool):
                        m = self.branch(m)
                    if m:
                        handled = True
                        if h.name:
                            frame.env[h.name] = pe.exc
                        saved = frame.env.get('$exc')
                        frame.env['$exc'] = pe.exc
                        try:
                            self.ex_block(h.body, frame)
                        finally:
                            frame.env['$exc'] = saved
                        break
                if not handled:
                    raise
            else:
                self.ex_block(node.orelse, frame)
        except (PyExc, ReturnSig, BreakSig, ContinueSig):
            run_finally()
            raise
        run_finally()

    def ex_With(self, node, frame):
        self.ctx.exec_with(self, node, frame)

    def ex_FunctionDef(self, node, frame):
        frame.env[node.name] = VClosure(node, None, frame)

    def ex_Import(self, node, frame):
        for a in node.names:
            frame.env[a.asname or a.name.split('.')[0]] = self.ctx.extern_value(a.name if a.asname else a.name.split('.')[0])

    def ex_ImportFrom(self, node, frame):
        for a in node.names:
            m = self.repo.module_by_dotted(node.module or '')
            if m is not None:
                r = m.lookup(self.repo, a.name)
                frame.env[a.asname or a.name] = self.static_value(r, frame, node)
            else:
                frame.env[a.asname or a.name] = self.ctx.extern_value((node.module or '') + '.' + a.name)

    # ---- loops -------------------------------------------------------------------------------------
    def ex_While(self, node, frame):
        self.ctx.loops.exec_while(self, node, frame)

    def ex_For(self, node, frame):
        self.ctx.loops.exec_for(self, node, frame)


class VRat(V):
    """Result of int / const (a float that is exactly num/den as far as int() needs it)."""

    def __init__(self, num, den):
        self.num, self.den = num, den


class VRange(V):
    def __init__(self, lo, hi, step=1):
        self.lo, self.hi, self.step = lo, hi, step
