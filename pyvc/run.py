"""Development runner: python3-vt -m pyvc.run contracts/C05_framing.py [func-filter]"""
import sys, time
from .driver import Context
from . import prover

def main():
    import os
    ctx = Context(repo_root=os.environ.get("PYVC_REPO", "/repo"), timeout_ms=int(os.environ.get("PYVC_TIMEOUT_MS", "10000")))
    for plug in os.environ.get('PYVC_PLUGINS', '').split(','):
        if plug:
            mod = __import__('pyvc.' + plug, fromlist=['x'])
            ctx.plugins.append(mod.Plugin(ctx))
    ctx.load_sidecar(sys.argv[1])
    ctx.finalize()
    filt = sys.argv[2] if len(sys.argv) > 2 else None
    t0 = time.time()
    for name in ctx.registry.lemma_order:
        if filt and not any(f in name for f in filt.split('|')) and not ctx.registry.lemmas[name].kw.get('assumed'): continue
        rep = ctx.verify_lemma(ctx.registry.lemmas[name])
        print('lemma', name, 'paths', rep.paths, 'unsupported', rep.unsupported, '%.2fs' % rep.secs)
    for key, c in ctx.registry.contracts.items():
        if filt and not any(f in key[1] for f in filt.split('|')): continue
        rep = ctx.verify_function(c)
        print('function', key[1], 'paths', rep.paths, 'unsupported', rep.unsupported, '%.2fs' % rep.secs)
    agg = {}
    for o in ctx.obligations:
        a = agg.setdefault(o.name, [0, 0, o])
        a[0] += 1
        if o.status == 'discharged': a[1] += 1
        else: a[2] = o
    bad = 0
    for name, (n, d, o) in agg.items():
        ok = n == d
        if not ok: bad += 1
        print(('OK  ' if ok else 'FAIL'), name, '%d/%d' % (d, n), o.backend, '%.2fs' % o.secs, '' if ok else o.detail[:600])
    print('obligations', len(agg), 'failed', bad, 'instances', len(ctx.obligations), 'wall %.1fs' % (time.time() - t0), prover.STATS)
    for n in ctx.notes: print('note:', n)

main()
