"""Model of protobuf (proto2) message objects for the payload converter (C10).

A message object of a generated class (yowsup/.../*_pb2.py: an external library as far as the proofs go) is an object whose
fields are declared in the sidecar - fields("PB_<Name>", f=Opt(Value("v")), sub=Opt(Obj("PB_<Sub>")) ...) - and checked
against the real descriptors natively (bounded/payload_check.py, section model-facts).  Semantics assumed (proto2):
  * a freshly constructed message has no field set;
  * `m.f = v` sets scalar field f to v (assigning to a name that is not a field raises AttributeError);
  * reading an unset scalar field yields the field's default, a constant of the field;
  * `m.HasField("f")` tells whether f is set;
  * reading a message-typed field yields the sub-message; for an unset one a handle on which `MergeFrom(y)` makes the field of
    the parent equal (field by field) to y;
  * SerializeToString / ParseFromString are not modelled (they are inverse on every field: the library's business).
Spec forms: has_field(p, "f"), field_val(p, "f")."""
import ast
import z3

from . import theory as T
from .values import *
from .interp import Unsupported, PyExc


class Plugin:
    def __init__(self, ctx):
        self.ctx = ctx

    def loaded(self, ctx):
        pass

    def owns(self, extname):
        return extname.startswith('PB_')

    # ---- plugin API defaults --------------------------------------------------------------------------------------
    def getattr(self, I, obj, name, node):
        return None

    def iter_hook(self, I, it, node):
        return None

    def dict_items(self, I, d, c, node):
        return None

    def sort_of(self, ty):
        return None

    def to_term(self, I, v, ty, node):
        return None

    def from_term(self, I, t, ty):
        return None

    def make_symbolic(self, I, ty, name):
        return None

    # ---- construction ------------------------------------------------------------------------------------------------
    def extern_value(self, ctx, dotted):
        if '_pb2.' in dotted:
            return VBuiltin('proto-new:' + dotted.split('.')[-1])
        return None

    def decl(self, extname):
        return self.ctx.registry.fields.get(extname)

    def call(self, I, name, args, kwargs, node):
        if name.startswith('proto-new:'):
            ext = 'PB_' + name[len('proto-new:'):].split('.')[-1]
            if self.decl(ext) is None:
                raise Unsupported('protobuf class %s has no fields(...) declaration' % ext, node)
            return I.alloc(HObj(None, {}, extname=ext))
        if name == 'proto:HasField':
            obj, f = args[0], self.ctx.const_str(I, args[1])
            c = I.cell(obj)
            if f not in (self.decl(c.extname) or {}):
                I.require(False, 'proto-no-such-field', node, exc='ValueError')
                raise PyExc(VExc('ValueError', origin='HasField(%s)' % f))
            cur = c.fields.get(f)
            if cur is None:
                return VBool(False)
            if isinstance(cur, VOpt):
                return VBool(z3.Not(cur.is_none))
            return VBool(True)
        if name == 'proto:MergeFrom':
            h, y = args[0], I.unwrap(args[1], node)
            hc = I.cell(h)
            if hc.extname != 'PB_Handle':
                raise Unsupported('MergeFrom into a message that is not an unset sub-message field', node)
            parent = hc.fields['parent']
            I.st.heap[parent.loc] = I.cell(parent).set(hc.fields['field'], y)
            return NONE
        return NotImplemented

    def default_of(self, ext, f):
        return VOpaque(z3.Const('proto_default.%s.%s' % (ext, f), T.Obj), 'v')

    def is_message_field(self, ty):
        t = ty.args[0] if ty.name == 'Opt' else ty
        return t.name == 'Obj' or (t.name == 'Opaque' and t.args and str(t.args[0]).startswith('PB_'))

    def ext_getattr(self, I, obj, cell, name, node):
        if not self.owns(cell.extname):
            return None
        if cell.extname == 'PB_Handle':
            if name == 'MergeFrom':
                return VBuiltin('proto:MergeFrom', obj)
            raise Unsupported('attribute %s of an unset sub-message' % name, node)
        if name in ('HasField', 'MergeFrom'):
            if name == 'MergeFrom':
                raise Unsupported('MergeFrom into a whole message', node)
            return VBuiltin('proto:' + name, obj)
        decl = self.decl(cell.extname) or {}
        if name not in decl:
            I.require(False, 'proto-no-such-field', node, exc='AttributeError')
            raise PyExc(VExc('AttributeError', origin='%s has no field %s' % (cell.extname, name)))
        ty = decl[name]
        cur = cell.fields.get(name)
        msg = self.is_message_field(ty)

        def handle():
            return I.alloc(HObj(None, {'parent': obj, 'field': name}, extname='PB_Handle'))
        if cur is None:
            return handle() if msg else self.default_of(cell.extname, name)
        if isinstance(cur, VOpt):
            if msg:
                if I.pure:
                    return cur.val
                if I.branch(cur.is_none):
                    return handle()
                return cur.val
            v = cur.val
            if isinstance(v, VOpaque):
                return VOpaque(z3.If(cur.is_none, self.default_of(cell.extname, name).t, v.t), v.label)
            raise Unsupported('scalar protobuf field of kind %r' % (v,), node)
        return cur

    def ext_setattr(self, I, obj, cell, name, val, node):
        decl = self.decl(cell.extname) or {}
        if cell.extname == 'PB_Handle' or name not in decl:
            I.require(False, 'proto-no-such-field', node, exc='AttributeError')
            raise PyExc(VExc('AttributeError', origin='%s has no field %s' % (cell.extname, name)))
        if self.is_message_field(decl[name]):
            I.require(False, 'proto-assign-to-message-field', node, exc='AttributeError')
            raise PyExc(VExc('AttributeError', origin='assignment to message field %s' % name))
        val = I.unwrap(val, node)
        if isinstance(val, VNone):
            I.require(False, 'proto-assign-None', node, exc='TypeError')
            raise PyExc(VExc('TypeError', origin='None assigned to field %s' % name))
        I.st.heap[obj.loc] = cell.set(name, val)

    def guarded_setattr(self, I, obj, name, cond, val, node, merge=False):
        """if cond: obj.name = val   (scalar field, val not None under cond)  /  if cond: obj.name.MergeFrom(val)  (unset message field)"""
        cell = I.cell(obj)
        decl = self.decl(cell.extname) or {}
        if cell.extname == 'PB_Handle' or name not in decl:
            return False
        old = cell.fields.get(name)
        if merge:
            if not self.is_message_field(decl[name]) or old is not None or not (isinstance(val, VOpaque) or I.is_obj(val)):
                return False
            I.st.heap[obj.loc] = cell.set(name, VOpt(z3.Not(cond), val))
            return True
        if self.is_message_field(decl[name]) or not isinstance(val, VOpaque):
            return False
        if old is None:
            new = VOpt(z3.Not(cond), val)
        elif isinstance(old, VOpt) and isinstance(old.val, VOpaque):
            new = VOpt(z3.And(z3.Not(cond), old.is_none), VOpaque(z3.If(cond, val.t, old.val.t), val.label))
        elif isinstance(old, VOpaque):
            new = VOpaque(z3.If(cond, val.t, old.t), val.label)
        else:
            return False
        I.st.heap[obj.loc] = cell.set(name, new)
        return True

    # ---- spec forms -----------------------------------------------------------------------------------------------------
    def spec_form(self, I, fn, node, frame):
        if fn not in ('has_field', 'field_val'):
            return NotImplemented
        obj = I.unwrap(I.ev(node.args[0], frame))
        f = self.ctx.const_str(I, I.ev(node.args[1], frame))
        if not I.is_obj(obj) or not self.owns(I.cell(obj).extname or ''):
            raise Unsupported('%s on %r' % (fn, obj), node)
        c = I.cell(obj)
        decl = self.decl(c.extname) or {}
        if f not in decl:
            raise Unsupported('%s: %s has no declared field %s' % (fn, c.extname, f), node)
        cur = c.fields.get(f)
        if fn == 'has_field':
            if cur is None:
                return VBool(False)
            if isinstance(cur, VOpt):
                return VBool(z3.Not(cur.is_none))
            return VBool(True)
        if cur is None:
            return NONE if self.is_message_field(decl[f]) else self.default_of(c.extname, f)
        if isinstance(cur, VOpt):
            if self.is_message_field(decl[f]):
                return cur
            return VOpaque(z3.If(cur.is_none, self.default_of(c.extname, f).t, cur.val.t), 'v')
        return cur
