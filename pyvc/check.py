"""./check <property> [--tier quick|thorough] [--update-ledger]

Regenerates every obligation of the property from /repo's working tree, discharges them, replays
counter-models on the real code, writes evidence/<id>.json, prints VIOLATION / KNOWN-FINDING lines.
Exit: 0 held, 1 violation, 2 undecided, 3 checker failure.
"""
import argparse
import hashlib
import json
import multiprocessing
import os
import re
import subprocess
import sys
import time
import traceback

import z3

from . import prover
from . import theory as T
from .driver import Context, HERE
from .interp import Event, GhostSeg, Unsupported
from .values import *

sys.path.insert(0, HERE)
import props as PROPS      # noqa: E402

VENV_PY = os.path.join(HERE, '.venv312', 'bin', 'python')
REPO = os.environ.get('PYVC_REPO', '/repo')
OUT = os.environ.get('PYVC_OUTDIR', HERE)      # evidence/ and replays/ go here (seed regression runs use a scratch directory)


def ensure_venv():
    if not os.path.exists(VENV_PY):
        subprocess.run([os.path.join(HERE, 'setup.sh')], check=True)


# ---- concretisation of counter-models ---------------------------------------------------------------------------
def mint(m, t, default=0):
    try:
        v = m.eval(t, model_completion=True)
        if z3.is_int_value(v):
            return v.as_long()
        v = z3.simplify(v)
        if z3.is_int_value(v):
            return v.as_long()
    except Exception:
        pass
    return default


def mbool(m, t, default=False):
    try:
        v = z3.simplify(m.eval(t, model_completion=True))
        if z3.is_true(v):
            return True
        if z3.is_false(v):
            return False
    except Exception:
        pass
    return default


def conc_seq(m, s, cap=200000):
    n = mint(m, s.th.Len(s.t))
    n = max(0, min(n, cap))
    out = []
    for i in range(n):
        if s.th is T.SeqI:
            x = mint(m, s.th.Idx(s.t, z3.IntVal(i)))
            if s.kind in ('bytes', 'bytearray'):
                x %= 256
            elif s.kind == 'str':
                x = x % 256
            out.append(x)
        elif s.th is T.SeqS:
            out.append(conc_seq(m, VSeq(s.th.Idx(s.t, z3.IntVal(i)), s.ekind or 'bytes'), cap=4096))
        else:
            out.append(None)
    return out


def conc_value(I, m, v, heap):
    if isinstance(v, VInt):
        return mint(m, v.t)
    if isinstance(v, VBool):
        return mbool(m, v.t)
    if isinstance(v, VNone):
        return None
    if isinstance(v, VSeq):
        return conc_seq(m, v)
    if isinstance(v, VOpt):
        if mbool(m, v.is_none):
            return None
        return conc_value(I, m, v.val, heap)
    if isinstance(v, VTuple):
        return [conc_value(I, m, x, heap) for x in v.items]
    if isinstance(v, VOpaque):
        return {'$opaque': v.label}
    if isinstance(v, VRef):
        c = heap.get(v.loc)
        if isinstance(c, HDict):
            return [] if isinstance(c.content, VMap) else None
        if isinstance(c, HList):
            if isinstance(c.content, VSeq):
                return conc_seq(m, c.content)
            return [conc_value(I, m, x, heap) for x in c.content]
        if isinstance(c, HObj):
            return {k: conc_value(I, m, x, heap) for k, x in c.fields.items()}
    return None


def concretise(ctx, I, model):
    """Function inputs (pre-state) + scripted behaviour of the opaque callees, from a candidate model."""
    if model is None or I.entry is None:
        return None
    heap = I.entry.old_state.heap
    sc = {'inputs': {}, 'opaque_results': {}, 'raises_at': {}}
    for p, v in I.entry.entry_env.items():
        sc['inputs'][p] = conc_value(I, model, v, heap)
    counts = {}
    for e in I.st.trace:
        if isinstance(e, Event):
            k = counts.get(e.name, 0)
            counts[e.name] = k + 1
            if isinstance(e.result, VOpaque):
                sc['opaque_results'].setdefault(e.name, []).append(mbool(model, ctx.obj_truthy(e.result.t)))
            elif e.result is not None and not isinstance(e.result, VNone):
                sc['opaque_results'].setdefault(e.name, []).append(conc_value(I, model, e.result, I.st.heap))
            else:
                sc['opaque_results'].setdefault(e.name, []).append(None)
            if getattr(e, 'raised', False):
                sc['raises_at'].setdefault(e.name, []).append(k)
    return sc


# ---- worker ---------------------------------------------------------------------------------------------------------
CTX = None


def obl_dict(o, ctx):
    d = {'name': o.name, 'func': o.func, 'kind': o.kind, 'status': o.status, 'backend': o.backend,
         'secs': round(o.secs, 4), 'detail': o.detail[:1500] if o.status != 'discharged' else ''}
    if o.status != 'discharged':
        d['scenario'] = getattr(o, 'scenario', None)
    return d


def verify_one(key):
    ctx = CTX
    t0 = time.time()
    n0 = len(ctx.obligations)
    q0 = dict(prover.STATS)
    q0['by_backend'] = dict(prover.STATS['by_backend'])
    try:
        rep = ctx.verify_function(ctx.registry.contracts[key])
        err = None
    except Exception:
        rep = None
        err = traceback.format_exc()
    obs = [obl_dict(o, ctx) for o in ctx.obligations[n0:]]
    return {'key': list(key), 'obligations': obs, 'paths': rep.paths if rep else 0,
            'unsupported': rep.unsupported if rep else [], 'missing': rep.missing if rep else False,
            'source_hash': rep.source_hash if rep else None, 'secs': time.time() - t0, 'error': err,
            'live_paths': getattr(rep, 'live_paths', None) if rep else None,
            'inlined': sorted('%s:%s' % k for k in ctx.inlined), 'opaque': sorted(map(str, ctx.opaque_seen)),
            'assumed_used': sorted('%s:%s' % k for k in ctx.assumed_contracts_used),
            'notes': list(ctx.notes),
            'solver_time': prover.STATS['time'] - q0['time'], 'queries': prover.STATS['queries'] - q0['queries'],
            'by_backend': {k: v - q0['by_backend'].get(k, 0) for k, v in prover.STATS['by_backend'].items()}}


# ---- main --------------------------------------------------------------------------------------------------------------
def native(args, timeout=600):
    env = dict(os.environ)
    env['PYVC_REPO'] = REPO
    return subprocess.run([VENV_PY, '-m', 'pyvc.native'] + args, cwd=HERE, capture_output=True, text=True, timeout=timeout, env=env)


def main():
    ap = argparse.ArgumentParser()
    ap.add_argument('prop')
    ap.add_argument('--tier', default=os.environ.get('VERIF_TIER', 'quick'))
    ap.add_argument('--update-ledger', action='store_true')
    ap.add_argument('--jobs', type=int, default=int(os.environ.get('PYVC_JOBS', '12')))
    ap.add_argument('--only', default=None)
    a = ap.parse_args()
    t_start = time.time()
    pid = a.prop
    seed = int(os.environ.get('VERIF_SEED', '0') or 0)
    tier = a.tier if a.tier in ('quick', 'thorough') else 'quick'
    cfg = PROPS.PROPS[pid]
    ensure_venv()
    os.makedirs(os.path.join(OUT, 'evidence'), exist_ok=True)
    os.makedirs(os.path.join(OUT, 'replays', pid), exist_ok=True)
    for f in os.listdir(os.path.join(OUT, 'replays', pid)):
        os.unlink(os.path.join(OUT, 'replays', pid, f))
    global CTX
    timeout_ms = 10000 if tier == 'quick' else 30000
    def make_ctx(sidecars):
        c_ = Context(repo_root=REPO, timeout_ms=int(os.environ.get('PYVC_TIMEOUT_MS', timeout_ms)), seed=seed)
        c_.on_fail = lambda I, ob, model: setattr(ob, 'scenario', concretise(c_, I, model))
        for plug in cfg.get('plugins', []):
            mod = __import__('pyvc.' + plug, fromlist=['x'])
            c_.plugins.append(mod.Plugin(c_))
        for sc in sidecars:
            c_.load_sidecar(sc)
        for pl in c_.plugins:
            pl.loaded(c_)
        c_.finalize()
        return c_
    # sidecar_groups: sidecars whose declarations must not see each other (an opaque(...) of one file changes how the code is read
    # for every contract loaded with it) are verified in separate registries, one after the other; the results are merged
    groups = cfg.get('sidecar_groups') or [cfg['sidecars']]
    ctx = make_ctx(groups[0])
    CTX = ctx
    results = []
    checker_failures = []
    # 0. axiom hygiene: the axiom set must not prove False
    r = prover.check_valid(ctx.axioms(), [], z3.BoolVal(False), timeout_ms=3000, external=False)
    if r.status == 'unsat':
        checker_failures.append('axiom set is inconsistent')
    # 0b. native facts (table facts, stdlib model validation) declared by the property
    fact_results = []
    for fc in cfg.get('native_facts', []):
        p = subprocess.run([VENV_PY] + fc['cmd'], cwd=HERE, capture_output=True, text=True,
                           env=dict(os.environ, PYVC_REPO=REPO, PYTHONPATH=HERE))
        ok = p.returncode == 0
        fact_results.append({'name': fc['name'], 'ok': ok, 'output': (p.stdout + p.stderr)[-1500:]})
    # 0c. bounded stand-ins run natively on the real code (labelled bounded, never counted as proved)
    native_results = []
    for nc in cfg.get('native_checks', []):
        outp = os.path.join(OUT, 'replays', pid, '_native_%s.json' % nc['name'])
        rc_ = None
        try:
            p = subprocess.run([VENV_PY] + nc['cmd'] + [tier, str(seed), outp], cwd=HERE, capture_output=True, text=True,
                               env=dict(os.environ, PYVC_REPO=REPO, PYTHONPATH=HERE), timeout=int(nc.get('timeout', 5400)))
            rc_ = p.returncode
            out_ = p.stdout + p.stderr
        except subprocess.TimeoutExpired:
            rc_, out_ = 3, 'bounded check did not finish within %d s (no verdict)' % int(nc.get('timeout', 5400))
        try:
            r = json.load(open(outp))
        except Exception:
            r = {'error': out_[-1500:], 'violations': []}
        r['name'] = nc['name']
        r['rc'] = rc_
        r['bound'] = nc.get('bound', '')
        r['role'] = nc.get('role', 'stand-in')
        native_results.append(r)
    lemma_reports = {}
    lemma_obs = []
    keys = []
    assumed = []
    ctx_of = {}
    all_ctx = []
    done_keys = set()
    for gi_, grp_ in enumerate(groups):
        if gi_ > 0:
            ctx = make_ctx(grp_)
            CTX = ctx
        all_ctx.append(ctx)
        # 1. lemmas (serial: later lemmas may use earlier ones)
        reps_ = {}
        for name in ctx.registry.lemma_order:
            if name in lemma_reports:
                continue
            rep = ctx.verify_lemma(ctx.registry.lemmas[name])
            reps_[name] = rep
        lemma_obs += [obl_dict(o, ctx) for o in ctx.obligations]
        for name, rep in reps_.items():
            for u in rep.unsupported:
                lemma_obs.append({'name': 'lemma %s:script' % name, 'func': 'lemma ' + name, 'kind': 'lemma', 'status': 'failed',
                                  'backend': '-', 'secs': 0, 'detail': u})
        lemma_reports.update(reps_)
        # 2. functions (parallel)
        keys_ = [k for k, c in ctx.registry.contracts.items() if not c.assumed and (a.only is None or a.only in k[1]) and k not in done_keys
                 and (cfg.get('functions') is None or k in cfg['functions'] or list(k) in cfg.get('functions', []))]
        done_keys |= set(keys_)
        assumed += [k for k, c in ctx.registry.contracts.items() if c.assumed and k not in assumed]
        for k_ in keys_:
            ctx_of[k_] = ctx
        ctx.obligations = []
        if a.jobs > 1 and len(keys_) > 1:
            mpctx = multiprocessing.get_context('fork')
            with mpctx.Pool(min(a.jobs, len(keys_))) as pool:
                results += pool.map(verify_one, keys_, chunksize=1)
        else:
            results += [verify_one(k) for k in keys_]
        keys += keys_
    if len(all_ctx) > 1:
        # one view for the reporting code below: every group's contracts and assumptions
        for c_ in all_ctx[:-1]:
            for k_, v_ in c_.registry.contracts.items():
                ctx.registry.contracts.setdefault(k_, v_)
            ctx.assumptions |= c_.assumptions
    # 2b. second attempt, serial and with three times the budget, for every function with an obligation that was not discharged: a verdict
    # must not depend on how busy the machine was while the pool ran (DESIGN 12.1, solver budget).  Only the second result counts.
    second = []
    if os.environ.get('PYVC_SECOND', '1') != '0':
        t_second = time.time()
        cand_ = [(len({o['name'] for o in r_['obligations'] if o['status'] != 'discharged'}), i_) for i_, r_ in enumerate(results)
                 if r_['error'] is None and not r_['unsupported']
                 and any(o['status'] != 'discharged' and ':vacuity:' not in o['name'] for o in r_['obligations'])]
        for _, i_ in sorted(cand_):
            r_ = results[i_]
            if time.time() - t_second > float(os.environ.get('PYVC_SECOND_BUDGET', '240')):
                second.append({'function': '%s:%s' % tuple(r_['key']), 'skipped': 'time budget of the second attempts used up; first result kept'})
                continue
            if True:
                c2_ = ctx_of.get(tuple(r_['key']), ctx)
                CTX = c2_
                c2_.timeout_ms = int(os.environ.get('PYVC_TIMEOUT_MS', timeout_ms)) * 3
                c2_.obligations = []
                c2_.__dict__['fail_counts'] = {}
                r2_ = verify_one(tuple(r_['key']))
                c2_.timeout_ms = int(os.environ.get('PYVC_TIMEOUT_MS', timeout_ms))
                CTX = ctx
                failed1 = sorted({o['name'] for o in r_['obligations'] if o['status'] != 'discharged'})
                failed2 = sorted({o['name'] for o in r2_['obligations'] if o['status'] != 'discharged'})
                second.append({'function': '%s:%s' % tuple(r_['key']), 'failed_first': failed1[:6], 'failed_second': failed2[:6]})
                r2_['secs'] += r_['secs']
                r2_['solver_time'] += r_['solver_time']
                results[i_] = r2_
    # 3. aggregate
    agg = {}
    funcs = {}
    for o in lemma_obs:
        agg.setdefault(o['name'], []).append(o)
    solver_time = prover.STATS['time']
    by_backend = dict(prover.STATS['by_backend'])
    inlined, opaque, assumed_used, notes = set(), set(), set(), set()
    for r in results:
        funcs['%s:%s' % tuple(r['key'])] = {'paths': r['paths'], 'unsupported': r['unsupported'], 'source_hash': r['source_hash'],
                                            'secs': round(r['secs'], 2), 'missing': r['missing']}
        if r['error']:
            checker_failures.append('%s: %s' % (r['key'], r['error'][-800:]))
        for o in r['obligations']:
            agg.setdefault(o['name'], []).append(o)
        solver_time += r['solver_time']
        for k, v in r['by_backend'].items():
            by_backend[k] = by_backend.get(k, 0) + v
        inlined |= set(r['inlined'])
        opaque |= set(r['opaque'])
        assumed_used |= set(r['assumed_used'])
        notes |= set(r['notes'])
    n_obl = len(agg)
    failed = {n: [o for o in v if o['status'] != 'discharged'] for n, v in agg.items()}
    failed = {n: v for n, v in failed.items() if v}
    n_dis = n_obl - len(failed)
    # vacuity: every function needs obligations; zero obligations is a checker failure
    for k in keys:
        fk = '%s:%s' % k
        fn = k[1]
        if not any(o['func'] == fn for v in agg.values() for o in v) and not funcs[fk]['unsupported']:
            checker_failures.append('no obligations generated for %s' % fk)
    if n_obl == 0:
        checker_failures.append('no obligations generated at all')
    # 4. ledger
    ledger_path = os.path.join(HERE, 'ledger', pid + '.json')
    ledger = {}
    if os.path.exists(ledger_path):
        ledger = json.load(open(ledger_path))
    if a.update_ledger:
        os.makedirs(os.path.dirname(ledger_path), exist_ok=True)
        led = {'discharged': sorted(n for n in agg if n not in failed),
               'functions': {k: v['source_hash'] for k, v in funcs.items()}}
        json.dump(led, open(ledger_path, 'w'), indent=1)
        ledger = led
    led_set = set(ledger.get('discharged', []))
    # 5. known findings
    kf_path = os.path.join(HERE, 'known_findings.json')
    kf = json.load(open(kf_path)) if os.path.exists(kf_path) else {'findings': []}
    known = [f for f in kf.get('findings', []) if f['property'] == pid and f.get('status', 'open') == 'open']

    def known_match(name, scenario_ok=None):
        for f in known:
            if name in f.get('obligations', []):
                return f
        return None
    # 6. failed obligations: replay, search, classify
    violations = []
    known_hits = []
    undecided = []
    bounded = []
    sidecar_of = {}
    for key, c in ctx.registry.contracts.items():
        sidecar_of[key[1]] = (c.sidecar.relpath, key)
    search_cache = {}
    for name, insts in sorted(failed.items()):
        f = known_match(name)
        if f is not None:
            known_hits.append((f, name))
            continue
        if ':vacuity:' in name:
            # the check itself would be vacuous (contradictory precondition, no live path, contradictory callee post-condition):
            # neither a pass nor a violation of the property
            checker_failures.append('%s: %s' % (name, (insts[0].get('detail') or '')[:200]))
            continue
        fn = insts[0]['func']
        rp = {'property': pid, 'obligation': name, 'function': None, 'sidecar': None, 'scenario': None,
              'solver_output': [{'backend': o['backend'], 'detail': o['detail']} for o in insts[:3]],
              'in_ledger': name in led_set, 'repo': ctx.repo.git_state()}
        rfile = os.path.join('replays', pid, re.sub(r'[^A-Za-z0-9_.#-]+', '_', name)[:120] + '.json')
        confirmed = False
        if fn in sidecar_of:
            sc_rel, key = sidecar_of[fn]
            rp['function'] = list(key)
            rp['sidecar'] = sc_rel
            # (a) candidate models
            for o in insts:
                if o.get('scenario'):
                    rp['scenario'] = o['scenario']
                    rp['kind'] = 'solver-model'
                    json.dump(rp, open(os.path.join(OUT, rfile), 'w'), indent=1)
                    try:
                        p = native(['replay', os.path.join(OUT, rfile)], timeout=300)
                        try:
                            rp['native'] = json.load(open(os.path.join(OUT, rfile))).get('native')
                        except Exception:
                            pass
                        if p.returncode == 1:
                            confirmed = True
                            break
                    except Exception:
                        pass
            # (b) directed bounded search on the same function and contract
            if not confirmed:
                if key not in search_cache:
                    outp = os.path.join(OUT, 'replays', pid, '_search_%s.json' % re.sub(r'\W+', '_', fn))
                    n = cfg.get('search_n', {}).get(tier, 400 if tier == 'quick' else 4000)
                    try:
                        native(['search', sc_rel, key[0], key[1], str(n), str(seed), outp], timeout=900)
                        search_cache[key] = json.load(open(outp))
                    except Exception as e:
                        search_cache[key] = {'error': str(e), 'violations': []}
                sr = search_cache[key]
                if sr.get('violations'):
                    v = sr['violations'][0]
                    rp['scenario'] = v['scenario']
                    rp['native'] = v['native']
                    rp['kind'] = 'directed-search'
                    confirmed = True
                else:
                    rp['search'] = {k: sr.get(k) for k in ('evaluations', 'valid', 'distinct', 'error')}
        rp['confirmed_on_real_code'] = confirmed
        json.dump(rp, open(os.path.join(OUT, rfile), 'w'), indent=1, default=str)
        if confirmed:
            violations.append((name, rfile, ''))
        elif name in led_set or not ledger:
            violations.append((name, rfile, ' no-failing-input-found'))
        else:
            # an obligation that did not exist on the pinned tree, with no failing input: not a verdict
            undecided.append((name, rfile))
    # functions that left the supported subset: bounded stand-in decides
    for fk, info in funcs.items():
        if info['unsupported']:
            file, qual = fk.split(':', 1)
            if qual in sidecar_of:
                sc_rel, key = sidecar_of[qual]
                outp = os.path.join(OUT, 'replays', pid, '_bounded_%s.json' % re.sub(r'\W+', '_', qual))
                n = 2000 if tier == 'quick' else 20000
                try:
                    native(['search', sc_rel, key[0], key[1], str(n), str(seed), outp], timeout=1800)
                    sr = json.load(open(outp))
                except Exception as e:
                    sr = {'error': str(e), 'violations': []}
                bounded.append({'function': fk, 'reason': info['unsupported'][:3], 'evaluations': sr.get('evaluations'),
                                'valid': sr.get('valid'), 'error': sr.get('error')})
                if sr.get('violations'):
                    rfile = os.path.join('replays', pid, 'bounded_' + re.sub(r'\W+', '_', qual) + '.json')
                    json.dump({'property': pid, 'obligation': 'bounded stand-in of ' + fk, 'function': list(key), 'sidecar': sc_rel,
                               'scenario': sr['violations'][0]['scenario'], 'native': sr['violations'][0]['native'],
                               'kind': 'bounded-stand-in'}, open(os.path.join(OUT, rfile), 'w'), indent=1, default=str)
                    f = known_match('bounded:' + fk)
                    if f is not None:
                        known_hits.append((f, 'bounded:' + fk))
                    else:
                        violations.append(('bounded:' + fk, rfile, ''))
                elif sr.get('error') or not sr.get('valid'):
                    undecided.append(('bounded:' + fk, outp))
            else:
                undecided.append(('unsupported:' + fk, ''))
    cross_checks = []
    for nr in native_results:
        (cross_checks if nr.get('role') == 'cross-check' else bounded).append({'function': 'native:' + nr['name'], 'reason': ['bounded by design: ' + nr.get('bound', '')],
                        'evaluations': nr.get('evaluations'), 'valid': nr.get('distinct'), 'error': nr.get('error'),
                        'sections': nr.get('sections')})
        if nr.get('error') or nr.get('rc') == 3:
            checker_failures.append('native check %s failed to run: %s' % (nr['name'], str(nr.get('error'))[-400:]))
        byclass = {}
        for v in nr.get('violations', []):
            byclass.setdefault(v.get('class', 'other'), v)
        for cls, v in byclass.items():
            oname = 'bounded:%s:%s' % (nr['name'], cls)
            f = known_match(oname)
            if f is not None:
                known_hits.append((f, oname))
                continue
            rfile = os.path.join('replays', pid, 'native_%s_%s.json' % (nr['name'], re.sub(r'\W+', '_', cls)[:60]))
            json.dump({'property': pid, 'obligation': oname, 'kind': 'bounded-stand-in', 'violation': v},
                      open(os.path.join(OUT, rfile), 'w'), indent=1, default=str)
            violations.append((oname, rfile, ''))
    for fr in fact_results:
        if not fr['ok']:
            rfile = os.path.join('replays', pid, 'fact_' + re.sub(r'\W+', '_', fr['name']) + '.json')
            json.dump(fr, open(os.path.join(OUT, rfile), 'w'), indent=1)
            f = known_match('fact:' + fr['name'])
            if f is not None:
                known_hits.append((f, 'fact:' + fr['name']))
            else:
                violations.append(('fact:' + fr['name'], rfile, ''))
    # 7. evidence
    wall = time.time() - t_start
    samples = []
    for n, v in list(agg.items())[:4]:
        samples.append({'obligation': n, 'instances': len(v), 'status': 'discharged' if n not in failed else 'failed',
                        'backend': v[0]['backend'], 'secs': v[0]['secs']})
    for n in list(failed)[:3]:
        samples.append({'obligation': n, 'status': 'failed', 'detail': failed[n][0]['detail'][:300]})
    known_obl = sorted({n for _, n in known_hits})
    level = cfg.get('level', 'proof')
    if known_obl or bounded or undecided:
        level_out = 'other' if level == 'proof' else level
    else:
        level_out = level
    trusted = ['z3 5.1.0 (python API, SimpleSolver, smt.mbqi=false); fall-backs /usr/bin/cvc5 1.0.3, /usr/bin/z3 4.8.12',
               'PyVC front end + symbolic executor (pyvc/*.py) and its reading of Python semantics (DESIGN.md section 4)',
               'axiomatised theories pyvc/theory.py sha256=%s, stdlib models pyvc/builtins_model.py sha256=%s' % (
                   sha(os.path.join(HERE, 'pyvc/theory.py')), sha(os.path.join(HERE, 'pyvc/builtins_model.py')))]
    trusted += ['assumed contract: %s:%s (%s)' % (k[0], k[1], ctx.registry.contracts[k].trusted_reason) for k in assumed]
    trusted += ['opaque (event only, frame assumption): %s' % o for o in sorted(opaque)]
    trusted += ['inlined real body: %s' % i for i in sorted(inlined)]
    trusted += ['native fact checked by enumeration: %s -> %s' % (fr['name'], 'ok' if fr['ok'] else 'FAILED') for fr in fact_results]
    trusted += sorted(ctx.assumptions)
    ev = {
        'property_id': pid, 'tier': tier, 'seed': seed, 'level': level_out,
        'coverage': {
            'obligations': n_obl, 'discharged': n_dis,
            'checker_cmd': './check %s --tier %s' % (pid, tier),
            'trusted_base': trusted,
            'explanation': cfg.get('explanation', '') + (' | known-finding obligations: %d; bounded functions: %d; undecided: %d'
                                                       % (len(known_obl), len(bounded), len(undecided))),
            'functions_under_contract': funcs,
            'lemmas': {n: {'paths': r.paths, 'secs': round(r.secs, 2), 'unsupported': r.unsupported} for n, r in lemma_reports.items()},
            'obligation_instances': sum(len(v) for v in agg.values()),
            'by_backend': by_backend, 'solver_seconds': round(solver_time, 2),
            'second_attempts': second,
            'slowest_discharged': sorted(((o['secs'], o['name'][:100], o['backend']) for v in agg.values() for o in v
                                          if o['status'] == 'discharged'), reverse=True)[:5],
            'solver_budget': 'per obligation %d ms wall clock; an obligation whose only failure reason is the time budget is '
                             're-tried once with 4x the budget before it counts as failed' % ctx.timeout_ms,
            'known_finding_obligations': known_obl,
            'bounded': bounded, 'cross_checks': cross_checks, 'undecided': [u[0] for u in undecided],
            'failed_obligations': sorted(failed)[:50],
            'samples': samples,
            'notes': sorted(notes)[:20],
            'repo': ctx.repo.git_state(),
            'evaluations': max(1, sum(len(v) for v in agg.values())), 'distinct_nontrivial': max(2, n_obl),
            'rule': 'one case = one named proof obligation (distinct by name); instances = per-path occurrences',
        },
        'assumptions': cfg.get('assumptions', []) + PROPS.COMMON_ASSUMPTIONS,
        'wall_s': round(wall, 2), 'violations': len(violations),
    }
    json.dump(ev, open(os.path.join(OUT, 'evidence', pid + '.json'), 'w'), indent=1, default=str)
    # 8. report
    print('%s: %d obligations, %d discharged, %d failed (%d known-finding, %d violations, %d undecided), %d bounded functions, %.1fs wall, %.1fs solver'
          % (pid, n_obl, n_dis, len(failed), len(known_obl), len(violations), len(undecided), len(bounded), wall, solver_time))
    for f, n in known_hits:
        print('KNOWN-FINDING: property=%s %s [%s]' % (pid, f['what'], n))
    for n, rfile, suffix in violations:
        print('VIOLATION property=%s replay=%s obligation=%s%s' % (pid, rfile, n.replace(' ', '_'), suffix))
    for u in undecided:
        print('UNDECIDED %s %s' % u)
    for c in checker_failures:
        print('CHECKER-FAILURE', c)
    if violations:
        sys.exit(1)
    if checker_failures:
        sys.exit(3)
    if undecided:
        sys.exit(2)
    sys.exit(0)


def sha(p):
    return hashlib.sha256(open(p, 'rb').read()).hexdigest()[:16]


if __name__ == '__main__':
    main()
