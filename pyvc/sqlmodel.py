"""Assumed transactional model of sqlite3 (DESIGN.md appendix D) as a PyVC plugin.

A connection carries two abstract table states for the table of the store under verification: W (working state,
what SELECT sees) and D (durable state, what a reopened database shows after a crash).  DML acts on W, commit()
sets D := W atomically.  The statement shapes are parsed from the REAL SQL string literals of the code; the schema
(columns, UNIQUE key) is parsed from the real CREATE TABLE / CREATE UNIQUE INDEX literals of the store class.
An unrecognised statement makes the function `unsupported` (-> bounded stand-in), never silently passes.
"""
import ast
import re
import z3

from . import theory as T
from .values import *
from .interp import Unsupported, PyExc, Event
from .contracts import Ty

S = T.SeqI
MapOO = T.MapOO
BoxInt = z3.Function('box_int', T.I, T.Obj)
UnboxInt = z3.Function('unbox_int', T.Obj, T.I)
BoxStr = z3.Function('box_str', S.sort, T.Obj)
UnboxStr = z3.Function('unbox_str', T.Obj, S.sort)
IsInt = z3.Function('obj_is_int', T.Obj, T.B)
IsStr = z3.Function('obj_is_str', T.Obj, T.B)
# whole-table queries (no key in the WHERE clause): functions of the table state only
RowsOf = z3.Function('sql.rows', MapOO.sort, T.SeqO.sort)
RowsUnsent = z3.Function('sql.rows_unsent', MapOO.sort, T.SeqO.sort)
MaxKey = z3.Function('sql.max_key', MapOO.sort, T.Obj)


from .sqlschema import Schema, parse_create, parse_index


class Plugin:
    def __init__(self, ctx):
        self.ctx = ctx
        self.schemas = {}
        ctx.sql = self

    def loaded(self, ctx):
        pass

    # ---- defaults of the plugin API ---------------------------------------------------------------------------
    def extern_value(self, ctx, dotted):
        return None

    def getattr(self, I, obj, name, node):
        return None

    def iter_hook(self, I, it, node):
        return None

    def dict_items(self, I, d, c, node):
        return None

    def sort_of(self, ty):
        if ty.name == 'Table':
            return MapOO.sort
        return None

    def to_term(self, I, v, ty, node):
        if ty.name == 'Table' and isinstance(v, VMap):
            return v.t
        return None

    def from_term(self, I, t, ty):
        if ty.name == 'Table':
            return VMap(t, MapOO, 'obj', 'obj')
        return None

    def axioms(self):
        x = z3.Int('x')
        s = z3.Const('s', S.sort)
        none = self.ctx.NONE_OBJ
        A = [
            z3.ForAll([x], z3.And(UnboxInt(BoxInt(x)) == x, BoxInt(x) != none, IsInt(BoxInt(x)), z3.Not(IsStr(BoxInt(x)))), patterns=[BoxInt(x)]),
            z3.ForAll([s], z3.And(UnboxStr(BoxStr(s)) == s, BoxStr(s) != none, IsStr(BoxStr(s)), z3.Not(IsInt(BoxStr(s)))), patterns=[BoxStr(s)]),
            z3.Not(IsInt(none)), z3.Not(IsStr(none)),
        ]
        o = z3.Const('o', T.Obj)
        A.append(z3.ForAll([o], z3.Implies(IsInt(o), BoxInt(UnboxInt(o)) == o), patterns=[UnboxInt(o)]))
        A.append(z3.ForAll([o], z3.Implies(IsStr(o), BoxStr(UnboxStr(o)) == o), patterns=[UnboxStr(o)]))
        for n in (1, 4, 5, 6):
            xs = [z3.Const('bx%d' % i, T.Obj) for i in range(n)]
            t = self.ctx.tup_fn(n)(*xs)
            A.append(z3.ForAll(xs, z3.And(*[self.ctx.proj_fn(n, k)(t) == xs[k] for k in range(n)], t != none), patterns=[t]))
        return A

    # ---- schema from the real source ------------------------------------------------------------------------------
    def schema_for(self, cname):
        if cname in self.schemas:
            return self.schemas[cname]
        ci = self.ctx.find_class(cname)
        if ci is None:
            raise Unsupported('sql model: class %s not found' % cname)
        init = ci.methods.get('__init__')
        sch, uniq = None, None
        for n in ast.walk(init.node):
            if isinstance(n, ast.Constant) and isinstance(n.value, str):
                p = parse_create(n.value)
                if p:
                    sch = p
                pi = parse_index(n.value)
                if pi:
                    uniq = pi
        if sch is None:
            raise Unsupported('sql model: no CREATE TABLE literal in %s.__init__' % cname)
        if uniq and uniq[0] == sch.table:
            sch.unique = uniq[1]
        self.schemas[cname] = sch
        return sch

    def make_symbolic(self, I, ty, name):
        if ty.name != 'Conn':
            return None
        cname = ty.args[0]
        sch = self.schema_for(cname)
        W = VMap(I.fresh(name + '_W', MapOO.sort), MapOO, 'obj', 'obj')
        D = VMap(I.fresh(name + '_D', MapOO.sort), MapOO, 'obj', 'obj')
        conn = I.alloc(HObj(None, {'W': W, 'D': D, 'store': I.str_lit(cname)}, extname='Connection'))
        return conn

    # ---- boxing of column values -----------------------------------------------------------------------------------------
    def box(self, I, v, node=None):
        v = I.unwrap(v, node)
        if isinstance(v, VInt):
            return BoxInt(v.t)
        if isinstance(v, VBool):
            return BoxInt(z3.If(v.t, 1, 0))
        if isinstance(v, VSeq) and v.th is S:
            return BoxStr(v.t)
        if isinstance(v, VNone):
            return self.ctx.NONE_OBJ
        if I.is_list(v):
            return BoxStr(I.seq_of(v).t)
        raise Unsupported('sql model: cannot bind parameter %r' % (v,), node)

    def unbox(self, I, t, typ):
        """column value -> Python value (None for NULL)"""
        if typ in ('INTEGER', 'BOOLEAN'):
            return VOpt(t == self.ctx.NONE_OBJ, VInt(UnboxInt(t)))
        v = VSeq(UnboxStr(t), 'bytes')          # text_factory = bytes: TEXT and BLOB both come back as bytes
        return VOpt(t == self.ctx.NONE_OBJ, v)

    def key_term(self, sch, vals):
        ks = [vals[c] for c in sch.unique]
        if len(ks) == 1:
            return ks[0]
        return self.ctx.tup_fn(len(ks))(*ks)

    def row_term(self, sch, vals):
        return self.ctx.tup_fn(len(sch.cols))(*[vals.get(c, self.ctx.NONE_OBJ) for c in sch.cols])

    def col(self, sch, row, c):
        return self.ctx.proj_fn(len(sch.cols), sch.idx(c))(row)

    # ---- dispatch -----------------------------------------------------------------------------------------------------------
    def call(self, I, name, args, kwargs, node):
        if not name.startswith('sql:'):
            return NotImplemented
        meth = name[4:]
        recv = args[0]
        rest = args[1:]
        c = I.cell(recv)
        if meth == 'Connection.cursor':
            return I.alloc(HObj(None, {'conn': recv, 'result': NONE}, extname='Cursor'))
        if meth == 'Connection.commit':
            conn = c
            I.st.heap[recv.loc] = conn.set('D', conn.fields['W'])
            I.emit('db.commit', [recv])
            return NONE
        if meth == 'Connection.execute':
            cur = I.alloc(HObj(None, {'conn': recv, 'result': NONE}, extname='Cursor'))
            self.execute(I, cur, rest, node)
            return cur
        if meth == 'Cursor.execute':
            self.execute(I, recv, rest, node)
            return recv
        if meth == 'Cursor.fetchone':
            r = c.fields['result']
            if isinstance(r, tuple) and r[0] == 'one':
                _, exists, cols = r
                return VOpt(z3.Not(exists), VTuple(cols))
            if isinstance(r, tuple) and r[0] == 'agg':
                return VTuple([r[1]])
            raise Unsupported('sql model: fetchone() on %r' % (r,), node)
        if meth == 'Cursor.fetchall':
            r = c.fields['result']
            if isinstance(r, tuple) and r[0] == 'one':
                _, exists, cols = r
                # zero or one row: a list of that length
                if I.branch(exists):
                    return I.alloc(HList([VTuple(cols)], 'list'))
                return I.alloc(HList([], 'list'))
            if isinstance(r, tuple) and r[0] == 'many':
                _, seq, cname, sel = r
                v = VSeq(seq, 'list', T.SeqO, ekind='row|%s|%s' % (cname, ','.join(sel)))
                return I.alloc(HList(v, 'list'))
            raise Unsupported('sql model: fetchall() on %r' % (r,), node)
        raise Unsupported('sql model: %s' % meth, node)

    def execute(self, I, cur, rest, node):
        q = self.ctx.const_str(I, rest[0])
        params = []
        if len(rest) > 1:
            p = I.unwrap(rest[1], node)
            if not isinstance(p, VTuple):
                raise Unsupported('sql model: parameters must be a tuple literal', node)
            params = list(p.items)
        cc = I.cell(cur)
        connref = cc.fields['conn']
        conn = I.cell(connref)
        cname = self.ctx.const_str(I, conn.fields['store'])
        sch = self.schema_for(cname)
        W = conn.fields['W']
        qs = ' '.join(q.split())
        pit = iter(params)

        def val(tok):
            tok = tok.strip()
            if tok == '?':
                try:
                    return self.box(I, next(pit), node)
                except StopIteration:
                    I.require(False, 'sql-parameter-count', node, exc='sqlite3.ProgrammingError')
                    raise PyExc(VExc('sqlite3.ProgrammingError', origin='too few parameters'))
            if re.match(r'^-?\d+$', tok):
                return BoxInt(z3.IntVal(int(tok)))
            raise Unsupported('sql model: value %r' % tok, node)

        def where(clause):
            conds = {}
            for part in re.split(r'\s+and\s+', clause, flags=re.I):
                m = re.match(r'^(\w+)\s*=\s*(\?|-?\d+)$', part.strip())
                if not m:
                    raise Unsupported('sql model: WHERE %r' % clause, node)
                conds[m.group(1)] = val(m.group(2))
            return conds

        def finish(newW=None, result=None):
            if sum(1 for _ in pit):
                I.require(False, 'sql-parameter-count', node, exc='sqlite3.ProgrammingError')
            if newW is not None:
                I.st.heap[connref.loc] = I.cell(connref).set('W', VMap(newW, MapOO, 'obj', 'obj'))
            I.st.heap[cur.loc] = I.cell(cur).set('result', result if result is not None else NONE)
            I.emit('db.execute', [connref, I.str_lit(qs.split()[0].upper())])

        if re.match(r'^CREATE (TABLE|UNIQUE INDEX) IF NOT EXISTS', qs, re.I):
            return finish()
        m = re.match(r'^SELECT (.+?) FROM (\w+)(?: WHERE (.+))?$', qs, re.I)
        if m:
            sel, table, wh = m.group(1).strip(), m.group(2), m.group(3)
            self.check_table(sch, table, node)
            mm = re.match(r'^max\((\w+)\)$', sel, re.I)
            if mm and wh is None:
                t = MaxKey(W.t)
                return finish(result=('agg', self.unbox(I, t, 'INTEGER')))
            cols = [c.strip() for c in sel.split(',')]
            for c in cols:
                if c not in sch.cols:
                    I.require(False, 'sql-no-such-column', node, exc='sqlite3.OperationalError')
                    raise PyExc(VExc('sqlite3.OperationalError', origin='no such column %s' % c))
            if wh is None:
                return finish(result=('many', RowsOf(W.t), cname, cols))
            if re.match(r'^sent_to_server is NULL or sent_to_server = \?$', wh.strip(), re.I):
                zero = val('?')
                I.require(zero == BoxInt(z3.IntVal(0)), 'sql-unsent-flag-parameter', node)
                return finish(result=('many', RowsUnsent(W.t), cname, cols))
            conds = where(wh)
            if not all(k in conds for k in sch.unique):
                raise Unsupported('sql model: SELECT without the UNIQUE key in WHERE: %r' % qs, node)
            key = self.key_term(sch, conds)
            row = MapOO.Get(W.t, key)
            exists = MapOO.Has(W.t, key)
            for c, v in conds.items():
                if c not in sch.unique:
                    exists = z3.And(exists, self.col(sch, row, c) == v)
            vals = [self.unbox(I, self.col(sch, row, c), sch.types[sch.idx(c)]) for c in cols]
            return finish(result=('one', exists, vals))
        m = re.match(r'^INSERT (OR REPLACE )?INTO (\w+)\s*\(([^)]*)\)\s*VALUES\s*\(([^)]*)\)$', qs, re.I)
        if m:
            replace, table = bool(m.group(1)), m.group(2)
            self.check_table(sch, table, node)
            cols = [c.strip() for c in m.group(3).split(',')]
            toks = [t.strip() for t in m.group(4).split(',')]
            if len(cols) != len(toks):
                I.require(False, 'sql-values-count', node, exc='sqlite3.OperationalError')
                raise PyExc(VExc('sqlite3.OperationalError', origin='values count'))
            vals = {}
            for c, t in zip(cols, toks):
                if c not in sch.cols:
                    I.require(False, 'sql-no-such-column', node, exc='sqlite3.OperationalError')
                    raise PyExc(VExc('sqlite3.OperationalError', origin='no such column %s' % c))
                vals[c] = val(t)
            if not all(k in vals for k in sch.unique):
                raise Unsupported('sql model: INSERT without the UNIQUE key', node)
            key = self.key_term(sch, vals)
            row = self.row_term(sch, vals)
            if not replace:
                clash = MapOO.Has(W.t, key)
                if I.exc_allowed_or_caught('sqlite3.IntegrityError'):
                    if I.branch(clash):
                        finish()
                        raise PyExc(VExc('sqlite3.IntegrityError', origin='UNIQUE constraint failed: %s' % table))
                else:
                    I.require(z3.Not(clash), 'sql-unique-constraint', node, exc='sqlite3.IntegrityError')
            return finish(newW=MapOO.Put(W.t, key, row))
        m = re.match(r'^UPDATE (\w+) SET (\w+)\s*=\s*(\?|-?\d+) WHERE (.+)$', qs, re.I)
        if m:
            table, c, vt, wh = m.groups()
            self.check_table(sch, table, node)
            v = val(vt)
            conds = where(wh)
            if not all(k in conds for k in sch.unique):
                raise Unsupported('sql model: UPDATE without the UNIQUE key in WHERE', node)
            key = self.key_term(sch, conds)
            old = MapOO.Get(W.t, key)
            new = self.ctx.tup_fn(len(sch.cols))(*[v if cc2 == c else self.col(sch, old, cc2) for cc2 in sch.cols])
            hit = MapOO.Has(W.t, key)
            for c2, v2 in conds.items():
                if c2 not in sch.unique:
                    hit = z3.And(hit, self.col(sch, old, c2) == v2)
            return finish(newW=z3.If(hit, MapOO.Put(W.t, key, new), W.t))
        m = re.match(r'^DELETE FROM (\w+) WHERE (.+)$', qs, re.I)
        if m:
            table, wh = m.groups()
            self.check_table(sch, table, node)
            conds = where(wh)
            if not all(k in conds for k in sch.unique):
                raise Unsupported('sql model: DELETE without the UNIQUE key in WHERE', node)
            key = self.key_term(sch, conds)
            old = MapOO.Get(W.t, key)
            hit = MapOO.Has(W.t, key)
            for c2, v2 in conds.items():
                if c2 not in sch.unique:
                    hit = z3.And(hit, self.col(sch, old, c2) == v2)
            return finish(newW=z3.If(hit, MapOO.Del(W.t, key), W.t))
        raise Unsupported('sql model: statement not recognised: %r' % qs, node)

    def check_table(self, sch, table, node):
        if table != sch.table:
            raise Unsupported('sql model: statement on table %s, the store owns %s' % (table, sch.table), node)

    # ---- spec forms: the abstract table view -----------------------------------------------------------------------------------
    def spec_form(self, I, fn, node, frame):
        ctx = self.ctx
        if fn in ('db_w', 'db_d'):
            conn = I.unwrap(I.ev(node.args[0], frame))
            return I.cell(conn).fields['W' if fn == 'db_w' else 'D']
        if fn == 'row':
            # row("LiteSessionStore", recipient_id=..., device_id=..., record=...)
            sch = self.schema_for(ctx.const_str(I, I.ev(node.args[0], frame)))
            vals = {k.arg: self.box(I, I.ev(k.value, frame), node) for k in node.keywords}
            for k in vals:
                if k not in sch.cols:
                    raise Unsupported('row(): no column %s' % k, node)
            return VOpaque(self.row_term(sch, vals), 'row')
        if fn == 'key':
            sch = self.schema_for(ctx.const_str(I, I.ev(node.args[0], frame)))
            vals = {k.arg: self.box(I, I.ev(k.value, frame), node) for k in node.keywords}
            return VOpaque(self.key_term(sch, vals), 'key')
        if fn == 'col':
            sch = self.schema_for(ctx.const_str(I, I.ev(node.args[0], frame)))
            r = I.ev(node.args[1], frame)
            c = ctx.const_str(I, I.ev(node.args[2], frame))
            return self.unbox(I, self.col(sch, ctx.obj_term(I, r, node), c), sch.types[sch.idx(c)])
        if fn == 'col_is':
            sch = self.schema_for(ctx.const_str(I, I.ev(node.args[0], frame)))
            r = I.ev(node.args[1], frame)
            c = ctx.const_str(I, I.ev(node.args[2], frame))
            v = self.box(I, I.ev(node.args[3], frame), node)
            return VBool(self.col(sch, ctx.obj_term(I, r, node), c) == v)
        if fn == 'col_is_null':
            sch = self.schema_for(ctx.const_str(I, I.ev(node.args[0], frame)))
            r = I.ev(node.args[1], frame)
            c = ctx.const_str(I, I.ev(node.args[2], frame))
            return VBool(self.col(sch, ctx.obj_term(I, r, node), c) == ctx.NONE_OBJ)
        if fn == 'with_col':
            sch = self.schema_for(ctx.const_str(I, I.ev(node.args[0], frame)))
            r = ctx.obj_term(I, I.ev(node.args[1], frame), node)
            c = ctx.const_str(I, I.ev(node.args[2], frame))
            v = self.box(I, I.ev(node.args[3], frame), node)
            return VOpaque(ctx.tup_fn(len(sch.cols))(*[v if c2 == c else self.col(sch, r, c2) for c2 in sch.cols]), 'row')
        if fn in ('rows_all', 'rows_unsent'):
            m = I.ev(node.args[0], frame)
            f = RowsOf if fn == 'rows_all' else RowsUnsent
            return VSeq(f(m.t), 'list', T.SeqO, ekind='row')
        if fn == 'max_key':
            m = I.ev(node.args[0], frame)
            return self.unbox(I, MaxKey(m.t), 'INTEGER')
        if fn == 'at_every_db_event':
            # the durable state after EVERY statement / commit of this call satisfies the predicate (crash points)
            lam = node.args[1]
            conn = I.unwrap(I.ev(node.args[0], frame))
            out = []
            from .interp import Frame
            for e in I.st.trace:
                if isinstance(e, Event) and e.name in ('db.execute', 'db.commit') and e.args and isinstance(e.args[0], VRef) and e.args[0].loc == conn.loc:
                    d = e.heap[conn.loc].fields['D']
                    fr = Frame({lam.args.args[0].arg: d}, frame.module, parent=frame, sidecar=frame.sidecar)
                    fr.spec = frame.spec
                    out.append(I.truthy(I.ev(lam.body, fr)))
            return VBool(z3.And(*out) if out else z3.BoolVal(True))
        return NotImplemented
