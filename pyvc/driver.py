"""Driver: contexts, contract application, function / lemma verification."""
import ast
import os
import time
import traceback
import z3

from . import theory as T
from . import prover
from .values import *
from .repo import Repo, ClassInfo, FuncInfo, ModuleInfo
from .contracts import Registry, Ty, parse_type, HERE
from .interp import (Interp, Frame, SpecCtx, State, RestartFunction, Unsupported, PathEnd, ReturnSig, BreakSig, ContinueSig, PyExc,
                     Obligation, BUILTIN_EXC, Event, GhostSeg, VRat, VRange)
from .builtins_model import Builtins, stdlib_axioms, contains_fn, Substr
from .loops import Loops

S = T.SeqI
Fuel = z3.DeclareSort('Fuel')
FZ = z3.Const('fuel.Z', Fuel)
FS = z3.Function('fuel.S', Fuel, Fuel)

BUILTIN_NAMES = ['len', 'range', 'int', 'bool', 'ord', 'chr', 'type', 'isinstance', 'hasattr', 'getattr', 'str', 'repr',
                 'bytes', 'bytearray', 'list', 'tuple', 'dict', 'map', 'min', 'max', 'abs', 'print', 'id', 'callable',
                 'issubclass']
TYPE_NAMES = ['int', 'str', 'bytes', 'bytearray', 'list', 'tuple', 'dict', 'bool', 'float', 'object']

SORT_OF = {
    'Int': T.I, 'Bool': T.B, 'Bytes': S.sort, 'ByteArray': S.sort, 'ListInt': S.sort, 'ListByte': S.sort,
    'Str': S.sort, 'Latin1': S.sort, 'SeqInt': S.sort, 'IntSeq': S.sort, 'SeqBytes': T.SeqS.sort, 'SeqStr': T.SeqS.sort,
    'Opaque': T.Obj, 'Value': T.Obj, 'ListBytes': T.SeqS.sort, 'ListStr': T.SeqS.sort, 'ListObj': T.SeqO.sort, 'SeqObj': T.SeqO.sort,
}
KIND_OF = {'Bytes': 'bytes', 'ByteArray': 'bytearray', 'ListInt': 'list', 'ListByte': 'list', 'Str': 'str',
           'Latin1': 'str', 'SeqInt': 'list', 'IntSeq': 'list', 'SeqBytes': 'list', 'SeqStr': 'list', 'ListBytes': 'list',
           'ListObj': 'list', 'SeqObj': 'list', 'TupleObj': 'tuple', 'ListStr': 'list'}


class FunctionReport:
    def __init__(self, key):
        self.key = key
        self.paths = 0
        self.unsupported = []
        self.secs = 0.0
        self.source_hash = None
        self.missing = False


class Context:
    def __init__(self, repo_root='/repo', timeout_ms=10000, seed=0):
        self.repo = Repo(repo_root)
        self.registry = Registry()
        self.builtins = Builtins(self)
        self.loops = Loops(self)
        self.timeout_ms = timeout_ms
        self.seed = seed
        self.obligations = []
        self.notes = []
        self.reports = {}
        self.spec_funcs = {}        # name -> (z3 function, SpecFn, recursive)
        self.spec_axioms = []
        self.lemma_axioms = []
        self.fact_axioms = []
        self._ufs = {}
        self._base = None
        self.current = None         # contract under verification
        self.current_fi = None
        self.max_paths = 400
        self.qcount = 0
        self.assumptions = set()
        self.inlined = set()
        self.opaque_seen = set()
        self.assumed_contracts_used = set()
        self.class_vars = {}
        self.plugins = []

    # ---- loading -----------------------------------------------------------------------------------
    def load_sidecar(self, relpath):
        sc = self.registry.load(os.path.join(HERE, relpath))
        return sc

    def finalize(self):
        """Translate spec functions to z3 (after all sidecars are loaded)."""
        for name, sp in self.registry.specs.items():
            if name not in self.spec_funcs:
                self.declare_spec(sp)
        for name, sp in self.registry.specs.items():
            self.define_spec(sp)

    # ---- axioms -------------------------------------------------------------------------------------
    def axioms(self, light=False):
        if self._base is None:
            self._base = T.base_axioms() + stdlib_axioms()
        if getattr(self, '_boxed', None) is None:
            self._boxed = True
            self._base = self._base + self.box_axioms()
            for pl in self.plugins:
                if hasattr(pl, 'axioms'):
                    self._base = self._base + pl.axioms()
        if light:
            return self._base + self.fact_axioms
        return self._base + self.fact_axioms + self.spec_axioms + self.lemma_axioms

    def uf(self, name, *sorts):
        if name not in self._ufs:
            self._ufs[name] = z3.Function(name, *sorts)
        return self._ufs[name]

    def seq_reverse(self, th, t):
        f = self.uf('rev_' + th.name, th.sort, th.sort)
        if not getattr(self, '_rev_ax_' + th.name, False):
            setattr(self, '_rev_ax_' + th.name, True)
            x = z3.Const('rv_s_' + th.name, th.sort)
            i = z3.Int('rv_i_' + th.name)
            self.fact_axioms.append(z3.ForAll([x], th.Len(f(x)) == th.Len(x), patterns=[f(x)]))
            self.fact_axioms.append(z3.ForAll([x, i], z3.Implies(z3.And(0 <= i, i < th.Len(x)), th.Idx(f(x), i) == th.Idx(x, th.Len(x) - 1 - i)),
                                              patterns=[th.Idx(f(x), i)]))
        return f(t)

    def bxor(self, a, b):
        f = self.uf('bxor', T.I, T.I, T.I)
        if not getattr(self, '_bxor_ax', False):
            self._bxor_ax = True
            x, y = z3.Ints('bx by')
            self.fact_axioms.append(z3.ForAll([x, y], z3.Implies(z3.And(0 <= x, x < 256, 0 <= y, y < 256),
                                                                 z3.And(0 <= f(x, y), f(x, y) < 256)), patterns=[f(x, y)]))
        return f(a, b)

    def bor(self, a, b):
        return self.uf('bor', T.I, T.I, T.I)(a, b)

    def class_const(self, info):
        """A repository class as a term of sort Obj (for `x.__class__ == C` / `isinstance(x, C)` on objects known only as terms).
        Distinct classes are distinct; an object whose class is C is an instance of every class in C's MRO."""
        cs = self.__dict__.setdefault('_class_consts', {})
        key = (info.module.relpath, info.name)
        if key not in cs:
            c = z3.Const('cls.%s' % info.name + ('' if not any(k[1] == info.name for k in cs) else '@' + info.module.relpath), T.Obj)
            for other in cs.values():
                self.fact_axioms.append(c != other)
            cs[key] = c
            o = z3.Const('co', T.Obj)
            fc = self.uf('field.__class__', T.Obj, T.Obj)
            for base in info.mro(self.repo):
                self.fact_axioms.append(z3.ForAll([o], z3.Implies(fc(o) == c, self.isinst_fn(base)(o)), patterns=[fc(o)]))
        return cs[key]

    def find_class_by_name(self, name):
        for m in list(self.repo.modules.values()):
            if name in m.classes:
                return m.classes[name]
        idx = self.__dict__.get('_class_index')
        if idx is None:
            import re
            idx = {}
            for root, _, files in os.walk(os.path.join(self.repo.root, 'yowsup')):
                for f in files:
                    if f.endswith('.py'):
                        p = os.path.join(root, f)
                        try:
                            for mm in re.finditer(r'^class\s+(\w+)', open(p, encoding='utf-8').read(), re.M):
                                idx.setdefault(mm.group(1), os.path.relpath(p, self.repo.root))
                        except Exception:
                            pass
            self._class_index = idx
        rel = idx.get(name)
        if rel is None:
            return None
        return self.repo.module(rel).classes.get(name)

    def isinst_fn(self, info):
        return self.uf('isinst.%s' % info.name, T.Obj, T.B)

    def obj_truthy(self, t):
        return self.uf('obj_truthy', T.Obj, T.B)(t)

    def obj_int(self, t):
        return self.uf('obj_int', T.Obj, T.I)(t)

    def seq_contains(self, th, s, e):
        C, F = contains_fn(th)
        return C(s, e)

    def substr(self, s, sub):
        return Substr(s, sub)

    def join_fn(self, sep, ss):
        return self.uf('str_join', S.sort, T.SeqS.sort, S.sort)(sep, ss)

    def all_in_range(self, s, lo, hi):
        self.qcount += 1
        i = z3.Int('q!%d' % self.qcount)
        return z3.ForAll([i], z3.Implies(z3.And(0 <= i, i < S.Len(s)), z3.And(lo <= S.Idx(s, i), S.Idx(s, i) < hi)),
                         patterns=[S.Idx(s, i)])

    def map_nonempty(self, m):
        return self.uf('map_nonempty_%s' % m.th.name, m.th.sort, T.B)(m.t)

    def note(self, msg):
        if msg not in self.notes:
            self.notes.append(msg)

    def record(self, ob):
        self.obligations.append(ob)

    # ---- literals --------------------------------------------------------------------------------------
    def seq_literal(self, t):
        """If t is a unit/append literal of integer constants return the python list, else None."""
        from .interp import _LIT_BACK
        hit = _LIT_BACK.get(t.get_id())
        if hit is not None and z3.eq(hit[0], t):
            return list(hit[1])
        out = []

        def walk(x):
            if z3.eq(x, S.Empty):
                return True
            if z3.is_app(x) and x.decl().eq(S.Unit):
                a = z3.simplify(x.arg(0))
                if z3.is_int_value(a):
                    out.append(a.as_long())
                    return True
                return False
            if z3.is_app(x) and x.decl().eq(S.App):
                return walk(x.arg(0)) and walk(x.arg(1))
            return False
        return out if walk(t) else None

    def const_str(self, I, v):
        v = I.unwrap(v)
        if isinstance(v, VSeq):
            lit = self.seq_literal(v.t)
            if lit is not None:
                return ''.join(map(chr, lit))
        raise Unsupported('a literal string is required here, got %r' % (v,))

    def is_empty_lit(self, v):
        return isinstance(v, VSeq) and z3.eq(v.t, S.Empty)

    # ---- names -------------------------------------------------------------------------------------------
    def builtin_name(self, name):
        if name in TYPE_NAMES and name not in ('int', 'str', 'bytes', 'bytearray', 'list', 'tuple', 'dict', 'bool'):
            return VType(name)
        if name in ('int', 'str', 'bytes', 'bytearray', 'list', 'tuple', 'dict', 'bool'):
            return VType(name)
        if name in BUILTIN_NAMES:
            return VBuiltin(name)
        if name in BUILTIN_EXC:
            return VBuiltin('exc-class:' + name)
        if name in ('True', 'False'):
            return VBool(name == 'True')
        if name == 'NotImplemented':
            return VOpaque(z3.Const('NotImplemented', T.Obj))
        if name == '__name__':
            return VSeq(S.Empty, 'str')
        if name in self.registry.externs or ('<ext>', name) in self.registry.contracts:
            return self.extern_value(name)      # a builtin the sidecar declares (e.g. open)
        return None

    def extern_value(self, dotted):
        if dotted in ('struct', 'binascii', 'zlib', 'sys', 'math', 'logging', 'time', 'threading', 'copy', 'os', 'hashlib',
                      'hmac', 'base64', 'random', 'inspect', 'socket', 'sqlite3', 'json', 'traceback', 'unittest'):
            return VModule(dotted)
        if dotted in self.builtins.table:
            return VBuiltin(dotted)
        if dotted in BUILTIN_EXC:
            return VBuiltin('exc-class:' + dotted)
        if ('<ext>', dotted) in self.registry.contracts:
            return VBuiltin('extcontract:' + dotted)
        last = dotted.split('.')[-1]
        if last.endswith('Exception') or last.endswith('Error'):
            return VBuiltin('exc-class:' + last)        # an external exception class: only its name matters
        if dotted in self.registry.externs:
            return VBuiltin(dotted)
        if dotted == 'zlib.MAX_WBITS':
            return VInt(z3.IntVal(15))
        if dotted == 'sys.version_info':
            return VTuple([VInt(3), VInt(12), VInt(1)])
        for pl in self.plugins:
            r = pl.extern_value(self, dotted)
            if r is not None:
                return r
        # unknown external name: an opaque module/callable; every use becomes an event
        return VBuiltin(dotted)

    def extern_call(self, I, name, args, kwargs, node):
        d = self.registry.externs.get(name)
        if d is None:
            # implicit opaque: listed in the evidence
            self.opaque_seen.add(('extern', name))
            base = name.rsplit('.', 1)[0]
            if name.startswith('logging.') or base.endswith('logger'):
                return VOpaque(I.fresh('logger', T.Obj), 'logger')
            d = {'raises': True, 'returns': Ty('Opaque')}
        else:
            self.opaque_seen.add(('extern', name))
        return I.opaque_call(d.get('event', name), args, kwargs, node, d)

    def getter_value(self, I, name, recv_t, rt):
        if rt.name == 'Opt':
            fn = self.uf('getter.' + name + '.isnone', T.Obj, T.B)
            fv = self.uf('getter.' + name, T.Obj, self.sort_of(rt.args[0]))
            return VOpt(fn(recv_t), self.from_term(I, fv(recv_t), rt.args[0]))
        f = self.uf('getter.' + name, T.Obj, self.sort_of(rt))
        return self.from_term(I, f(recv_t), rt)

    def opaque_method(self, I, recv, mname, args, kwargs, node):
        label = recv.label if isinstance(recv, VOpaque) else ''
        if label == 'logger':
            return NONE
        key = '%s.%s' % (label, mname) if label else mname
        d = self.registry.externs.get(key) or self.registry.externs.get('*.' + mname)
        if d is None:
            d = {'raises': True, 'returns': Ty('Opaque')}
        self.opaque_seen.add(('method', key))
        if d.get('pure') and isinstance(recv, VOpaque) and not args and d.get('returns') is not None:
            # a getter: its result is a function of the receiver (same object, same answer)
            rt = d['returns']
            res = self.getter_value(I, key, recv.t, rt)
            I.emit(d.get('event', key), [recv], kwargs, res)
            return res
        return I.opaque_call(d.get('event', key), [recv] + list(args), kwargs, node, d)

    def is_dropped_stmt(self, I, node, frame):
        """logger.xxx(...) and print(...) statements are dropped (DESIGN.md 3.2)."""
        v = node.value
        if isinstance(v, ast.Call):
            f = v.func
            if isinstance(f, ast.Name) and f.id == 'print':
                return True
            if isinstance(f, ast.Attribute) and isinstance(f.value, ast.Name) and f.value.id == 'logger' \
                    and f.attr in ('debug', 'info', 'warning', 'warn', 'error', 'critical', 'exception'):
                return True
            if isinstance(f, ast.Attribute) and isinstance(f.value, ast.Name) and f.value.id == 'logging' \
                    and f.attr in ('debug', 'info', 'warning', 'warn', 'error', 'critical', 'exception'):
                return True
        return False

    def static_test(self, I, test, frame):
        """`sys.version_info < (3, 0)` style guards are evaluated, not ignored."""
        try:
            src = ast.unparse(test)
        except Exception:
            return None
        if 'sys.version_info' in src and isinstance(test, ast.Compare) and len(test.ops) == 1:
            try:
                rhs = ast.literal_eval(test.comparators[0])
                lhs = (3, 12, 1)
                op = test.ops[0]
                if ast.unparse(test.left) != 'sys.version_info':
                    return None
                return {ast.Lt: lhs < rhs, ast.LtE: lhs <= rhs, ast.Gt: lhs > rhs, ast.GtE: lhs >= rhs}[type(op)]
            except Exception:
                return None
        return None

    def ev_static_ifexp(self, I, node, frame):
        return None

    # ---- exceptions --------------------------------------------------------------------------------------
    def exception_class_of(self, info):
        for b in info.ext_bases(self.repo):
            nm = b.split('.')[-1]
            if nm in BUILTIN_EXC or b in BUILTIN_EXC:
                return nm
        return None

    def exc_parents(self, cls):
        out = [cls]
        cur = cls
        while cur in BUILTIN_EXC and BUILTIN_EXC[cur]:
            cur = BUILTIN_EXC[cur]
            out.append(cur)
        return out

    def exc_class_code(self, simple_name):
        """a fixed integer per exception class NAME (classes are told apart by their simple name)"""
        d = self.__dict__.setdefault('_exc_codes', {})
        if simple_name not in d:
            d[simple_name] = 1000 + len(d)
        return z3.IntVal(d[simple_name])

    def exc_isinstance(self, cls, target):
        """cls: name of raised class (builtin name or repo class name); target: str name or ClassInfo."""
        if isinstance(target, str) and cls.split('.')[-1] == target.split('.')[-1]:
            return True
        if isinstance(target, ClassInfo) and cls.split('.')[-1] == target.name:
            return True
        if isinstance(target, ClassInfo):
            # repo-defined exception class
            ci = self.find_exc_class(cls)
            return ci is not None and ci.is_subclass(self.repo, target)
        ci = self.find_exc_class(cls)
        if ci is not None:
            for c in ci.mro(self.repo):
                for b in c.bases(self.repo):
                    if not isinstance(b, ClassInfo):
                        nm = b[1].split('.')[-1]
                        if target in self.exc_parents(nm) or target in self.exc_parents(b[1]):
                            return True
            return False
        return target in self.exc_parents(cls)

    def find_exc_class(self, name):
        for m in self.repo.modules.values():
            if name in m.classes:
                return m.classes[name]
        return None

    def exception_allowed(self, I, exc):
        if getattr(I, 'handlers', None):
            for hs in I.handlers:
                for h in hs:
                    if h is None or self.exc_isinstance(exc, h):
                        return True
        c = I.active_contract
        if c is None:
            return False
        for r in c.of('raises'):
            nm = ast.unparse(r.args[0])
            if self.exc_isinstance(exc, nm.split('.')[-1]) or self.exc_isinstance(exc, nm):
                return True
        return False

    # ---- class variables (process-wide counters etc.) ------------------------------------------------------
    def class_var_get(self, I, info, name):
        return I.st.heap.get(('classvar', info.name, name))

    def mutable_class_attrs(self):
        """names of class-level attributes that some function of the repository assigns (Class.x = ..., cls.x = ..., self.__class__.x = ...):
        global mutable state - their value at function entry is arbitrary, not the initial value written in the class body"""
        if getattr(self, '_mut_class_attrs', None) is None:
            names = set()
            for root, _, files in os.walk(os.path.join(self.repo.root, 'yowsup')):
                for f in files:
                    if not f.endswith('.py') or f.startswith('test_'):
                        continue
                    try:
                        tree = ast.parse(open(os.path.join(root, f), encoding='utf-8').read())
                    except Exception:
                        continue
                    for cls in [n for n in ast.walk(tree) if isinstance(n, ast.ClassDef)]:
                        for n in ast.walk(cls):
                            tg = n.targets if isinstance(n, ast.Assign) else [n.target] if isinstance(n, (ast.AugAssign, ast.AnnAssign)) else []
                            for x in tg:
                                if not isinstance(x, ast.Attribute):
                                    continue
                                b = x.value
                                if (isinstance(b, ast.Name) and b.id != 'self' and (b.id[:1].isupper() or b.id == 'cls')) or \
                                        (isinstance(b, ast.Attribute) and b.attr == '__class__') or \
                                        (isinstance(b, ast.Call) and isinstance(b.func, ast.Name) and b.func.id == 'type'):
                                    a = x.attr
                                    names.add(a)
                                    if a.startswith('__') and not a.endswith('__'):
                                        names.add('_%s%s' % (cls.name.lstrip('_'), a))
            self._mut_class_attrs = names
        return self._mut_class_attrs

    def class_attr_entry_value(self, I, info, name, v0):
        """arbitrary value of a mutable class attribute at first read on a path (then stable until written)"""
        # the value is a constant NAMED after the class, the attribute and the epoch of the state (0 = the call under verification; a
        # continuation that fires later reads another epoch): the same unknown whether it is first read by the code or by old(...)
        nm = 'classattr@%d!%s.%s' % (I.st.__dict__.get('class_epoch', 0), info.name, name)
        if isinstance(v0, VNone):
            v = VOpt(z3.Bool(nm + '.none'), VOpaque(z3.Const(nm, T.Obj), 'classattr'))
        elif isinstance(v0, VInt):
            v = VInt(z3.Int(nm))
        elif isinstance(v0, VBool):
            v = VBool(z3.Bool(nm))
        elif isinstance(v0, VSeq):
            v = v0.with_term(z3.Const(nm, v0.th.sort))
        else:
            return v0
        I.st.heap[('classvar', info.name, name)] = v
        return v

    def class_var_set(self, I, info, name, val):
        I.st.heap[('classvar', info.name, name)] = val

    # ---- hooks with default behaviour ---------------------------------------------------------------------
    def merge_hook(self, I, c, a, b):
        return None

    def getattr_hook(self, I, obj, name, node):
        for pl in self.plugins:
            r = pl.getattr(I, obj, name, node)
            if r is not None:
                return r
        return None

    def index_hook(self, I, obj, idx, node):
        if isinstance(obj, VOpaque) and obj.label.startswith('row|') and getattr(self, 'sql', None) is not None:
            _, store, sel = obj.label.split('|')
            sch = self.sql.schema_for(store)
            cols = sel.split(',')
            k = VInt(I.as_int(idx, node)).const()
            if k is None or not (0 <= k < len(cols)):
                I.require(False, 'index', node, exc='IndexError')
                raise PyExc(VExc('IndexError', origin='row index'))
            c = cols[k]
            return self.sql.unbox(I, self.sql.col(sch, obj.t, c), sch.types[sch.idx(c)])
        return None

    def len_hook(self, I, v, node):
        return None

    def list_hook(self, I, v, node):
        return None

    def iter_hook(self, I, it, node):
        for pl in self.plugins:
            r = pl.iter_hook(I, it, node)
            if r is not None:
                return r
        return None

    def concrete_iter(self, I, it):
        if I.is_dict(it) and isinstance(I.cell(it).content, list):
            return [k for k, _ in I.cell(it).content]
        if isinstance(it, VDictItems):
            return it.items
        return None

    def comprehension_hook(self, I, node, it, frame):
        return None

    def lazy_field(self, I, obj, cell, name):
        return None

    def ext_getattr(self, I, obj, cell, name, node):
        for pl in self.plugins:
            if hasattr(pl, 'ext_getattr'):
                r = pl.ext_getattr(I, obj, cell, name, node)
                if r is not None:
                    return r
        q = '%s.%s' % (cell.extname, name)
        if cell.extname in ('Connection', 'Cursor') and getattr(self, 'sql', None) is not None:
            return VBuiltin('sql:' + q, obj)
        if ('<ext>', q) in self.registry.contracts:
            return VBuiltin('extcontract:' + q, obj)
        return VBuiltin('extattr:' + name, obj)

    def apply_ext_contract(self, I, q, self_val, args, kwargs, node):
        """Assumed contract of a method of an external class (threading.Lock, ...)."""
        contract = self.registry.contracts[('<ext>', q)]
        self.assumed_contracts_used.add(contract.key)
        names = [p for p, _ in contract.params]
        vals = ([self_val] if names and names[0] == 'self' else []) + list(args)
        if not (names and names[0] == 'self') and self_val is not None:
            vals = [self_val] + list(args)
        if len(vals) > len(names):
            I.require(False, 'call-arity', node, exc='TypeError')
            raise PyExc(VExc('TypeError', origin='arity of ' + q))
        env = dict(zip(names, vals))
        for k, v in kwargs.items():
            env[k] = v
        dflt = contract.node.args.defaults
        for i, n in enumerate(names):
            if n not in env:
                di = i - (len(names) - len(dflt))
                env[n] = I.ev(dflt[di], Frame({}, None, sidecar=contract.sidecar)) if di >= 0 else NONE
        pre = I.st.snapshot()
        entry_env = dict(env)
        try:
            tag = ast.unparse(node)[:50]
        except Exception:
            tag = ''
        for k, c in enumerate(contract.of('requires')):
            v = self.eval_spec(I, c.args[0], env, contract.sidecar, pre, entry_env)
            I.prove('%s:pre:%s.%d[%s#%d]' % (I.cur_func, q, k + 1, tag, self.static_ordinal(I, node)), 'precondition', I.truthy(v), node)
        for k, c in enumerate(contract.of('raises')):
            kw = {x.arg: x.value for x in c.keywords}
            ename = ast.unparse(c.args[0])
            cond = I.truthy(self.eval_spec(I, kw['when'], env, contract.sidecar, pre, entry_env)) if 'when' in kw else I.fresh_bool('raises_ext')
            if I.branch(cond):
                ex = VExc(ename, origin='contract of ' + q)
                ex.t = I.fresh('exc', T.Obj)
                if 'ensures' in kw:
                    v = self.eval_spec(I, kw['ensures'], env, contract.sidecar, pre, entry_env, exc=ex)
                    I.assume(I.truthy(v))
                I.emit(q, [self_val] + list(args), kwargs, NONE)
                raise PyExc(ex)
        self.apply_modifies(I, contract, env)
        res = NONE
        if contract.ret is not None and contract.ret.name != 'NoneT':
            if contract.kw.get('pure'):
                res = self.pure_result(I, q, contract, [env[n] for n in names], node)
            else:
                res = self.make_symbolic(I, contract.ret, 'r_' + q.replace('.', '_'))
        for c in contract.of('ensures'):
            v = self.eval_spec(I, c.args[0], env, contract.sidecar, pre, entry_env, result=res, has_result=True)
            I.assume(I.truthy(v))
        if not contract.kw.get('pure'):
            I.emit(q, [self_val] + list(args), kwargs, res)
        return res

    def pure_result(self, I, q, contract, vals, node):
        """An external function assumed to be a pure function of its arguments: its result is f(args)."""
        def bx(v):
            if isinstance(v, VOpt):
                return z3.If(v.is_none, self.NONE_OBJ, bx(v.val))
            if isinstance(v, VNone):
                return self.NONE_OBJ
            if isinstance(v, VSeq) and v.th is S:
                return self.sql_box_str(v.t)
            if isinstance(v, VInt):
                return self.uf('box_int', T.I, T.Obj)(v.t)
            return self.obj_term(I, v, node)
        ts = [bx(v) for v in vals]
        rt = contract.ret
        inner_t = rt.args[0] if rt.name == 'Opt' else rt
        if isinstance(inner_t, Ty) and inner_t.name == 'Obj':
            # a pure function returning an object: the same arguments give the same object (memoised per path)
            fv = self.uf('pure.' + q, *([T.Obj] * len(ts) + [T.Obj]))
            key_ = str(fv(*ts))
            memo = I.st.heap.setdefault(('pure-objs',), {})
            if key_ not in memo:
                memo = dict(memo)
                memo[key_] = self.make_object(I, inner_t.args[0], 'po_' + q.replace('.', '_'))
                I.st.heap[('pure-objs',)] = memo
            obj = memo[key_]
            if rt.name == 'Opt':
                fn = self.uf('pure.' + q + '.isnone', *([T.Obj] * len(ts) + [T.B]))
                return VOpt(fn(*ts), obj)
            return obj
        if rt.name == 'Opt':
            fn = self.uf('pure.' + q + '.isnone', *([T.Obj] * len(ts) + [T.B]))
            fv = self.uf('pure.' + q, *([T.Obj] * len(ts) + [self.sort_of(rt.args[0])]))
            inner = self.from_term(I, fv(*ts), rt.args[0])
            if isinstance(inner, VOpaque):
                I.assume(inner.t != self.NONE_OBJ) if not I.pure else None
            return VOpt(fn(*ts), inner)
        f = self.uf('pure.' + q, *([T.Obj] * len(ts) + [self.sort_of(rt)]))
        return self.from_term(I, f(*ts), rt)

    def sql_box_str(self, t):
        return self.uf('box_str', S.sort, T.Obj)(t)

    def instantiate_hook(self, I, info, args, kwargs, node):
        return None

    def exec_with(self, I, node, frame):
        """`with m [as x]: body` = x = m.__enter__(); try body; finally-like m.__exit__(...) (PEP 343).  For an object of an
        unverified library (a file, a lock) `__enter__` returns the object itself and `__exit__` is the opaque event
        `<label>.__exit__`, which never swallows an exception (true of files and locks; recorded as an assumption)."""
        if len(node.items) > 1:
            inner = ast.With(items=node.items[1:], body=node.body)
            ast.copy_location(inner, node)
            node = ast.With(items=node.items[:1], body=[inner])
            ast.copy_location(node, inner)
        item = node.items[0]
        mgr = I.unwrap(I.ev(item.context_expr, frame), node)
        is_obj = I.is_obj(mgr) and I.cell(mgr).cls is not None

        def call_m(name, args):
            if is_obj:
                return I.call(I.getattr(mgr, name, node, frame, for_call=True), args, {}, node, frame)
            if isinstance(mgr, VOpaque):
                if name == '__enter__':
                    return mgr
                return self.opaque_method(I, mgr, name, [], {}, node)
            raise Unsupported('with on %r' % (mgr,), node)
        entered = call_m('__enter__', [])
        if item.optional_vars is not None:
            I.assign(item.optional_vars, entered, frame)
        try:
            I.ex_block(node.body, frame)
        except PyExc as pe:
            r = call_m('__exit__', [VOpaque(I.fresh('exc_type', T.Obj), 'exc_type'), pe.exc, NONE])
            if is_obj:
                t = I.truthy(r, node)
                if I.branch(t):
                    return
            raise
        except (ReturnSig, BreakSig, ContinueSig):
            call_m('__exit__', [NONE, NONE, NONE])
            raise
        call_m('__exit__', [NONE, NONE, NONE])

    def hex_to_int(self, I, v, node):
        raise Unsupported('int(x, 16)', node)

    def deepcopy(self, I, v, node, shallow=False):
        raise Unsupported('deepcopy', node)

    def event_seq_theory(self, name):
        k = self.registry.event_sorts.get(name)
        if k == 'obj' or (k is None and name.startswith('call:')):
            return T.SeqO
        return T.SeqS

    EVENT_FORMS = ('events', 'n_events', 'event_arg', 'event_result', 'at_event', 'event_raised', 'event_raised_class', 'event_callee', 'event_kwarg', 'event_self')

    def contract_event_names(self, contract):
        """Event names a contract speaks about (syntactic), incl. those of helper functions it calls."""
        names = set()
        seen = set()

        def scan(node):
            for n in ast.walk(node):
                if isinstance(n, ast.Call) and isinstance(n.func, ast.Name):
                    if n.func.id in self.EVENT_FORMS and n.args and isinstance(n.args[0], ast.Constant):
                        names.add(n.args[0].value)
                    elif n.func.id in self.registry.helpers and n.func.id not in seen:
                        seen.add(n.func.id)
                        scan(self.registry.helpers[n.func.id][0])
                    elif n.func.id == 'propagates' and n.args and isinstance(n.args[0], ast.Constant):
                        names.add(n.args[0].value)
        scan(contract.node)
        for c in contract.of('emits'):
            for a in c.args:
                names.add(a.value)
        names.discard('*')
        return sorted(names)

    def callee_trace(self, I, contract):
        out = []
        for n in self.contract_event_names(contract):
            th = self.event_seq_theory(n)
            out.append(GhostSeg(n, VSeq(I.fresh('ev_' + n.replace(':', '_').replace('.', '_'), th.sort), 'list', th, ekind='bytes')))
        return out

    # ---- dicts ----------------------------------------------------------------------------------------------
    def _dkey_eq(self, I, k1, k2, node):
        return I.veq(k1, k2, node)

    def dict_has(self, I, d, key, node):
        c = I.cell(d)
        if isinstance(key, VOpt) and not I.pure:
            key = I.unwrap(key, node)
        if isinstance(key, VOpt):
            inner = self.dict_has(I, d, key.val, node)
            return z3.And(z3.Not(key.is_none), inner)
        if isinstance(key, VNone) and isinstance(c.content, VMap):
            return z3.BoolVal(False)
        if isinstance(c.content, list):
            if not c.content:
                return z3.BoolVal(False)
            return z3.Or(*[self._dkey_eq(I, key, k, node) for k, _ in c.content])
        m = c.content
        return m.th.Has(m.t, self.map_key_term(I, m, key, node))

    def map_key_term(self, I, m, key, node):
        key = I.unwrap(key, node)
        if m.th.K.eq(T.Obj):
            return self.obj_term(I, key, node)
        if m.th.K.eq(S.sort) and isinstance(key, VSeq):
            return key.t
        if m.th.K.eq(T.I) and isinstance(key, VInt):
            return key.t
        raise Unsupported('map key %r' % (key,), node)

    def map_val_wrap(self, I, m, t):
        if m.vkind in ('str', 'bytes'):
            return VSeq(t, m.vkind)
        if m.vkind == 'int':
            return VInt(t)
        if m.vkind == 'obj':
            return VOpaque(t, getattr(m, 'vlabel', ''))
        if callable(m.vkind):
            return m.vkind(I, t)
        raise Unsupported('map value kind %r' % (m.vkind,))

    def map_val_term(self, I, m, v, node):
        v = I.unwrap(v, node)
        if m.vkind in ('str', 'bytes') and isinstance(v, VSeq):
            return v.t
        if m.vkind == 'int' and isinstance(v, VInt):
            return v.t
        if m.vkind == 'obj':
            return self.obj_term(I, v, node)
        unw = getattr(m, 'vunwrap', None)
        if unw:
            return unw(I, v)
        raise Unsupported('map value %r' % (v,), node)

    # ---- boxing of arbitrary values into the sort Obj (dict values, tuples of callbacks, ...) --------------------
    NONE_OBJ = z3.Const('None.obj', T.Obj)

    def tup_fn(self, n):
        return self.uf('tup%d' % n, *([T.Obj] * n + [T.Obj]))

    def proj_fn(self, n, k):
        return self.uf('tup%d.%d' % (n, k), T.Obj, T.Obj)

    def box_axioms(self):
        A = [z3.Not(self.obj_truthy(self.NONE_OBJ))]
        bi = z3.Int('bi')
        A.append(z3.ForAll([bi], z3.And(self.uf('obj_int', T.Obj, T.I)(self.uf('box_int', T.I, T.Obj)(bi)) == bi,
                                        self.uf('box_int', T.I, T.Obj)(bi) != self.NONE_OBJ),
                           patterns=[self.uf('box_int', T.I, T.Obj)(bi)]))
        for n in (2, 3):
            xs = [z3.Const('bx%d' % i, T.Obj) for i in range(n)]
            t = self.tup_fn(n)(*xs)
            A.append(z3.ForAll(xs, z3.And(*[self.proj_fn(n, k)(t) == xs[k] for k in range(n)], t != self.NONE_OBJ, self.obj_truthy(t)),
                               patterns=[t]))
        return A

    def obj_term(self, I, v, node=None):
        if isinstance(v, VOpaque):
            return v.t
        if isinstance(v, VNone):
            return self.NONE_OBJ
        if isinstance(v, VOpt):
            return z3.If(v.is_none, self.NONE_OBJ, self.obj_term(I, v.val, node))
        if isinstance(v, VTuple) and len(v.items) in (2, 3):
            return self.tup_fn(len(v.items))(*[self.obj_term(I, x, node) for x in v.items])
        if isinstance(v, VRef):
            t = z3.Const('ref!%d' % v.loc, T.Obj)
            I.assume(z3.And(t != self.NONE_OBJ, self.obj_truthy(t)))
            return t
        if isinstance(v, VFunc):
            sv = v.self_val.loc if isinstance(v.self_val, VRef) else ''
            t = z3.Const('fn!%s@%s' % (v.finfo.qualname, sv), T.Obj)
            I.assume(z3.And(t != self.NONE_OBJ, self.obj_truthy(t)))
            return t
        if isinstance(v, VClosure):
            t = z3.Const('closure!%d@L%s' % (id(v.node) % 100000, getattr(v.node, 'lineno', 0)), T.Obj)
            I.assume(z3.And(t != self.NONE_OBJ, self.obj_truthy(t)))
            return t
        if isinstance(v, VSeq) and v.th is S:
            return self.uf('box_str', S.sort, T.Obj)(v.t)
        if isinstance(v, VSeq) and v.th is T.SeqO:
            return self.uf('box_seqo', T.SeqO.sort, T.Obj)(v.t)
        if isinstance(v, VClass):
            t = z3.Const('class!%s' % v.info.name, T.Obj)
            I.assume(z3.And(t != self.NONE_OBJ, self.obj_truthy(t)))
            return t
        if isinstance(v, VBool):
            return self.uf('box_bool', T.B, T.Obj)(v.t)
        if isinstance(v, VInt):
            return self.uf('box_int', T.I, T.Obj)(v.t)
        if isinstance(v, VExc):
            # an exception object kept as a value (errors[jid] = e): an object of its own
            if getattr(v, '_objterm', None) is None:
                v._objterm = I.fresh('excobj', T.Obj)
                I.assume(z3.And(v._objterm != self.NONE_OBJ, self.obj_truthy(v._objterm)))
            return v._objterm
        raise Unsupported('cannot box %r into Obj' % (v,), node)

    def unbox(self, I, v, n):
        return [VOpaque(self.proj_fn(n, k)(v.t), v.label) for k in range(n)]

    def dict_get(self, I, d, key, node):
        c = I.cell(d)
        if isinstance(c.content, list):
            for k, v in c.content:
                e = self._dkey_eq(I, key, k, node)
                if I.branch(e):
                    return v
            I.require(False, 'dict-key', node, exc='KeyError')
            raise PyExc(VExc('KeyError', origin='dict lookup'))
        m = c.content
        kt = self.map_key_term(I, m, key, node)
        I.require(m.th.Has(m.t, kt), 'dict-key', node, exc='KeyError')
        return self.map_val_wrap(I, m, m.th.Get(m.t, kt))

    def dict_set(self, I, d, key, val, node):
        c = I.cell(d)
        if isinstance(c.content, list):
            items = list(c.content)
            for idx, (k, v) in enumerate(items):
                e = z3.simplify(self._dkey_eq(I, key, k, node))
                if z3.is_true(e):
                    items[idx] = (k, val)
                    I.st.heap[d.loc] = HDict(items)
                    return
                if not z3.is_false(e):
                    if I.branch(e):
                        items[idx] = (k, val)
                        I.st.heap[d.loc] = HDict(items)
                        return
            items.append((key, val))
            I.st.heap[d.loc] = HDict(items)
            return
        m = c.content
        nt = m.th.Put(m.t, self.map_key_term(I, m, key, node), self.map_val_term(I, m, val, node))
        nm = VMap(nt, m.th, m.kkind, m.vkind)
        nm.__dict__.update({k: v for k, v in m.__dict__.items() if k not in ('t',)})
        nm.t = nt
        I.st.heap[d.loc] = HDict(nm)

    def dict_del(self, I, d, key, node):
        c = I.cell(d)
        if isinstance(c.content, list):
            items = list(c.content)
            for idx, (k, v) in enumerate(items):
                e = self._dkey_eq(I, key, k, node)
                if I.branch(e):
                    del items[idx]
                    I.st.heap[d.loc] = HDict(items)
                    return
            I.require(False, 'dict-key', node, exc='KeyError')
            raise PyExc(VExc('KeyError', origin='del'))
        m = c.content
        kt = self.map_key_term(I, m, key, node)
        I.require(m.th.Has(m.t, kt), 'dict-key', node, exc='KeyError')
        nm = VMap(m.th.Del(m.t, kt), m.th, m.kkind, m.vkind)
        for k, v in m.__dict__.items():
            if k != 't':
                nm.__dict__.setdefault(k, v)
        nm.t = m.th.Del(m.t, kt)
        I.st.heap[d.loc] = HDict(nm)

    def dict_len(self, I, d, node):
        c = I.cell(d)
        if isinstance(c.content, list):
            return VInt(len(c.content))
        m = c.content
        return VInt(m.th.Size(m.t))

    def dict_items(self, I, d, node):
        c = I.cell(d)
        if isinstance(c.content, list):
            return VDictItems([VTuple([k, v]) for k, v in c.content])
        for pl in self.plugins:
            r = pl.dict_items(I, d, c, node)
            if r is not None:
                return r
        raise Unsupported('items() of a symbolic dict', node)

    def dict_keys(self, I, d, node):
        c = I.cell(d)
        if isinstance(c.content, list):
            return VTuple([k for k, _ in c.content])
        raise Unsupported('keys() of a symbolic dict', node)

    def dict_values(self, I, d, node):
        c = I.cell(d)
        if isinstance(c.content, list):
            return VTuple([v for _, v in c.content])
        raise Unsupported('values() of a symbolic dict', node)

    def dict_eq(self, I, ca, cb, node):
        if isinstance(ca.content, list) and isinstance(cb.content, list):
            if len(ca.content) != len(cb.content):
                return z3.BoolVal(False)
        raise Unsupported('dict equality', node)

    def havoc_dict(self, I, ref):
        c = I.cell(ref)
        if isinstance(c.content, VMap):
            m = c.content
            nm = VMap(I.fresh('hvmap', m.th.sort), m.th, m.kkind, m.vkind)
            for k, v in m.__dict__.items():
                if k != 't':
                    nm.__dict__.setdefault(k, v)
            I.st.heap[ref.loc] = HDict(nm)
            return
        raise Unsupported('havoc of a concrete dict')

    # ---- types -> symbolic values -----------------------------------------------------------------------------
    def make_symbolic(self, I, ty, name):
        n = ty.name
        if n == 'Int':
            return VInt(I.fresh(name, T.I))
        if n == 'Nat':
            v = VInt(I.fresh(name, T.I))
            I.assume(v.t >= 0)
            return v
        if n == 'Byte':
            v = VInt(I.fresh(name, T.I))
            I.assume(z3.And(v.t >= 0, v.t < 256))
            return v
        if n == 'Bool':
            return VBool(I.fresh(name, T.B))
        if n == 'NoneT':
            return NONE
        if n == 'ClassRef':
            ci = self.find_class(ty.args[0])
            if ci is None:
                raise Unsupported('ClassRef(%s): class not found' % ty.args[0])
            return VClass(ci)
        if n == 'TupleObj':
            return VSeq(I.fresh(name, T.SeqO.sort), 'tuple', T.SeqO)
        if n in ('Bytes', 'Str', 'Latin1', 'SeqInt', 'IntSeq', 'SeqBytes', 'SeqStr', 'SeqObj'):
            th = {'SeqBytes': T.SeqS, 'SeqStr': T.SeqS, 'SeqObj': T.SeqO}.get(n, S)
            t = I.fresh(name, th.sort)
            if n in ('Bytes', 'Latin1'):
                I.assume(T.IsBytes(t))
            if n == 'Str':
                I.assume(self.all_in_range(t, 0, 0x110000))
            return VSeq(t, KIND_OF[n], th, ekind={'SeqBytes': 'bytes', 'SeqStr': 'str'}.get(n))
        if n in ('ByteArray', 'ListInt', 'ListByte', 'ListBytes', 'ListObj', 'ListStr'):
            th = {'ListBytes': T.SeqS, 'ListObj': T.SeqO, 'ListStr': T.SeqS}.get(n, S)
            t = I.fresh(name, th.sort)
            if n in ('ByteArray', 'ListByte'):
                I.assume(T.IsBytes(t))
            ek = 'bytes' if n == 'ListBytes' else ('str' if n == 'ListStr' else (ty.args[0] if (n == 'ListObj' and ty.args) else None))
            return I.alloc(HList(VSeq(t, KIND_OF[n], th, ekind=ek), KIND_OF[n]))
        if n == 'ListOf':
            # ListOf(T, k): a list of exactly k arbitrary elements of type T (bounded in LENGTH only; loops over it are unrolled)
            return I.alloc(HList([self.make_symbolic(I, ty.args[0], '%s_%d' % (name, i_)) for i_ in range(int(ty.args[1]))], 'list'))
        if n == 'Opaque':
            label = ty.args[0] if ty.args else ''
            t = I.fresh(name, T.Obj)
            I.assume(z3.And(t != self.NONE_OBJ, self.obj_truthy(t)))    # an object without __bool__/__len__ is truthy
            return VOpaque(t, label)
        if n == 'Value':
            # a value of unknown type (not None): only its truthiness can be observed
            t = I.fresh(name, T.Obj)
            I.assume(t != self.NONE_OBJ)
            return VOpaque(t, ty.args[0] if ty.args else '')
        if n == 'Opt':
            inner = self.make_symbolic(I, ty.args[0], name)
            return VOpt(I.fresh(name + '_none', T.B), inner)
        if n == 'Tup':
            return VTuple([self.make_symbolic(I, a, '%s_%d' % (name, k)) for k, a in enumerate(ty.args)])
        if n == 'Obj':
            return self.make_object(I, ty.args[0], name)
        if n == 'Callback':
            t = I.fresh(name, T.Obj)
            I.assume(z3.And(self.obj_truthy(t), t != self.NONE_OBJ))
            return VOpaque(t, 'callback')
        if n == 'DictStrStr':
            th = T.MapSS
            return I.alloc(HDict(VMap(I.fresh(name, th.sort), th, 'str', 'str')))
        if n == 'DictObjObj':
            m = VMap(I.fresh(name, T.MapOO.sort), T.MapOO, 'obj', 'obj')
            m.vlabel = ty.args[0] if ty.args else ''
            return I.alloc(HDict(m))
        if n == 'DictStrObj':
            th = T.MapSO
            m = VMap(I.fresh(name, th.sort), th, 'str', 'obj')
            m.vlabel = ty.args[0] if ty.args else ''
            return I.alloc(HDict(m))
        for pl in self.plugins:
            r = pl.make_symbolic(I, ty, name)
            if r is not None:
                return r
        raise Unsupported('cannot make a symbolic value of type %r' % (ty,))

    def find_class(self, cname):
        for reg in (self.registry.contracts, self.registry.opaques, self.registry.inlines):
            for (file, qual) in reg:
                if qual.split('.')[0] == cname and file != '<ext>':
                    m = self.repo.module(file)
                    if cname in m.classes:
                        return m.classes[cname]
        for m in list(self.repo.modules.values()):
            if cname in m.classes:
                return m.classes[cname]
        hint = self.registry.fields.get(cname, {}).get('__file__')
        if hint is not None:
            return self.repo.module(hint.name if isinstance(hint, Ty) else hint).classes.get(cname)
        return self.find_class_by_name(cname)

    def make_object(self, I, cname, name):
        info = self.find_class(cname)
        decl = self.registry.fields.get(cname)
        if decl is None:
            raise Unsupported('no fields(...) declaration for class %s' % cname)
        flds = {}
        for f, ty in decl.items():
            if f.startswith('__') and f.endswith('__'):
                continue
            flds[f] = self.make_symbolic(I, ty, '%s_%s' % (name, f))
        return I.alloc(HObj(info, flds, extname=None if info else cname))

    # ---- spec functions ------------------------------------------------------------------------------------------
    def sort_of(self, ty):
        if ty.name in SORT_OF:
            return SORT_OF[ty.name]
        if ty.name in ('Nat', 'Byte'):
            return T.I
        for pl in self.plugins:
            s = pl.sort_of(ty)
            if s is not None:
                return s
        raise Unsupported('no SMT sort for type %r' % (ty,))

    def to_term(self, I, v, ty, node=None):
        v = I.unwrap(v, node)
        n = ty.name
        if n in ('Int', 'Nat', 'Byte'):
            return I.as_int(v, node)
        if n == 'Bool':
            return I.truthy(v, node)
        if n in SORT_OF and n != 'Opaque':
            s = I.seq_of(v, node, want={'SeqBytes': 'seq', 'SeqStr': 'seq', 'ListBytes': 'seq', 'ListStr': 'seq', 'SeqObj': 'obj', 'ListObj': 'obj'}.get(n, 'int'))
            if not s.th.sort.eq(SORT_OF[n]):
                if I._known_empty(s):
                    return T.SeqTheory.registry[str(SORT_OF[n])].Empty
                raise Unsupported('argument sort mismatch for %r' % (ty,), node)
            return s.t
        if n == 'Opaque' and isinstance(v, VOpaque):
            return v.t
        for pl in self.plugins:
            r = pl.to_term(I, v, ty, node)
            if r is not None:
                return r
        raise Unsupported('cannot pass %r as %r' % (v, ty), node)

    def from_term(self, I, t, ty):
        n = ty.name
        if n in ('Int', 'Nat', 'Byte'):
            return VInt(t)
        if n == 'Bool':
            return VBool(t)
        if n in KIND_OF:
            th = T.SeqTheory.registry[str(SORT_OF[n])]
            return VSeq(t, KIND_OF[n], th, ekind={'SeqBytes': 'bytes', 'SeqStr': 'str', 'ListBytes': 'bytes', 'ListStr': 'str'}.get(n))
        if n == 'Opaque':
            return VOpaque(t, ty.args[0] if ty.args else '')
        for pl in self.plugins:
            r = pl.from_term(I, t, ty)
            if r is not None:
                return r
        raise Unsupported('cannot wrap term of type %r' % (ty,))

    def declare_spec(self, sp):
        dom = [self.sort_of(t) for _, t in sp.params]
        rng = self.sort_of(sp.ret)
        if sp.recursive and not sp.uninterpreted:
            f = z3.Function('spec.' + sp.name, Fuel, *dom, rng)
        else:
            f = z3.Function('spec.' + sp.name, *dom, rng)
        self.spec_funcs[sp.name] = (f, sp)

    def top_fuel(self):
        return FS(FZ) if os.environ.get("PYVC_FUEL", "1") == "1" else FS(FS(FZ))

    def apply_spec(self, I, sp, args, node=None, fuel=None):
        f, _ = self.spec_funcs[sp.name]
        if len(args) != len(sp.params):
            raise Unsupported('spec function %s arity' % sp.name, node)
        if sp.kw.get('inline') and not sp.recursive:
            # macro expansion: the body is built with the caller's argument terms (keeps concatenations right-nested)
            env = {}
            for a, (p_, ty) in zip(args, sp.params):
                env[p_] = self.from_term(I, self.to_term(I, a, ty, node), ty)
            fr = Frame(env, None, sidecar=sp.sidecar)
            fr.spec = SpecCtx()
            I.pure += 1
            try:
                body = self.pure_body(I, list(sp.node.body), fr)
            finally:
                I.pure -= 1
            return self.from_term(I, self.to_term(I, body, sp.ret), sp.ret)
        ts = [self.to_term(I, a, ty, node) for a, (_, ty) in zip(args, sp.params)]
        if sp.recursive and not sp.uninterpreted:
            fl = fuel if fuel is not None else (I.spec_fuel if getattr(I, 'spec_fuel', None) is not None else self.top_fuel())
            return self.from_term(I, f(fl, *ts), sp.ret)
        return self.from_term(I, f(*ts), sp.ret)

    def pure_body(self, I, stmts, frame):
        if not stmts:
            raise Unsupported('spec function falls off its end')
        st = stmts[0]
        rest = stmts[1:]
        if isinstance(st, ast.Expr) and isinstance(st.value, ast.Constant):
            return self.pure_body(I, rest, frame)
        if isinstance(st, ast.Return):
            return I.ev(st.value, frame)
        if isinstance(st, ast.Assign) and len(st.targets) == 1 and isinstance(st.targets[0], ast.Name):
            frame.env[st.targets[0].id] = I.ev(st.value, frame)
            return self.pure_body(I, rest, frame)
        if isinstance(st, ast.If):
            c = I.truthy(I.ev(st.test, frame))
            e1 = dict(frame.env)
            a = self.pure_body(I, st.body + rest, frame)
            frame.env = e1
            b = self.pure_body(I, st.orelse + rest, frame)
            return I.merge(c, a, b, st)
        raise Unsupported('statement in spec function: %s' % type(st).__name__, st)

    def define_spec(self, sp):
        if sp.uninterpreted:
            return
        f, _ = self.spec_funcs[sp.name]
        I = Interp(self)
        I.pure = 1
        I.active_contract = None
        env = {}
        vars_ = []
        for p, ty in sp.params:
            c = z3.Const('p_' + p, self.sort_of(ty))
            vars_.append(c)
            env[p] = self.from_term(I, c, ty)
        fr = Frame(env, None, sidecar=sp.sidecar)
        fr.spec = SpecCtx()
        if sp.recursive:
            ly = z3.Const('ly', Fuel)
            I.spec_fuel = ly
            body = self.pure_body(I, list(sp.node.body), fr)
            bt = self.to_term(I, body, sp.ret)
            lhs = f(FS(ly), *vars_)
            self.spec_axioms.append(z3.ForAll([ly] + vars_, lhs == bt, qid='def.' + sp.name, patterns=[lhs]))
            self.spec_axioms.append(z3.ForAll([ly] + vars_, lhs == f(ly, *vars_), qid='fuel.' + sp.name, patterns=[lhs]))
        else:
            I.spec_fuel = None
            body = self.pure_body(I, list(sp.node.body), fr)
            bt = self.to_term(I, body, sp.ret)
            lhs = f(*vars_)
            if vars_:
                self.spec_axioms.append(z3.ForAll(vars_, lhs == bt, qid='def.' + sp.name, patterns=[lhs]))
            else:
                self.spec_axioms.append(lhs == bt)

    # ---- sidecar names and special forms ----------------------------------------------------------------------------
    def sidecar_lookup(self, I, sidecar, name):
        R = self.registry
        if name in R.specs:
            return VSpecFunc(R.specs[name])
        if name in R.helpers:
            node, sc = R.helpers[name]
            return VClosure(node, None, Frame({}, None, sidecar=sc))
        seen = set()

        def find_const(sc):
            if id(sc) in seen:
                return None
            seen.add(id(sc))
            if name in sc.consts:
                return sc.consts[name], sc
            for imp in sc.imported:
                r = find_const(imp)
                if r is not None:
                    return r
            return None
        r = find_const(sidecar)
        if r is not None:
            val, sc = r
            if isinstance(val, tuple) and val and val[0] == 'expr':
                fr = Frame({}, None, sidecar=sc)
                fr.spec = SpecCtx()
                I.pure += 1
                try:
                    return I.ev(val[1], fr)
                finally:
                    I.pure -= 1
            if isinstance(val, bool):
                return VBool(val)
            if isinstance(val, int):
                return VInt(val)
            if isinstance(val, str):
                return I.str_lit(val)
            if isinstance(val, bytes):
                return I.str_lit(val, 'bytes')
            if val is None:
                return NONE
        return None

    def entry_spec(self, I, frame):
        return getattr(I, 'entry', None)

    def spec_form(self, I, fn, node, frame):
        sp = frame.spec
        if fn == 'old':
            if sp is None or sp.old_state is None:
                raise Unsupported('old() outside a postcondition', node)
            saved = I.st
            tmp = sp.old_state.snapshot()
            tmp.counter = saved.counter + 100000
            I.st = tmp
            try:
                e0 = dict(sp.entry_env)
                f2 = frame
                chain = []
                while f2 is not None:
                    chain.append(f2.env)
                    f2 = f2.parent
                for envx in reversed(chain[:-1] if len(chain) > 1 else []):
                    pass
                # locals of helper functions (their parameters) stay visible inside old(...)
                if frame.env is not sp.entry_env:
                    for k_, v_ in frame.env.items():
                        if k_ not in e0 or frame.parent is not None:
                            e0[k_] = v_
                fr = Frame(e0, frame.module, sidecar=frame.sidecar)
                fr.spec = SpecCtx(old_state=sp.old_state, entry_env=sp.entry_env)
                I.pure += 1
                try:
                    r = I.ev(node.args[0], fr)
                    # a heap reference must be read in the *old* heap: freeze lists to their value
                    if isinstance(r, VRef) and I.is_list(r):
                        r = I.seq_of(r, node)
                    elif isinstance(r, VRef) and I.is_dict(r) and isinstance(I.cell(r).content, VMap):
                        r = I.cell(r).content
                    elif isinstance(r, VOpt) and isinstance(r.val, VRef) and I.is_list(r.val):
                        r = VOpt(r.is_none, I.seq_of(r.val, node))
                    return r
                finally:
                    I.pure -= 1
            finally:
                I.st = saved
        if fn == 'implies':
            a = I.truthy(I.ev(node.args[0], frame))
            b = I.truthy(I.ev(node.args[1], frame))
            return VBool(z3.Implies(a, b))
        if fn == 'iff':
            a = I.truthy(I.ev(node.args[0], frame))
            b = I.truthy(I.ev(node.args[1], frame))
            return VBool(a == b)
        if fn in ('forall', 'exists'):
            return self.quantifier(I, fn, node, frame)
        if fn == 'is_bytes':
            s = I.seq_of(I.ev(node.args[0], frame), node)
            return VBool(T.IsBytes(s.t))
        if fn == 'is_none':
            return VBool(I.videntical(I.ev(node.args[0], frame), NONE, node))
        if fn == 'events':
            return self.events_seq(I, self.const_str(I, I.ev(node.args[0], frame)), node)
        if fn == 'n_events':
            return self.events_count(I, self.const_str(I, I.ev(node.args[0], frame)), node)
        if fn == 'event_names':
            names = []
            for e in I.st.trace:
                if isinstance(e, GhostSeg):
                    raise Unsupported('event_names() after a cut loop', node)
                names.append(I.str_lit(e.name))
            return VTuple(names)
        if fn == 'event_arg':
            name = self.const_str(I, I.ev(node.args[0], frame))
            kterm = I.as_int(I.ev(node.args[1], frame))
            k = VInt(kterm).const()
            j = VInt(I.as_int(I.ev(node.args[2], frame))).const() if len(node.args) > 2 else 0
            evs = [e for e in I.st.trace if isinstance(e, Event) and e.name == name]
            ghosts = [e for e in I.st.trace if isinstance(e, GhostSeg) and e.name == name]
            if ghosts and not evs and len(ghosts) == 1:
                g = ghosts[0]
                kt = z3.IntVal(k) if k is not None else kterm          # a quantified index is fine over a summarised sequence
                if j == 0:
                    return I.wrap_elem(g.seq, g.seq.th.Idx(g.seq.t, kt))
                if j not in g.more:
                    g.more[j] = VSeq(I.fresh('ev_%s_arg%d' % (name.replace(':', '_').replace('.', '_'), j), T.SeqO.sort), 'list', T.SeqO)
                return VOpaque(T.SeqO.Idx(g.more[j].t, kt))
            if ghosts and len(ghosts) == 1 and evs:
                order = [e for e in I.st.trace if (isinstance(e, Event) or isinstance(e, GhostSeg)) and e.name == name]
                if order[0] is ghosts[0] and all(j < len(e.args) for e in evs):
                    # the summarised prefix followed by the events emitted since the cut: index into the concatenation
                    g = ghosts[0]
                    kt = z3.IntVal(k) if k is not None else kterm
                    L = g.seq.th.Len(g.seq.t)
                    if j == 0 and g.seq.th is T.SeqO:
                        gt = T.SeqO.Idx(g.seq.t, kt)
                    else:
                        if j not in g.more:
                            g.more[j] = VSeq(I.fresh('ev_%s_arg%d' % (name.replace(':', '_').replace('.', '_'), j), T.SeqO.sort), 'list', T.SeqO)
                        gt = T.SeqO.Idx(g.more[j].t, kt)
                    t = None
                    for idx in range(len(evs) - 1, -1, -1):
                        at = self.obj_term(I, evs[idx].args[j], node)
                        t = at if t is None else z3.If(kt == L + idx, at, t)
                    return VOpaque(z3.If(kt < L, gt, t), 'eventarg')
            if ghosts and k is not None:
                # constant index that falls into the concrete events emitted BEFORE the first summarised segment
                order = [e for e in I.st.trace if (isinstance(e, Event) or isinstance(e, GhostSeg)) and e.name == name]
                lead = 0
                while lead < len(order) and isinstance(order[lead], Event):
                    lead += 1
                if 0 <= k < lead and j < len(order[k].args):
                    return order[k].args[j]
            if ghosts:
                # an index into (or past) a summarised segment that is not at the start: nothing is known - an unconstrained value
                self.qcount += 1
                return VOpaque(z3.Const('missing-event!%d' % self.qcount, T.Obj), 'missing')
            if k is None:
                # a quantified index over concrete events: a case distinction over the events there are
                if not evs:
                    self.qcount += 1
                    return VOpaque(z3.Const('missing-event!%d' % self.qcount, T.Obj), 'missing')
                t = None
                for idx in range(len(evs) - 1, -1, -1):
                    if j >= len(evs[idx].args):
                        raise Unsupported('event_arg(): argument %d missing' % j, node)
                    at = self.obj_term(I, evs[idx].args[j], node)
                    t = at if t is None else z3.If(kterm == idx, at, t)
                return VOpaque(t, 'eventarg')
            if k >= len(evs) or j >= len(evs[k].args):
                # no such event on this path: an unconstrained value (the clause must also pin n_events)
                self.qcount += 1
                return VOpaque(z3.Const('missing-event!%d' % self.qcount, T.Obj), 'missing')
            return evs[k].args[j]
        if fn == 'attr':
            node_v = I.unwrap(I.ev(node.args[0], frame))
            if isinstance(node_v, VNone):
                self.qcount += 1      # attr of None under a guard that excludes it: unconstrained
                return VOpt(z3.Const('undef-attr!%d' % self.qcount, T.B), VSeq(z3.Const('undef-attrv!%d' % self.qcount, S.sort), 'str'))
            attrs = I.unwrap(I.getattr(node_v, 'attributes', node))
            if isinstance(node_v, VOpaque) and node_v.label == 'missing':
                self.qcount += 1
                return VOpt(z3.Const('missing-attr!%d' % self.qcount, T.B), VSeq(z3.Const('missing-attrv!%d' % self.qcount, S.sort), 'str'))
            if isinstance(node_v, VOpaque):
                # a node known only as a term (argument of a summarised event): its attributes are functions of the term
                kt = I.ev(node.args[1], frame).t
                return VOpt(self.uf('node.attr.none', T.Obj, S.sort, T.B)(node_v.t, kt),
                            VSeq(self.uf('node.attr.val', T.Obj, S.sort, S.sort)(node_v.t, kt), 'str'))
            m = I.cell(attrs).content if I.is_dict(attrs) else attrs
            if isinstance(m, list):
                # a concrete dict literal built by the code: look the literal key up, last binding wins
                kname = self.const_str(I, I.ev(node.args[1], frame))
                found = NONE
                for k_, v_ in m:
                    if isinstance(k_, VSeq) and self.seq_literal(k_.t) is not None and ''.join(map(chr, self.seq_literal(k_.t))) == kname:
                        found = v_
                return found
            if not isinstance(m, VMap):
                raise Unsupported('attr() needs a node with a symbolic attribute map', node)
            kt = self.map_key_term(I, m, I.ev(node.args[1], frame), node)
            return VOpt(z3.Not(m.th.Has(m.t, kt)), self.map_val_wrap(I, m, m.th.Get(m.t, kt)))
        if fn in ('n_children', 'child'):
            node_v = I.unwrap(I.ev(node.args[0], frame))
            if isinstance(node_v, VOpaque):
                self.qcount += 1
                return VInt(z3.Int('missing-n!%d' % self.qcount)) if fn == 'n_children' else VOpaque(z3.Const('missing-child!%d' % self.qcount, T.Obj), 'missing')
            ch = I.unwrap(I.getattr(node_v, 'children', node))
            if not (I.is_list(ch) and isinstance(I.cell(ch).content, list)):
                raise Unsupported('%s() needs a node built by the code (concrete child list)' % fn, node)
            items = I.cell(ch).content
            if fn == 'n_children':
                return VInt(len(items))
            k = VInt(I.as_int(I.ev(node.args[1], frame))).const()
            if k is None or k >= len(items):
                self.qcount += 1
                return VOpaque(z3.Const('missing-child!%d' % self.qcount, T.Obj), 'missing')
            return items[k]
        if fn in ('map_del', 'map_put'):
            a0 = I.unwrap(I.ev(node.args[0], frame))
            m = a0 if isinstance(a0, VMap) else I.cell(a0).content
            kt = self.map_key_term(I, m, I.ev(node.args[1], frame), node)
            if fn == 'map_del':
                return VMap(m.th.Del(m.t, kt), m.th, m.kkind, m.vkind)
            return VMap(m.th.Put(m.t, kt, self.map_val_term(I, m, I.ev(node.args[2], frame), node)), m.th, m.kkind, m.vkind)
        if fn == 'proj':
            v = I.ev(node.args[0], frame)
            n_ = VInt(I.as_int(I.ev(node.args[1], frame))).const()
            k_ = VInt(I.as_int(I.ev(node.args[2], frame))).const()
            return VOpaque(self.proj_fn(n_, k_)(self.obj_term(I, v, node)))
        if fn == 'same_obj':
            a = self.obj_term(I, I.ev(node.args[0], frame), node)
            b = self.obj_term(I, I.ev(node.args[1], frame), node)
            return VBool(a == b)
        if fn == 'at_event':
            name = self.const_str(I, I.ev(node.args[0], frame))
            k = VInt(I.as_int(I.ev(node.args[1], frame))).const()
            evs = [e for e in I.st.trace if isinstance(e, Event) and e.name == name]
            if k >= len(evs):
                self.qcount += 1
                return VBool(z3.Const('missing-event-state!%d' % self.qcount, T.B))
            # the state AT the k-th event: the heap as it was then, and the trace of what had happened BEFORE it
            saved, saved_trace = I.st.heap, I.st.trace
            pos = next(i for i, e in enumerate(saved_trace) if e is evs[k])
            I.st.heap = dict(evs[k].heap)
            I.st.trace = list(saved_trace[:pos])
            try:
                body = node.args[2].body if isinstance(node.args[2], ast.Lambda) else node.args[2]
                return I.ev(body, frame)
            finally:
                I.st.heap, I.st.trace = saved, saved_trace
        if fn == 'cls':
            name = self.const_str(I, I.ev(node.args[0], frame))
            ci = self.find_class(name)
            if ci is None:
                for m in list(self.repo.modules.values()):
                    r = m.lookup(self.repo, name)
                    if isinstance(r, ClassInfo):
                        ci = r
                        break
            if ci is None:
                raise Unsupported('cls(%s): class not found' % name, node)
            return VClass(ci)
        if fn == 'is_instance':
            v = I.unwrap(I.ev(node.args[0], frame))
            name = self.const_str(I, I.ev(node.args[1], frame))
            if I.is_obj(v):
                c = I.cell(v)
                return VBool(c.cls is not None and any(k.name == name for k in c.cls.mro(self.repo)))
            return VBool(False)
        if fn in ('class_is', 'inst_of'):
            # class_is(x, "C"): x.__class__ == C;  inst_of(x, "C"): isinstance(x, C) - for objects known only as terms
            v = I.unwrap(I.ev(node.args[0], frame))
            name = self.const_str(I, I.ev(node.args[1], frame))
            ci = self.find_class_by_name(name)
            if ci is None:
                raise Unsupported('%s: class %s not found in the repository' % (fn, name), node)
            if not isinstance(v, VOpaque):
                raise Unsupported('%s on %r' % (fn, v), node)
            if fn == 'class_is':
                return VBool(self.uf('field.__class__', T.Obj, T.Obj)(v.t) == self.class_const(ci))
            self.class_const(ci)
            return VBool(self.isinst_fn(ci)(v.t))
        if fn == 'outer':
            # outer(e), inside the claim / given of in_closure: e evaluated in the state of the function that REGISTERED the closure
            # (its events, its heap), not in the later state the closure runs in
            stack_ = I.__dict__.get('_outer_states') or []
            if not stack_:
                raise Unsupported('outer() outside in_closure', node)
            cur_ = I.st
            I.st = stack_[-1]
            try:
                return I.ev(node.args[0], frame)
            finally:
                I.st = cur_
        if fn == 'in_closure':
            # in_closure(f, lambda: expr): expr holds for the events produced when the callable f (a closure registered by the
            # function under verification, e.g. handed to execDetached) is later invoked with no arguments
            f = I.ev(node.args[0], frame)
            lam = node.args[1]
            if isinstance(f, VOpaque) and f.label == 'missing':
                self.qcount += 1
                return VBool(z3.Const('missing-closure!%d' % self.qcount, T.B))
            if not isinstance(f, (VClosure, VFunc)):
                # at a call site of the contract the callable is only known as a term: nothing is learnt here
                self.qcount += 1
                return VBool(z3.Const('closure-claim!%d' % self.qcount, T.B))
            saved = I.st
            I.__dict__.setdefault('_outer_states', []).append(saved)
            tmp = saved.snapshot()
            tmp.trace = []
            # later state: mutable class attributes may have changed too
            tmp.class_epoch = self.__dict__.setdefault('_epochs', 0) + 1
            self._epochs = tmp.class_epoch
            for k_ in [k_ for k_ in tmp.heap if isinstance(k_, tuple) and k_ and k_[0] == 'classvar']:
                del tmp.heap[k_]
            I.st = tmp
            pure0 = I.pure
            I.pure = 0
            try:
                nargs = 0
                stable = set()
                for kw_ in node.keywords:
                    if kw_.arg == 'nargs':
                        nargs = VInt(I.as_int(I.ev(kw_.value, frame))).const()
                    if kw_.arg == 'stable':
                        stable = set(ast.literal_eval(kw_.value))
                given = [kw_.value for kw_ in node.keywords if kw_.arg == 'given']
                argtypes = [kw_.value for kw_ in node.keywords if kw_.arg == 'argtypes']
                # the callable fires LATER: every field of every repository object may have been reassigned in between
                # (scalars, sequences, lists, dicts, optional values get fresh values; links to other repository objects
                # keep their target, whose fields are havocked in turn).  What the closure captured by value is kept.
                for loc_, cell_ in list(tmp.heap.items()):
                    if isinstance(cell_, HObj) and cell_.cls is not None:
                        for fname_, cur_ in list(cell_.fields.items()):
                            if fname_ in stable or fname_.split('__')[-1] in stable:
                                continue
                            if isinstance(cur_, (VClosure, VFunc, VClass, VBuiltin, VModule, VType)):
                                continue
                            if isinstance(cur_, VRef) and isinstance(tmp.heap.get(cur_.loc), HObj):
                                continue
                            try:
                                nv_ = self.loops.havoc_value(I, cur_, 'later_' + fname_)
                            except Exception:
                                continue
                            tmp.heap[loc_] = tmp.heap[loc_].set(fname_, nv_)
                # given=lambda: P - what the context that fires the callable guarantees about that later state (its precondition)
                for g_ in given:
                    if g_.args.args:
                        continue            # speaks about the closure's arguments: assumed below, once they exist
                    I.pure += 1
                    try:
                        I.assume(I.truthy(I.ev(g_.body, frame)))
                    finally:
                        I.pure -= 1
                cargs = [VOpaque(I.fresh('closure_arg', T.Obj), 'arg') for _ in range(nargs)]
                if argtypes:
                    # argtypes=(T1, T2, ...): the values the firing context passes, arbitrary within their types; the claim's lambda
                    # may name them (lambda a, b: ...) and given= may constrain them
                    from .contracts import parse_type
                    cargs = [self.make_symbolic(I, parse_type(te), 'closure_arg%d' % i_) for i_, te in enumerate(argtypes[0].elts)]
                cframe = frame
                if lam.args.args:
                    if len(lam.args.args) != len(cargs):
                        raise Unsupported('in_closure: the claim names %d arguments, the closure is fired with %d' % (len(lam.args.args), len(cargs)), node)
                    env2 = dict(frame.env)
                    for a_, v_ in zip(lam.args.args, cargs):
                        env2[a_.arg] = v_
                    cframe = Frame(env2, frame.module, cls=frame.cls, finfo=frame.finfo, parent=frame.parent, sidecar=frame.sidecar)
                    cframe.spec = frame.spec
                for g_ in given:
                    if g_.args.args:
                        I.pure += 1
                        try:
                            I.assume(I.truthy(I.ev(g_.body, cframe)))
                        finally:
                            I.pure -= 1
                total_ = any(kw_.arg == 'total' and isinstance(kw_.value, ast.Constant) and kw_.value.value for kw_ in node.keywords)
                try:
                    I.call(f, cargs, {}, node, frame)
                except PyExc as pe_:
                    # the claim is about the closure completing normally (a callee that raises is reported to its caller) ...
                    I.pure = pure0
                    if total_ and not pe_.exc.cls.startswith('opaque:'):
                        # ... unless total=True: under the given facts the closure must not raise anything of its own (an exception that
                        # comes out of an opaque callee is still the callee's business)
                        hyps_ = tmp.pc[len(saved.pc):]
                        return VBool(z3.Not(z3.And(*hyps_)) if hyps_ else z3.BoolVal(False))
                    return VBool(True)
                I.pure = pure0
                saved.counter = max(saved.counter, tmp.counter)
                body = I.truthy(I.ev(lam.body, cframe))
                # what was assumed while the closure ran (contracts of its callees, the branch it took) are hypotheses
                hyps = tmp.pc[len(saved.pc):]
                return VBool(z3.Implies(z3.And(*hyps), body) if hyps else body)
            finally:
                I.pure = pure0
                I.st = saved
                I._outer_states.pop()
        if fn == 'bound_method':
            o = I.unwrap(I.ev(node.args[0], frame))
            return I.getattr(o, self.const_str(I, I.ev(node.args[1], frame)), node, frame, for_call=True)
        if fn == 'event_kwarg':
            name = self.const_str(I, I.ev(node.args[0], frame))
            k = VInt(I.as_int(I.ev(node.args[1], frame))).const()
            kw = self.const_str(I, I.ev(node.args[2], frame))
            evs = [e for e in I.st.trace if isinstance(e, Event) and e.name == name]
            if k >= len(evs) or kw not in evs[k].kwargs:
                self.qcount += 1
                return VOpaque(z3.Const('missing-event!%d' % self.qcount, T.Obj), 'missing')
            return evs[k].kwargs[kw]
        if fn == 'event_self':
            name = self.const_str(I, I.ev(node.args[0], frame))
            k = VInt(I.as_int(I.ev(node.args[1], frame))).const()
            evs = [e for e in I.st.trace if isinstance(e, Event) and e.name == name]
            if k >= len(evs) or not getattr(evs[k], 'recv', None):
                self.qcount += 1
                return VOpaque(z3.Const('missing-event!%d' % self.qcount, T.Obj), 'missing')
            return evs[k].recv[0]
        if fn == 'py_lower':
            from .builtins_model import Lower
            v = I.seq_of(I.ev(node.args[0], frame), node)
            return VSeq(Lower(v.t), 'list')
        if fn == 'py_replace':
            a0, a1, a2 = [I.seq_of(I.ev(x, frame), node) for x in node.args[:3]]
            return VSeq(self.uf('str_replace', S.sort, S.sort, S.sort, S.sort)(a0.t, a1.t, a2.t), 'list')
        if fn == 'py_inflate':
            from .builtins_model import Inflate
            v = I.seq_of(I.ev(node.args[0], frame), node)
            return VSeq(Inflate(v.t), 'bytes')
        if fn == 'py_utf8':
            from .builtins_model import Utf8
            v = I.seq_of(I.ev(node.args[0], frame), node)
            return VSeq(Utf8(v.t), 'list')
        if fn == 'bxor':
            return VInt(self.bxor(I.as_int(I.ev(node.args[0], frame)), I.as_int(I.ev(node.args[1], frame))))
        if fn == 'field':
            o = I.unwrap(I.ev(node.args[0], frame))
            nm = self.const_str(I, I.ev(node.args[1], frame))
            if isinstance(o, VOpaque):
                return VOpaque(self.uf('field.' + nm, T.Obj, T.Obj)(o.t), 'field')
            return I.getattr(o, nm, node, frame, for_call=False)
        if fn == 'pure_child':
            # the (assumed pure) ProtocolTreeNode.getChild(tag) of a node, as used by the code
            n_ = I.ev(node.args[0], frame)
            c_ = None
            for key_, cc in self.registry.contracts.items():
                if key_[1] == 'ProtocolTreeNode.getChild':
                    c_ = cc
            if c_ is None:
                raise Unsupported('pure_child: no assumed pure contract for ProtocolTreeNode.getChild', node)
            return self.pure_result(I, 'ProtocolTreeNode.getChild', c_, [n_, I.ev(node.args[1], frame)], node)
        if fn == 'pure_call':
            q = self.const_str(I, I.ev(node.args[0], frame))
            contract = self.registry.contracts[('<ext>', q)]
            vals = [I.ev(a, frame) for a in node.args[1:]]
            names = [p for p, _ in contract.params]
            while len(vals) < len(names):
                vals.append(NONE)
            return self.pure_result(I, q, contract, vals, node)
        if fn == 'getter':
            name = self.const_str(I, I.ev(node.args[0], frame))
            d = self.registry.externs.get(name) or {}
            if not d.get('pure') or d.get('returns') is None:
                raise Unsupported('getter(%s): not declared as a pure extern with a return type' % name, node)
            recv = I.unwrap(I.ev(node.args[1], frame))
            return self.getter_value(I, name, self.obj_term(I, recv, node), d['returns'])
        if fn == 'rep':
            e = I.as_int(I.ev(node.args[0], frame))
            n = I.as_int(I.ev(node.args[1], frame))
            return VSeq(S.Rep(e, n), 'list')
        if fn in ('contains_key', 'map_eq', 'map_get'):
            def asmap(v):
                v = I.unwrap(v)
                if isinstance(v, VMap):
                    return v
                if I.is_dict(v) and isinstance(I.cell(v).content, VMap):
                    return I.cell(v).content
                raise Unsupported('%s needs a symbolic dict' % fn, node)
            def concrete(v):
                v = I.unwrap(v)
                return I.is_dict(v) and isinstance(I.cell(v).content, list)

            def lift(v, like):
                t = like.th.Empty
                for k, x in I.cell(I.unwrap(v)).content:
                    t = like.th.Put(t, self.map_key_term(I, like, k, node), self.map_val_term(I, like, x, node))
                return VMap(t, like.th, like.kkind, like.vkind)
            a0 = I.ev(node.args[0], frame)
            if isinstance(a0, VOpaque) and a0.label in ('missing', 'field'):
                self.qcount += 1
                return VBool(z3.Const('missing-map!%d' % self.qcount, T.B)) if fn != 'map_get' else a0
            if fn == 'map_eq':
                a1 = I.ev(node.args[1], frame)
                if concrete(a0) and not concrete(a1):
                    m2 = asmap(a1)
                    m = lift(a0, m2)
                elif concrete(a1) and not concrete(a0):
                    m = asmap(a0)
                    m2 = lift(a1, m)
                else:
                    m, m2 = asmap(a0), asmap(a1)
                return VBool(m.t == m2.t)
            if concrete(a0):
                return VBool(self.dict_has(I, I.unwrap(a0), I.ev(node.args[1], frame), node)) if fn == 'contains_key' \
                    else self.dict_get(I, I.unwrap(a0), I.ev(node.args[1], frame), node)
            m = asmap(a0)
            kt = self.map_key_term(I, m, I.ev(node.args[1], frame), node)
            if fn == 'contains_key':
                return VBool(m.th.Has(m.t, kt))
            return self.map_val_wrap(I, m, m.th.Get(m.t, kt))
        if fn == 'mention':
            return VBool(T.MentionI(I.as_int(I.ev(node.args[0], frame))))
        if fn == 'truthy':
            return VBool(I.truthy(I.ev(node.args[0], frame)))
        if fn == 'ext_value':
            # ext_value("package.module.Class.CONSTANT"): the external constant the code reads under that dotted name
            return self.extern_value(self.const_str(I, I.ev(node.args[0], frame)))
        if fn == 'event_callee':
            # event_callee(name, k): the qualified name of the repository function whose call was the k-th event of that name
            # (several opaque functions may share an event name)
            name = self.const_str(I, I.ev(node.args[0], frame))
            k = VInt(I.as_int(I.ev(node.args[1], frame))).const()
            evs = [e for e in I.st.trace if isinstance(e, Event) and e.name == name]
            if k is None or k < 0 or k >= len(evs) or any(isinstance(e, GhostSeg) and e.name == name for e in I.st.trace):
                self.qcount += 1
                return VSeq(z3.Const('missing-callee!%d' % self.qcount, S.sort), 'str')
            q_ = getattr(evs[k], 'callee', None) or ''
            return VSeq(S.lit([ord(c_) for c_ in q_]), 'str')
        if fn == 'event_raised_class':
            # event_raised_class(name, k, "ClassName"): the k-th call of that callee raised an exception of (exactly) that class
            name = self.const_str(I, I.ev(node.args[0], frame))
            k = VInt(I.as_int(I.ev(node.args[1], frame))).const()
            cname = self.const_str(I, I.ev(node.args[2], frame))
            evs = [e for e in I.st.trace if isinstance(e, Event) and e.name == name]
            if any(isinstance(e, GhostSeg) and e.name == name for e in I.st.trace):
                k = None        # summarised events: nothing is known about which of them raised (an unconstrained answer)
            if k is None or k < 0 or k >= len(evs):
                self.qcount += 1
                return VBool(z3.Const('missing-event-raised!%d' % self.qcount, T.B))
            if not getattr(evs[k], 'raised', False) or getattr(evs[k], 'exc_cls', None) is None:
                return VBool(z3.BoolVal(False))
            return VBool(evs[k].exc_cls == self.exc_class_code(cname))
        if fn == 'event_raised':
            # did the k-th call of that callee raise (instead of returning)?
            name = self.const_str(I, I.ev(node.args[0], frame))
            k = VInt(I.as_int(I.ev(node.args[1], frame))).const()
            evs = [e for e in I.st.trace if isinstance(e, Event) and e.name == name]
            if any(isinstance(e, GhostSeg) and e.name == name for e in I.st.trace):
                k = None        # summarised events: an unconstrained answer
            if k is None or k < 0 or k >= len(evs):
                self.qcount += 1
                return VBool(z3.Const('missing-event-raised!%d' % self.qcount, T.B))
            return VBool(z3.BoolVal(bool(getattr(evs[k], 'raised', False))))
        if fn == 'event_result':
            name = self.const_str(I, I.ev(node.args[0], frame))
            kterm = I.as_int(I.ev(node.args[1], frame))
            k = VInt(kterm).const()
            evs = [e for e in I.st.trace if isinstance(e, Event) and e.name == name]
            ghosts = [e for e in I.st.trace if isinstance(e, GhostSeg) and e.name == name]
            order_ = [e for e in I.st.trace if (isinstance(e, Event) or isinstance(e, GhostSeg)) and e.name == name]
            d0_ = self.registry.externs.get(name) or {}
            for dd_ in list(self.registry.externs.values()) + list(self.registry.opaques.values()):
                if dd_.get('event') == name:
                    d0_ = dd_
            rt0_ = d0_.get('returns')
            simple_rt_ = rt0_ is None or rt0_.name in ('Int', 'Bool', 'Opaque', 'Value', 'Str', 'Bytes', 'Latin1')
            if k is None or (simple_rt_ and len(ghosts) == 1 and order_[0] is ghosts[0]):
                # a symbolic index, and / or a trace whose prefix was summarised at a loop cut: the result of the k-th event is
                # an element of a ghost sequence of results (prefix) or one of the results recorded since (case distinction)
                d = self.registry.externs.get(name) or {}
                for dd in list(self.registry.externs.values()) + list(self.registry.opaques.values()):
                    if dd.get('event') == name:
                        d = dd
                rt = d.get('returns')
                rkind = 'int' if rt is not None and rt.name == 'Int' else ('bool' if rt is not None and rt.name == 'Bool' else
                                                                          ('seq' if rt is not None and rt.name in ('Str', 'Bytes', 'Latin1') else 'obj'))
                order = [e for e in I.st.trace if (isinstance(e, Event) or isinstance(e, GhostSeg)) and e.name == name]
                if len(ghosts) > 1 or (ghosts and order[0] is not ghosts[0]):
                    # several summarised segments (a recursive call under contract): nothing is known - an unconstrained value
                    self.qcount += 1
                    if rkind == 'seq':
                        return VSeq(z3.Const('missing-event-res!%d' % self.qcount, S.sort), 'bytes' if rt.name == 'Bytes' else 'str')
                    u_ = z3.Const('missing-event-res!%d' % self.qcount, T.Obj if rkind == 'obj' else z3.IntSort())
                    return VInt(u_) if rkind == 'int' else (VBool(u_ != 0) if rkind == 'bool' else VOpaque(u_, 'missing'))

                def rterm(v):
                    v = I.unwrap(v) if v is not None else NONE
                    if rkind == 'int':
                        return I.as_int(v)
                    if rkind == 'bool':
                        return z3.If(I.truthy(v), z3.IntVal(1), z3.IntVal(0))
                    if rkind == 'seq':
                        return I.seq_of(v, node).t
                    return self.obj_term(I, v, node)
                gt, L = None, z3.IntVal(0)
                if ghosts:
                    g = ghosts[0]
                    L = g.seq.th.Len(g.seq.t)
                    key = 'result'
                    if key not in g.more:
                        th_ = T.SeqO if rkind == 'obj' else (T.SeqS if rkind == 'seq' else T.SeqI)
                        g.more[key] = VSeq(I.fresh('ev_%s_res' % name.replace(':', '_').replace('.', '_'), th_.sort), 'list', th_)
                    gt = g.more[key].th.Idx(g.more[key].t, kterm)
                t = None
                for idx in range(len(evs) - 1, -1, -1):
                    at = rterm(evs[idx].result)
                    t = at if t is None else z3.If(kterm == L + idx, at, t)
                if t is None and gt is None:
                    self.qcount += 1
                    t = z3.Const('missing-event-res!%d' % self.qcount, T.Obj if rkind == 'obj' else (S.sort if rkind == 'seq' else z3.IntSort()))
                elif t is None:
                    t = gt
                elif gt is not None:
                    t = z3.If(kterm < L, gt, t)
                if rkind == 'int':
                    return VInt(t)
                if rkind == 'bool':
                    return VBool(t != 0)
                if rkind == 'seq':
                    return VSeq(t, 'bytes' if rt.name == 'Bytes' else 'str')
                return VOpaque(t, 'eventres')
            if k < 0 or k >= len(evs):
                # no such event on this path: an unconstrained value of the declared type
                d = self.registry.externs.get(name) or {}
                for dd in list(self.registry.externs.values()) + list(self.registry.opaques.values()):
                    if dd.get('event') == name:
                        d = dd
                self.qcount += 1
                rt = d.get('returns') or Ty('Opaque')
                saved = I.st.counter
                v = self.make_symbolic(I, rt, 'missing_event_%d' % self.qcount)
                return v
            return evs[k].result
        if fn == 'loop_k':
            if sp is None or sp.loop is None or sp.loop.get('k') is None:
                raise Unsupported('loop_k() outside a for-loop invariant', node)
            return VInt(sp.loop['k'])
        if fn == 'seq_eq':
            a = I.seq_of(I.ev(node.args[0], frame), node)
            b = I.seq_of(I.ev(node.args[1], frame), node)
            return VBool(a.th.Eq(a.t, b.t))
        if fn == 'exc_get':
            if sp is None or sp.exc is None:
                raise Unsupported('exc_get() outside an exceptional postcondition', node)
            e = sp.exc
            if not hasattr(e, 't'):
                e.t = I.fresh('exc', T.Obj)
            nm = self.const_str(I, I.ev(node.args[0], frame))
            return VOpaque(self.uf('getter.exc.' + nm, T.Obj, T.Obj)(e.t), 'excfield')
        if fn == 'exc_arg':
            if sp is None or sp.exc is None:
                raise Unsupported('exc_arg() outside an exceptional postcondition', node)
            k = VInt(I.as_int(I.ev(node.args[0], frame))).const()
            return sp.exc.args[k] if k < len(sp.exc.args) else VOpaque(z3.Const('missing-excarg', T.Obj), 'missing')
        if fn == 'exc_origin':
            if sp is None or sp.exc is None:
                raise Unsupported('exc_origin() outside an exceptional postcondition', node)
            return I.str_lit(sp.exc.origin or '')
        if fn == 'use':
            self.use_lemma_call(I, node.args[0], frame)
            return NONE
        if fn == 'check':
            I.pure += 1
            try:
                v = I.ev(node.args[0], frame)
            finally:
                I.pure -= 1
            I.prove(I._oblname('check', node.args[0]), 'lemma-step', I.truthy(v), node)
            return NONE
        if fn == 'assume_':
            raise Unsupported('assume is not part of the contract language', node)
        for pl in self.plugins:
            r = pl.spec_form(I, fn, node, frame)
            if r is not NotImplemented:
                return r
        return NotImplemented

    def quantifier(self, I, fn, node, frame):
        rng = node.args[0]
        lam = node.args[1]
        if not isinstance(lam, ast.Lambda):
            raise Unsupported('quantifier body must be a lambda', node)
        self.qcount += 1
        var = lam.args.args[0].arg
        bv = z3.Int('%s!q%d' % (var, self.qcount))
        r = I.ev(rng, frame)
        if not isinstance(r, VRange):
            raise Unsupported('quantifier range must be range(...)', node)
        fr = Frame({var: VInt(bv)}, frame.module, parent=frame, sidecar=frame.sidecar)
        fr.spec = frame.spec
        body = I.truthy(I.ev(lam.body, fr))
        guard = z3.And(r.lo <= bv, bv < r.hi)
        pats = []
        for k in node.keywords:
            if k.arg == 'trigger':
                tl = k.value
                tfr = fr
                pv = I.ev(tl.body if isinstance(tl, ast.Lambda) else tl, tfr)
                pats.append(self.any_term(I, pv))
        if fn == 'forall':
            q = z3.ForAll([bv], z3.Implies(guard, body), patterns=pats) if pats else z3.ForAll([bv], z3.Implies(guard, body))
        else:
            q = z3.Exists([bv], z3.And(guard, body))
        return VBool(q)

    def any_term(self, I, v):
        if isinstance(v, (VInt, VBool, VSeq, VOpaque)):
            return v.t
        raise Unsupported('trigger term')

    def events_seq(self, I, name, node):
        th = self.event_seq_theory(name)
        parts = []
        for e in I.st.trace:
            if isinstance(e, GhostSeg) and e.name == name:
                parts.append(e.seq.t)
            elif isinstance(e, Event) and e.name == name:
                a = e.args[0] if e.args else None
                if a is None:
                    raise Unsupported('event %s has no argument' % name, node)
                parts.append(th.Unit(I.elem_term(th, a, node)))
        return VSeq(th.concat(parts), 'list', th, ekind='bytes')

    def events_count(self, I, name, node):
        n = z3.IntVal(0)
        for e in I.st.trace:
            if isinstance(e, GhostSeg) and e.name == name:
                n = n + e.seq.th.Len(e.seq.t)
            elif isinstance(e, Event) and e.name == name:
                n = n + 1
        return VInt(n)

    def contract_events(self, contract):
        out = []
        for c in contract.of('emits'):
            for a in c.args:
                out.append(a.value)
        return out

    # ---- calls ----------------------------------------------------------------------------------------------------
    def call_mode(self, I, fi):
        key = fi.key
        R = self.registry
        if self.current is not None and self.current.kw.get('callees_as_events') and key in R.opaques:
            return 'opaque'         # this caller's contract is written over its callees as events (each has its own contract elsewhere)
        if key in R.contracts and R.contracts[key].kw.get('opaque_at_calls') and key in R.opaques \
                and (not (self.current is not None and self.current.key == key) or R.contracts[key].of('partial')):
            return 'opaque'         # (a recursive call too, when the contract declares its termination `partial`)         # verified on its own; callers see one event (their contracts speak about that event)
        if key in R.contracts:
            # the function under verification calling itself, or any other function under contract
            if R.contracts[key].kw.get('inline') and not (self.current is not None and self.current.key == key):
                return 'inline'     # verified on its own, but callers execute the real body (results with concrete structure)
            return 'contract'
        if key in R.opaques:
            return 'opaque'
        wk = ('*', '*.' + fi.name)
        if wk in R.opaques and key not in R.inlines:
            R.opaques[key] = R.opaques[wk]      # opaque("*", "*.name", ...): every repository function of that name
            return 'opaque'
        if key in R.inlines:
            return 'inline'
        if fi.name == '__init__' and not fi.node.body:
            return 'inline'
        return None

    def static_callee(self, I, call, frame):
        """Best-effort static resolution of `x.m(...)` for the loop modification analysis."""
        f = call.func
        if not isinstance(f, ast.Attribute):
            return None
        try:
            saved = I.pure
            recv = I.ev(f.value, frame)
        except Exception:
            return None
        recv = recv.val if isinstance(recv, VOpt) else recv
        if I.is_obj(recv):
            c = I.cell(recv)
            if c.cls is None:
                return ('opaque', f.attr)
            m = c.cls.find_method(self.repo, f.attr)
            if m is None:
                return ('opaque', f.attr)
            mode = self.call_mode(I, m)
            if mode == 'contract':
                return ('contract', (self.registry.contracts[m.key], f.value))
            if mode == 'opaque':
                return ('opaque', self.registry.opaques[m.key].get('event', m.name))
            if mode == 'inline':
                return ('inline', m)
            return None
        if isinstance(recv, VOpaque):
            return ('opaque', ('%s.%s' % (recv.label, f.attr)) if recv.label else f.attr)
        return None

    def eval_pre(self, I, expr, env, sidecar, old_state, entry_env):
        """Evaluate a `when` condition: it speaks about the state at entry."""
        saved = I.st
        tmp = old_state.snapshot()
        tmp.counter = saved.counter + 200000
        I.st = tmp
        try:
            return self.eval_spec(I, expr, dict(entry_env), sidecar, old_state, entry_env)
        finally:
            I.st = saved

    def eval_spec(self, I, expr, env, sidecar, old_state, entry_env, result=None, has_result=False, exc=None):
        fr = Frame(env, None, sidecar=sidecar)
        fr.spec = SpecCtx(old_state=old_state, entry_env=entry_env, result=result, has_result=has_result, exc=exc)
        I.pure += 1
        try:
            return I.ev(expr, fr)
        finally:
            I.pure -= 1

    def static_ordinal(self, I, node):
        fi = self.current_fi
        if fi is None or node is None:
            return 0
        try:
            txt = ast.unparse(node)
        except Exception:
            return 0
        k = 0
        for n in ast.walk(fi.node):
            if isinstance(n, ast.Call):
                if n is node:
                    return k
                try:
                    if ast.unparse(n) == txt:
                        k += 1
                except Exception:
                    pass
        return k

    def apply_contract(self, I, contract, fi, self_val, args, kwargs, node):
        mframe = Frame({}, fi.module, fi.cls)
        sv = self_val if not fi.is_static else None
        env = I.bind_args(fi.node, args, kwargs, node, self_val=sv, frame_for_defaults=mframe, qual=fi.qualname)
        cp = [p for p, _ in contract.params]
        fp = [a.arg for a in fi.node.args.args]
        if cp != fp:
            raise Unsupported('contract parameters %r do not match %s%r' % (cp, fi.qualname, fp), node)
        if contract.assumed:
            self.assumed_contracts_used.add(contract.key)
        # values of unverified libraries (opaque) passed where the contract expects an int / byte string: viewed as such
        for p_, ty_ in contract.params:
            v_ = env.get(p_)
            if isinstance(v_, VOpaque) and v_.label != 'missing':
                if ty_.name in ('Int', 'Nat'):
                    env[p_] = VInt(self.obj_int(v_.t))
                elif ty_.name in ('Bytes', 'Str', 'IntSeq'):
                    env[p_] = VSeq(self.uf('obj_bytes', T.Obj, S.sort)(v_.t), 'str' if ty_.name == 'Str' else 'bytes')
        pre = I.st.snapshot()
        entry_env = dict(env)
        callee = fi.qualname
        caller_trace = I.st.trace
        local_trace = self.callee_trace(I, contract)

        def in_callee():
            I.st.trace = list(local_trace)

        def back():
            I.st.trace = caller_trace + local_trace
        try:
            call_txt = ast.unparse(node)[:50] if node is not None else ''
        except Exception:
            call_txt = ''
        tag = '%s#%d' % (call_txt, self.static_ordinal(I, node))
        # dynamic type checks of the arguments against the contract's parameter types
        self.check_arg_types(I, contract, env, node, tag)
        for k, c in enumerate(contract.of('requires')):
            v = self.eval_spec(I, c.args[0], env, contract.sidecar, pre, entry_env)
            I.prove('%s:pre:%s.%d[%s]' % (I.cur_func, callee, k + 1, tag), 'precondition', I.truthy(v), node)
        # termination of recursion
        if self.current is not None and contract.key == self.current.key and I.depth == 0:
            decs = contract.of('decreases')
            if contract.of('partial'):
                self.assumptions.add('termination of the recursion of %s is NOT proved (partial correctness): %s'
                                     % (callee, contract.of('partial')[0].args[0].value))
            elif not decs:
                I.prove('%s:decreases-given:%s' % (I.cur_func, callee), 'termination', False, node)
            for c in decs:
                m_new = I.as_int(self.eval_spec(I, c.args[0], env, contract.sidecar, pre, entry_env))
                ent = I.entry
                m_old = I.as_int(self.eval_spec(I, c.args[0], dict(ent.entry_env), contract.sidecar, ent.old_state, ent.entry_env))
                saved = I.st
                I.prove('%s:decreases:%s[%s]' % (I.cur_func, callee, tag), 'termination', z3.And(m_new >= 0, m_new < m_old), node)
        # exceptional behaviours
        for k, c in enumerate(contract.of('raises')):
            kw = {x.arg: x.value for x in c.keywords}
            ename = ast.unparse(c.args[0])
            if 'when' in kw:
                cond = I.truthy(self.eval_spec(I, kw['when'], env, contract.sidecar, pre, entry_env))
                takes = I.branch(cond)
            else:
                takes = I.branch(I.fresh_bool('raises_%s' % callee.replace('.', '_')))
            if takes:
                self.apply_modifies(I, contract, env)
                in_callee()
                if 'ensures' in kw:
                    v = self.eval_spec(I, kw['ensures'], env, contract.sidecar, pre, entry_env)
                    I.assume(I.truthy(v))
                back()
                raise PyExc(VExc(ename.split('.')[-1] if ename.split('.')[-1] in BUILTIN_EXC else ename, origin='contract of ' + callee))
        for k, c in enumerate(contract.of('propagates')):
            kw = {x.arg: x.value for x in c.keywords}
            name = c.args[0].value
            if I.branch(I.fresh_bool('prop_%s' % name)):
                self.apply_modifies(I, contract, env)
                in_callee()
                if 'ensures' in kw:
                    v = self.eval_spec(I, kw['ensures'], env, contract.sidecar, pre, entry_env)
                    I.assume(I.truthy(v))
                back()
                raise PyExc(VExc('opaque:' + name, origin=name))
        # frame + result
        self.apply_modifies(I, contract, env)
        res = NONE
        if contract.ret is not None and contract.ret.name != 'NoneT':
            if contract.kw.get('pure'):
                res = self.pure_result(I, fi.qualname, contract, [env[p] for p, _ in contract.params], node)
            else:
                res = self.make_symbolic(I, contract.ret, 'r_' + fi.name)
        in_callee()
        pc_before = list(I.st.pc)
        dead = False
        try:
            for c in contract.of('ensures'):
                try:
                    v = self.eval_spec(I, c.args[0], env, contract.sidecar, pre, entry_env, result=res, has_result=True)
                except Unsupported as e_:
                    # a post-condition that cannot be expressed over the caller's (summarised) view of the callee's events is simply not
                    # used at this call site: the caller learns less, never more
                    note_ = 'post-condition of %s not usable at a call site (%s)' % (contract.qualname, e_.msg[:80])
                    if note_ not in self.notes:
                        self.notes.append(note_)
                    continue
                I.assume(I.truthy(v))
        except PathEnd:
            dead = True
        # vacuity guard: the post-condition of a verified callee cannot contradict a feasible caller state; if it does, the
        # contract (or its instantiation over the ghost trace) is wrong and everything after the call would hold vacuously
        if contract.of('ensures') and not contract.assumed and (dead or not prover.feasible(self.axioms(True), I.st.pc, z3.BoolVal(True), timeout_ms=500)):
            if prover.feasible(self.axioms(True), pc_before, z3.BoolVal(True), timeout_ms=500):
                name = '%s:vacuity:call-consistent[%s]' % (I.cur_func, fi.qualname)
                if name not in self.__dict__.setdefault('_call_vacuous', set()):
                    self._call_vacuous.add(name)
                    self.record(Obligation(name, I.cur_func, 'vacuity', 'failed', 'z3-5.1.0(cover)', 0.0, [],
                                           'assuming the post-condition of %s at this call site makes the path infeasible: the rest of the '
                                           'caller would be verified vacuously' % fi.qualname))
        if dead:
            raise PathEnd()
        back()
        return res

    def check_arg_types(self, I, contract, env, node, tag):
        for p, ty in contract.params:
            v = env[p]
            ok = self.type_matches(I, v, ty)
            if ok is False:
                I.prove('%s:argtype:%s.%s[%s]' % (I.cur_func, contract.qualname, p, tag), 'precondition', False, node,
                        detail='argument %s=%r is not of contract type %r' % (p, v, ty))

    def type_matches(self, I, v, ty):
        n = ty.name
        if n in ('Any',):
            return True
        if isinstance(v, VOpt):
            if n == 'Opt':
                return self.type_matches(I, v.val, ty.args[0])
            return None     # decided by the requires clauses
        if n == 'Opt':
            if isinstance(v, VNone):
                return True
            return self.type_matches(I, v, ty.args[0])
        if n in ('Int', 'Nat', 'Byte'):
            return isinstance(v, (VInt, VBool))
        if n == 'Bool':
            return isinstance(v, VBool)
        if n in ('Str', 'Latin1'):
            return isinstance(v, VSeq) and v.kind == 'str'
        if n == 'Bytes':
            return isinstance(v, VSeq) and v.kind == 'bytes'
        if n in ('ListInt', 'ListByte', 'ListBytes', 'ListObj', 'ListStr'):
            return I.is_list(v) and I.cell(v).kind == 'list'
        if n == 'IntSeq':
            if isinstance(v, VSeq):
                return v.th is S and v.kind in ('bytes', 'bytearray', 'list', 'tuple')
            if I.is_list(v):
                c = I.cell(v).content
                return (isinstance(c, VSeq) and c.th is S) or (isinstance(c, list) and all(isinstance(x, VInt) for x in c))
            return False
        if n == 'ByteArray':
            return I.is_list(v) and I.cell(v).kind == 'bytearray'
        if n == 'NoneT':
            return isinstance(v, VNone)
        return True

    def apply_modifies(self, I, contract, env):
        for m in contract.of('modifies'):
            for a in m.args:
                if isinstance(a, ast.Name):
                    v = I.unwrap(env[a.id])
                    if isinstance(v, VRef) and (I.is_list(v) or I.is_dict(v)):
                        I.havoc_ref(v, hint=self.elem_hint(contract, a.id))
                    elif isinstance(v, VNone):
                        pass
                    else:
                        raise Unsupported('modifies(%s): not a mutable heap value' % a.id)
                elif isinstance(a, ast.Attribute) and isinstance(a.value, ast.Attribute) and isinstance(a.value.value, ast.Name):
                    outer = I.unwrap(env[a.value.value.id])
                    obj = I.unwrap(I.cell(outer).fields[a.value.attr])
                    c = I.cell(obj)
                    cur = c.fields.get(a.attr)
                    if cur is None:
                        raise Unsupported('modifies(%s): unknown field' % ast.unparse(a))
                    if isinstance(cur, VMap):
                        nm = VMap(I.fresh('hv_' + a.attr, cur.th.sort), cur.th, cur.kkind, cur.vkind)
                        I.st.heap[obj.loc] = c.set(a.attr, nm)
                    elif isinstance(cur, VRef) and (I.is_list(cur) or I.is_dict(cur)):
                        I.havoc_ref(cur)
                    else:
                        I.st.heap[obj.loc] = c.set(a.attr, self.loops.havoc_value(I, cur, a.attr))
                elif isinstance(a, ast.Attribute) and isinstance(a.value, ast.Name) and a.value.id not in env:
                    # modifies(Class._Class__attr): process-wide class-level state
                    key_ = self.class_attr_key(a)
                    cur = I.st.heap.get(key_)
                    if cur is None:
                        cur = I.getattr(VClass(self.find_class_by_name(a.value.id)), a.attr, a, Frame({}, None))
                    I.st.heap[key_] = self.loops.havoc_value(I, cur, a.attr)
                elif isinstance(a, ast.Attribute) and isinstance(a.value, ast.Name):
                    obj = I.unwrap(env[a.value.id])
                    c = I.cell(obj)
                    cur = c.fields.get(a.attr)
                    if cur is None:
                        raise Unsupported('modifies(%s): unknown field' % ast.unparse(a))
                    if isinstance(cur, VRef) and (I.is_list(cur) or I.is_dict(cur)):
                        I.havoc_ref(cur)
                    else:
                        I.st.heap[obj.loc] = c.set(a.attr, self.loops.havoc_value(I, cur, a.attr))
                else:
                    raise Unsupported('modifies clause form')

    def class_attr_key(self, a):
        ci = self.find_class_by_name(a.value.id)
        if ci is None:
            raise Unsupported('modifies(%s): unknown class' % ast.unparse(a))
        return ('classvar', ci.name, a.attr)

    def check_frame(self, I, contract, env, pre, q):
        """Frame obligations: what the contract does not list under modifies(...) is unchanged at normal exit
        (a caller havocs only what is listed, so an unlisted change would be unsound at every call site)."""
        mod = set()
        for m in contract.of('modifies'):
            for a in m.args:
                mod.add(ast.unparse(a))

        def same(cur_v, old_v, cur_heap, old_heap, path, depth):
            if path in mod:
                return
            if isinstance(cur_v, VOpt):
                cur_v = cur_v.val
            if isinstance(old_v, VOpt):
                old_v = old_v.val
            if isinstance(old_v, VRef) and isinstance(cur_v, VRef):
                oc, cc = old_heap.get(old_v.loc), cur_heap.get(cur_v.loc)
                if isinstance(oc, HObj) and isinstance(cc, HObj):
                    if depth >= 2:
                        return
                    for f, ov in oc.fields.items():
                        if f in cc.fields:
                            same(cc.fields[f], ov, cur_heap, old_heap, path + '.' + f, depth + 1)
                    return
                if isinstance(oc, HList) and isinstance(cc, HList):
                    if oc is cc:
                        return
                    a = oc.content if isinstance(oc.content, VSeq) else I.list_to_seq(oc.content, oc.kind)
                    b = cc.content if isinstance(cc.content, VSeq) else I.list_to_seq(cc.content, cc.kind)
                    if a is None or b is None or a.th is not b.th:
                        I.prove('%s:frame[%s]' % (q, path), 'frame', oc.content is cc.content, contract.node,
                                detail='%s is modified but not listed under modifies(...)' % path)
                    else:
                        I.prove('%s:frame[%s]' % (q, path), 'frame', a.t == b.t, contract.node,
                                detail='%s is modified but not listed under modifies(...)' % path)
                    return
                if isinstance(oc, HDict) and isinstance(cc, HDict):
                    if oc is cc:
                        return
                    if isinstance(oc.content, VMap) and isinstance(cc.content, VMap):
                        I.prove('%s:frame[%s]' % (q, path), 'frame', oc.content.t == cc.content.t, contract.node,
                                detail='%s is modified but not listed under modifies(...)' % path)
                    else:
                        I.prove('%s:frame[%s]' % (q, path), 'frame', False, contract.node,
                                detail='%s is modified (dict rebuilt) but not listed under modifies(...)' % path)
                    return
                return
            if isinstance(cur_v, VMap) and isinstance(old_v, VMap):
                if depth > 0 and not z3.eq(cur_v.t, old_v.t):
                    I.prove('%s:frame[%s]' % (q, path), 'frame', cur_v.t == old_v.t, contract.node,
                            detail='%s is modified but not listed under modifies(...)' % path)
                return
            if type(cur_v) is type(old_v) and isinstance(cur_v, (VInt, VBool, VSeq, VOpaque)):
                if depth == 0:
                    return          # a rebound parameter is local
                t = getattr(cur_v, 't', None)
                if t is not None and not z3.eq(t, old_v.t):
                    I.prove('%s:frame[%s]' % (q, path), 'frame', cur_v.t == old_v.t, contract.node,
                            detail='%s is modified but not listed under modifies(...)' % path)
                return
            if depth > 0 and (type(cur_v) is not type(old_v)) and not (isinstance(cur_v, VNone) and isinstance(old_v, VNone)):
                I.prove('%s:frame[%s]' % (q, path), 'frame', False, contract.node,
                        detail='%s changes its kind of value but is not listed under modifies(...)' % path)
        for p, _ in contract.params:
            same(env[p], env[p], I.st.heap, pre.heap, p, 0)
        # class-level state written by the function (self.__class__.x = ..., Class.x += 1) is process-wide: it has to be declared too
        for key_, cur_v in list(I.st.heap.items()):
            if isinstance(key_, tuple) and key_ and key_[0] == 'classvar':
                path = '%s.%s' % (key_[1], key_[2])
                if path in mod:
                    continue
                old_v = pre.heap.get(key_)
                t = getattr(cur_v, 't', None)
                if old_v is None:
                    # first touched during the call: its entry value is the named constant of epoch 0 (class_attr_entry_value)
                    nm = 'classattr@%d!%s.%s' % (I.st.__dict__.get('class_epoch', 0), key_[1], key_[2])
                    if t is not None and str(t) != nm:
                        I.prove('%s:frame[%s]' % (q, path), 'frame', t == z3.Const(nm, t.sort()), contract.node,
                                detail='class attribute %s is written but not listed under modifies(...)' % path)
                elif t is not None and getattr(old_v, 't', None) is not None and not z3.eq(t, old_v.t):
                    I.prove('%s:frame[%s]' % (q, path), 'frame', t == old_v.t, contract.node,
                            detail='class attribute %s is written but not listed under modifies(...)' % path)

    def elem_hint(self, contract, pname):
        for p, ty in contract.params:
            if p == pname:
                return {'ListInt': 'int', 'ListByte': 'int', 'ByteArray': 'int', 'ListBytes': 'seq', 'ListStr': 'seq', 'ListObj': 'obj'}.get(ty.name)
        return None

    # ---- lemmas ----------------------------------------------------------------------------------------------------------
    def use_lemma_call(self, I, call, frame):
        """`use(lemma(args))`: prove its requires, assume its ensures (an explicit instantiation)."""
        if not (isinstance(call, ast.Call) and isinstance(call.func, ast.Name) and call.func.id in self.registry.lemmas):
            raise Unsupported('use(...) expects a lemma call', call)
        lem = self.registry.lemmas[call.func.id]
        I.pure += 1
        try:
            args = [I.ev(a, frame) for a in call.args]
        finally:
            I.pure -= 1
        env = {}
        for (p, ty), a in zip(lem.params, args):
            env[p] = self.coerce(I, a, ty)
        reqs, enss, decs = self.lemma_clauses(lem)
        for k, r in enumerate(reqs):
            v = self.eval_spec(I, r, env, lem.sidecar, None, None)
            I.prove('%s:lemma-pre:%s.%d[%s]' % (I.cur_func, lem.name, k + 1, ast.unparse(call)[:40]), 'precondition', I.truthy(v), call)
        cur = getattr(I, 'current_lemma', None)
        if cur is not None and cur.name == lem.name:
            if not decs:
                I.prove('%s:lemma-decreases-given' % I.cur_func, 'termination', False, call)
            for d in decs:
                m_new = I.as_int(self.eval_spec(I, d, env, lem.sidecar, None, None))
                m_old = I.as_int(self.eval_spec(I, d, dict(I.lemma_entry_env), lem.sidecar, None, None))
                I.prove('%s:lemma-decreases[%s]' % (I.cur_func, ast.unparse(call)[:40]), 'termination',
                        z3.And(m_new >= 0, m_new < m_old), call)
        elif lem.name not in self.proved_lemmas and not lem.kw.get('assumed'):
            # only lemmas proved earlier (file order) may be used: no circularity
            raise Unsupported('lemma %s used before it is proved' % lem.name, call)
        for e in enss:
            v = self.eval_spec(I, e, env, lem.sidecar, None, None)
            I.assume(I.truthy(v))

    def coerce(self, I, a, ty):
        n = ty.name
        if n in SORT_OF and n not in ('Int', 'Bool', 'Opaque'):
            t = self.to_term(I, a, ty)
            return self.from_term(I, t, ty)
        return a

    def lemma_clauses(self, lem):
        reqs, enss, decs = [], [], []
        for st in lem.node.body:
            if isinstance(st, ast.Expr) and isinstance(st.value, ast.Call) and isinstance(st.value.func, ast.Name):
                fn = st.value.func.id
                if fn == 'requires':
                    reqs.append(st.value.args[0])
                elif fn == 'ensures':
                    enss.append(st.value.args[0])
                elif fn == 'decreases':
                    decs.append(st.value.args[0])
        return reqs, enss, decs

    proved_lemmas = set()

    def lemma_stmt(self, I, st, fr):
        """Lemma bodies: `if` (case split), use(...), check(...), local definitions."""
        if isinstance(st, ast.If):
            I.pure += 1
            try:
                c = I.truthy(I.ev(st.test, fr))
            finally:
                I.pure -= 1
            for s2 in (st.body if I.branch(c) else st.orelse):
                self.lemma_stmt(I, s2, fr)
            return
        if isinstance(st, ast.Assign) and len(st.targets) == 1 and isinstance(st.targets[0], ast.Name):
            I.pure += 1
            try:
                fr.env[st.targets[0].id] = I.ev(st.value, fr)
            finally:
                I.pure -= 1
            return
        if isinstance(st, ast.Expr) and isinstance(st.value, ast.Call):
            I.ev(st.value, fr)
            return
        if isinstance(st, ast.Pass) or (isinstance(st, ast.Expr) and isinstance(st.value, ast.Constant)):
            return
        raise Unsupported('statement in lemma body', st)

    def lemma_axiom(self, lem):
        """Export a proved lemma as a quantified axiom, if it declares triggers."""
        trigs = []
        for st in lem.node.body:
            if isinstance(st, ast.Expr) and isinstance(st.value, ast.Call) and isinstance(st.value.func, ast.Name) \
                    and st.value.func.id == 'trigger':
                trigs.append(st.value.args)
        if not trigs:
            return None
        I = Interp(self)
        I.pure = 1
        I.active_contract = None
        env = {}
        vars_ = []
        for p, ty in lem.params:
            c = z3.Const('l_' + p, self.sort_of(ty))
            vars_.append(c)
            env[p] = self.from_term(I, c, ty)
        reqs, enss, _ = self.lemma_clauses(lem)
        fr = Frame(env, None, sidecar=lem.sidecar)
        fr.spec = SpecCtx()
        rq = [I.truthy(I.ev(r, fr)) for r in reqs]
        en = [I.truthy(I.ev(e, fr)) for e in enss]
        pats = []
        for tl in trigs:
            ts = [self.any_term(I, I.ev(t, fr)) for t in tl]
            pats.append(z3.MultiPattern(*ts) if len(ts) > 1 else ts[0])
        body = z3.Implies(z3.And(*rq) if rq else z3.BoolVal(True), z3.And(*en))
        return z3.ForAll(vars_, body, patterns=pats)

    def verify_lemma(self, lem):
        rep = FunctionReport(('lemma', lem.name))
        self.reports[rep.key] = rep
        t0 = time.time()
        if lem.kw.get('assumed'):
            self.assumptions.add('lemma %s is assumed: %s' % (lem.name, lem.kw.get('reason', '')))
        else:
            work = [[]]
            while work:
                dec = work.pop()
                rep.paths += 1
                if rep.paths > self.max_paths:
                    rep.unsupported.append('path limit')
                    break
                I = Interp(self)
                I.decisions = dec
                I.cur_func = 'lemma ' + lem.name
                I.active_contract = None
                I.current_lemma = lem
                try:
                    env = {}
                    for p, ty in lem.params:
                        env[p] = self.make_symbolic(I, ty, p)
                        if isinstance(env[p], VRef) and not I.is_obj(env[p]):
                            env[p] = I.seq_of(env[p])
                    I.lemma_entry_env = dict(env)
                    reqs, enss, decs = self.lemma_clauses(lem)
                    for r in reqs:
                        I.assume(I.truthy(self.eval_spec(I, r, env, lem.sidecar, None, None)))
                    if not dec:
                        ok = prover.feasible(self.axioms(), I.st.pc, z3.BoolVal(True), timeout_ms=3000)
                        self.record(Obligation('lemma %s:vacuity:requires-satisfiable' % lem.name, 'lemma ' + lem.name, 'vacuity',
                                               'discharged' if ok else 'failed', 'z3-5.1.0(cover)', 0.0, [],
                                               '' if ok else 'contradictory hypotheses'))
                    fr = Frame(env, None, sidecar=lem.sidecar)
                    fr.spec = SpecCtx()
                    for st in lem.node.body:
                        if isinstance(st, ast.Expr) and isinstance(st.value, ast.Call) and isinstance(st.value.func, ast.Name) \
                                and st.value.func.id in ('requires', 'ensures', 'decreases', 'trigger'):
                            continue
                        if isinstance(st, ast.Expr) and isinstance(st.value, ast.Constant):
                            continue
                        self.lemma_stmt(I, st, fr)
                    for k, e in enumerate(enss):
                        v = self.eval_spec(I, e, fr.env, lem.sidecar, None, None)
                        I.prove('lemma %s:ensures#%d' % (lem.name, k + 1), 'lemma', I.truthy(v), e)
                except PathEnd:
                    pass
                except ReturnSig:
                    pass
                except Unsupported as e:
                    rep.unsupported.append(str(e))
                except PyExc as e:
                    rep.unsupported.append('exception in lemma body: %r' % e.exc)
                work += I.pending
        rep.secs = time.time() - t0
        ok = not rep.unsupported and all(o.status == 'discharged' for o in self.obligations if o.func == 'lemma ' + lem.name)
        if ok or lem.kw.get('assumed'):
            self.proved_lemmas = set(self.proved_lemmas) | {lem.name}
            ax = self.lemma_axiom(lem)
            if ax is not None:
                self.lemma_axioms.append(ax)
        return rep

    # ---- function verification ----------------------------------------------------------------------------------------------
    def verify_function(self, contract):
        rep = FunctionReport(contract.key)
        self.reports[contract.key] = rep
        if contract.file == '<ext>':
            return rep
        if contract.file == '<scenario>':
            fi = self.scenario_func(contract)
        else:
            fi = self.repo.func(contract.file, contract.qualname)
        t0 = time.time()
        if fi is None:
            rep.missing = True
            rep.unsupported.append('function %s:%s not found in the working tree' % contract.key)
            return rep
        rep.source_hash = fi.source_hash()
        if contract.assumed or contract.file == '<ext>':
            return rep
        self.current = contract
        self.current_fi = fi
        work = [[]]
        restarts = 0
        while work:
            dec = work.pop()
            rep.paths += 1
            if rep.paths > int(contract.kw.get('max_paths', self.max_paths)):
                rep.unsupported.append('path limit %d exceeded' % int(contract.kw.get('max_paths', self.max_paths)))
                break
            I = Interp(self)
            I.decisions = dec
            I.cur_func = fi.qualname
            I.active_contract = contract
            I.handlers = []
            try:
                self.run_path(I, contract, fi)
                if os.environ.get('PYVC_PATHLOG'):
                    print('PATH normal-end decisions=%s events=%s' % (''.join('1' if d else '0' for d in I.decisions[:I.dpos]),
                                                                    [getattr(e, 'name', '?') for e in I.st.trace][-12:]))
            except PathEnd as pe_:
                if os.environ.get('PYVC_PATHLOG'):
                    print('PATH pathend decisions=%s events=%s' % (''.join('1' if d else '0' for d in I.decisions[:I.dpos]),
                                                                  [getattr(e, 'name', '?') for e in I.st.trace][-12:]))
            except RestartFunction as e:
                # start the exploration of this function again: what was recorded for it so far is void
                restarts += 1
                if restarts > 40:
                    rep.unsupported.append('too many restarts: ' + str(e))
                    break
                self.obligations = [o for o in self.obligations if o.func != fi.qualname]
                for k_ in [k_ for k_ in self.__dict__.get('fail_counts', {}) if k_.startswith(fi.qualname + ':')]:
                    del self.fail_counts[k_]
                rep.paths = 0
                rep.live_paths = 0
                rep.ante_live = {}
                rep.loop_exit_live = {}
                rep.unsupported = []
                note_ = '%s: %s (restarted)' % (fi.qualname, e.msg)
                if note_ not in self.notes:
                    self.notes.append(note_)
                work = [[]]
                continue
            except Unsupported as e:
                msg = str(e)
                if msg not in rep.unsupported:
                    rep.unsupported.append(msg)
            except RecursionError:
                rep.unsupported.append('interpreter recursion limit')
            self.inlined |= I.inlined_used
            self.opaque_seen |= {('repo', k) for k in I.opaque_used}
            work += I.pending
        self.current = None
        self.current_fi = None
        if not rep.unsupported and os.environ.get('PYVC_ANTE', 'enforce') != 'off':
            for k_, live_ in sorted(getattr(rep, 'ante_live', {}).items()):
                if not live_:
                    if os.environ.get('PYVC_ANTE') == 'report':
                        print('ANTECEDENT-DEAD %s post#%d' % (fi.qualname, k_))
                    else:
                        self.record(Obligation('%s:vacuity:antecedent[post#%d]' % (fi.qualname, k_), fi.qualname, 'vacuity', 'failed',
                                               'z3-5.1.0(cover)', 0.0, [],
                                               'the antecedent of this conditional post-condition is impossible on every path that reaches '
                                               'the exit: the clause holds vacuously'))
                else:
                    self.record(Obligation('%s:vacuity:antecedent[post#%d]' % (fi.qualname, k_), fi.qualname, 'vacuity', 'discharged',
                                           'z3-5.1.0(cover)', 0.0, [], ''))
        if not rep.unsupported and os.environ.get('PYVC_ANTE', 'enforce') != 'off':
            for key_, live_ in sorted(getattr(rep, 'loop_exit_live', {}).items()):
                if os.environ.get('PYVC_ANTE') == 'report':
                    if not live_:
                        print('LOOP-EXIT-DEAD %s' % key_)
                    continue
                self.record(Obligation('%s:vacuity:loop-exit' % key_.replace('#', ':'), fi.qualname, 'vacuity', 'discharged' if live_ else 'failed',
                                       'z3-5.1.0(cover)', 0.0, [],
                                       '' if live_ else 'no run of at least one iteration can leave this loop: everything proved after it holds vacuously'))
        if not rep.unsupported:
            live = getattr(rep, 'live_paths', 0)
            self.record(Obligation('%s:vacuity:live-path' % fi.qualname, fi.qualname, 'vacuity',
                                   'discharged' if live > 0 else 'failed', 'z3-5.1.0(cover)', 0.0, [],
                                   '' if live else 'no feasible path reaches an exit of the function'))
        rep.secs = time.time() - t0
        return rep

    def scenario_func(self, contract):
        class _M:
            relpath = '<scenario>'
            source = contract.sidecar.source
            package = ''

            def lookup(self_, repo, name, _depth=0):
                return self.find_class_by_name(name)        # a scenario names repository classes directly
        node = ast.FunctionDef(name=contract.node.name, args=contract.node.args, body=list(contract.body) or [ast.Pass()],
                               decorator_list=[], returns=None)
        ast.copy_location(node, contract.node)
        ast.fix_missing_locations(node)
        return FuncInfo(_M(), None, node)

    def run_path(self, I, contract, fi):
        fp = [a.arg for a in fi.node.args.args]
        cp = [p for p, _ in contract.params]
        if cp != fp:
            raise Unsupported('contract parameters %r do not match the function signature %r' % (cp, fp))
        env = {}
        for p, ty in contract.params:
            env[p] = self.make_symbolic(I, ty, p)
        pre0 = I.st.snapshot()
        for c in contract.of('requires'):
            v = self.eval_spec(I, c.args[0], env, contract.sidecar, pre0, dict(env))
            I.assume(I.truthy(v))
        pre = I.st.snapshot()
        entry_env = dict(env)
        I.entry = SpecCtx(old_state=pre, entry_env=entry_env)
        if not I.decisions:
            # vacuity cover: the precondition (with the parameter type invariants) must be satisfiable
            ok = prover.feasible(self.axioms(), I.st.pc, z3.BoolVal(True), timeout_ms=3000)
            self.record(Obligation('%s:vacuity:requires-satisfiable' % fi.qualname, fi.qualname, 'vacuity',
                                   'discharged' if ok else 'failed', 'z3-5.1.0(cover)', 0.0, [],
                                   '' if ok else 'the precondition is contradictory: every obligation of this function would hold vacuously'))
        frame = Frame(dict(env), fi.module, fi.cls, fi)
        for c in contract.of('hint'):
            fr = Frame(dict(env), None, sidecar=contract.sidecar)
            fr.spec = SpecCtx(old_state=pre, entry_env=entry_env)
            self.use_lemma_call(I, c.args[0], fr)
        result = NONE
        exc = None
        try:
            I.ex_block(fi.node.body, frame)
        except ReturnSig as r:
            result = r.value
        except PyExc as pe:
            exc = pe.exc
        q = fi.qualname
        if contract.file == '<scenario>':
            env = dict(env)
            env.update({k: v for k, v in frame.env.items() if not k.startswith('$')})      # the scenario's locals are its vocabulary
        if os.environ.get('PYVC_TRACE'):
            print('PATH', q, 'decisions', list(I.decisions), 'exc', exc and (exc.cls, exc.origin), 'events',
                  [getattr(e, 'name', '?') for e in I.st.trace])
        if prover.feasible(self.axioms(True), I.st.pc, z3.BoolVal(True), timeout_ms=1000):
            self.reports[contract.key].live_paths = getattr(self.reports[contract.key], 'live_paths', 0) + 1
        if exc is None:
            for c in contract.of('hint_exit'):
                fr = Frame(dict(env), None, sidecar=contract.sidecar)
                fr.spec = SpecCtx(old_state=pre, entry_env=entry_env, result=result, has_result=True)
                self.use_lemma_call(I, c.args[0], fr)
            if contract.ret is not None:
                ok = self.type_matches(I, result, contract.ret)
                if ok is False:
                    I.prove('%s:result-type' % q, 'postcondition', False, fi.node, detail='returned %r, contract says %r' % (result, contract.ret))
            ante = self.reports[contract.key].__dict__.setdefault('ante_live', {})
            # (the covers first, all of them: a failed post-condition is assumed afterwards and would make the later ones look dead)
            for k, c in enumerate(contract.of('ensures')):
                e0 = c.args[0]
                if isinstance(e0, ast.Call) and isinstance(e0.func, ast.Name) and e0.func.id == 'implies' and len(e0.args) == 2 \
                        and not ante.get(k + 1):
                    # vacuity cover behind each conditional post-condition: its antecedent must be possible on SOME path that reaches
                    # the exit (otherwise the clause holds for the wrong reason: dead exit path, contradictory invariant, typo)
                    try:
                        a_ = I.truthy(self.eval_spec(I, e0.args[0], env, contract.sidecar, pre, entry_env, result=result, has_result=True))
                        ante[k + 1] = bool(ante.get(k + 1)) or prover.feasible(self.axioms(True), I.st.pc, a_, timeout_ms=1000)
                    except Unsupported:
                        ante[k + 1] = True
            for k, c in enumerate(contract.of('ensures')):
                v = self.eval_spec(I, c.args[0], env, contract.sidecar, pre, entry_env, result=result, has_result=True)
                I.prove('%s:post#%d' % (q, k + 1), 'postcondition', I.truthy(v), c)
            self.check_frame(I, contract, env, pre, q)
            for k, c in enumerate(contract.of('raises')):
                kw = {x.arg: x.value for x in c.keywords}
                if 'when' in kw and not any(x.arg == 'may' for x in c.keywords):
                    cond = I.truthy(self.eval_pre(I, kw['when'], env, contract.sidecar, pre, entry_env))
                    I.prove('%s:raises#%d:must-raise' % (q, k + 1), 'exceptional', z3.Not(cond), c)
        else:
            matched = False
            if exc.cls.startswith('opaque:'):
                oname = exc.cls[len('opaque:'):]
                for k, c in enumerate(contract.of('propagates')):
                    if c.args[0].value == oname or c.args[0].value == '*':
                        matched = True
                        kw = {x.arg: x.value for x in c.keywords}
                        if 'ensures' in kw:
                            v = self.eval_spec(I, kw['ensures'], env, contract.sidecar, pre, entry_env, exc=exc)
                            I.prove('%s:propagates#%d:ensures' % (q, k + 1), 'exceptional', I.truthy(v), c)
            else:
                conds = []
                for k, c in enumerate(contract.of('raises')):
                    nm = ast.unparse(c.args[0])
                    if self.exc_isinstance(exc.cls, nm.split('.')[-1]) or self.exc_isinstance(exc.cls, nm):
                        matched = True
                        kw = {x.arg: x.value for x in c.keywords}
                        cond = z3.BoolVal(True)
                        if 'when' in kw:
                            cond = I.truthy(self.eval_pre(I, kw['when'], env, contract.sidecar, pre, entry_env))
                        conds.append(cond)
                        if 'ensures' in kw:
                            v = self.eval_spec(I, kw['ensures'], env, contract.sidecar, pre, entry_env, exc=exc)
                            I.prove('%s:raises#%d:ensures' % (q, k + 1), 'exceptional', z3.Implies(cond, I.truthy(v)), c)
                if matched:
                    I.prove('%s:raises:only-when[%s]' % (q, exc.cls), 'exceptional', z3.Or(*conds), fi.node,
                            detail='raised %s (%s)' % (exc.cls, exc.origin))
            if not matched:
                I.prove('%s:no-unexpected-exception[%s]' % (q, exc.cls), 'exceptional', False, fi.node,
                        detail='path ends with %s from %s' % (exc.cls, exc.origin))


class VDictItems(V):
    def __init__(self, items):
        self.items = items
