"""Front end: reads /repo/**.py with ast on every run.  Nothing of the code is copied into /verif."""
import ast
import hashlib
import os


class FuncInfo:
    def __init__(self, module, cls, node):
        self.module = module
        self.cls = cls
        self.node = node
        self.name = node.name
        self.qualname = ('%s.%s' % (cls.name, node.name)) if cls else node.name
        self.is_static = any(isinstance(d, ast.Name) and d.id == 'staticmethod' for d in node.decorator_list)
        self.is_classmethod = any(isinstance(d, ast.Name) and d.id == 'classmethod' for d in node.decorator_list)
        self.is_property = any(isinstance(d, ast.Name) and d.id == 'property' for d in node.decorator_list)
        self.setter_of = None
        for d in node.decorator_list:
            if isinstance(d, ast.Attribute) and d.attr == 'setter':
                self.setter_of = d.value.id

    @property
    def key(self):
        return (self.module.relpath, self.qualname)

    def source_hash(self):
        seg = ast.get_source_segment(self.module.source, self.node) or ''
        return hashlib.sha256(seg.encode()).hexdigest()[:16]

    def __repr__(self):
        return 'FuncInfo(%s:%s)' % (self.module.relpath, self.qualname)


class ClassInfo:
    def __init__(self, module, node):
        self.module = module
        self.node = node
        self.name = node.name
        self.methods = {}
        self.setters = {}
        self.attrs = {}
        for st in node.body:
            if isinstance(st, ast.FunctionDef):
                fi = FuncInfo(module, self, st)
                if fi.setter_of:
                    self.setters[fi.setter_of] = fi
                else:
                    self.methods[st.name] = fi
            elif isinstance(st, ast.Assign):
                for t in st.targets:
                    if isinstance(t, ast.Name):
                        self.attrs[t.id] = st.value
        self._mro = None

    def bases(self, repo):
        out = []
        for b in self.node.bases:
            r = self.module.resolve_static(repo, b)
            out.append(r)          # ClassInfo, or ('ext', name)
        return out

    def mro(self, repo):
        if self._mro is None:
            # C3 is overkill for the single-inheritance chains in yowsup; depth-first, left to right,
            # duplicates removed keeping the last occurrence (equals C3 for the hierarchies met here;
            # diamond-free is checked).
            seen = []

            def walk(c):
                seen.append(c)
                for b in c.bases(repo):
                    if isinstance(b, ClassInfo):
                        walk(b)
            walk(self)
            out = []
            for c in seen:
                if c not in out:
                    out.append(c)
            self._mro = out
        return self._mro

    def ext_bases(self, repo):
        out = []
        for c in self.mro(repo):
            for b in c.bases(repo):
                if not isinstance(b, ClassInfo):
                    out.append(b[1])
        return out

    def find_method(self, repo, name):
        for c in self.mro(repo):
            if name in c.methods:
                return c.methods[name]
        return None

    def find_setter(self, repo, name):
        for c in self.mro(repo):
            if name in c.setters:
                return c.setters[name]
        return None

    def find_attr(self, repo, name):
        for c in self.mro(repo):
            if name in c.attrs:
                return c, c.attrs[name]
        return None

    def is_subclass(self, repo, other):
        return other in self.mro(repo)

    def __repr__(self):
        return 'ClassInfo(%s)' % self.name


class ModuleInfo:
    def __init__(self, repo, relpath):
        self.relpath = relpath
        path = os.path.join(repo.root, relpath)
        with open(path, encoding='utf-8') as f:
            self.source = f.read()
        self.tree = ast.parse(self.source, filename=path)
        self.classes = {}
        self.funcs = {}
        self.assigns = {}
        self.imports = {}       # local name -> ('mod', dotted) | ('from', dotted, attr)
        self.star_imports = []
        pkg = os.path.dirname(relpath).replace('/', '.')
        self.package = pkg
        self._scan(self.tree.body)

    def _scan(self, body):
        for st in body:
            if isinstance(st, ast.ClassDef):
                self.classes[st.name] = ClassInfo(self, st)
            elif isinstance(st, ast.FunctionDef):
                self.funcs[st.name] = FuncInfo(self, None, st)
            elif isinstance(st, ast.Assign):
                for t in st.targets:
                    if isinstance(t, ast.Name):
                        self.assigns[t.id] = st.value
            elif isinstance(st, ast.Import):
                for a in st.names:
                    self.imports[a.asname or a.name.split('.')[0]] = ('mod', a.name if a.asname else a.name.split('.')[0])
            elif isinstance(st, ast.ImportFrom):
                base = st.module or ''
                if st.level:
                    parts = self.package.split('.') if self.package else []
                    if st.level > 1:
                        parts = parts[:-(st.level - 1)]
                    base = '.'.join(parts + ([st.module] if st.module else []))
                for a in st.names:
                    if a.name == '*':
                        self.star_imports.append(base)
                    else:
                        self.imports[a.asname or a.name] = ('from', base, a.name)
            elif isinstance(st, ast.Try):
                self._scan(st.body)
                for h in st.handlers:
                    self._scan(h.body)
            elif isinstance(st, ast.If):
                self._scan(st.body)
                self._scan(st.orelse)

    def resolve_static(self, repo, expr):
        """Resolve a Name / Attribute expression at module level to ClassInfo / FuncInfo / ('ext', dotted)."""
        if isinstance(expr, ast.Name):
            r = self.lookup(repo, expr.id)
            return r if r is not None else ('ext', expr.id)
        if isinstance(expr, ast.Attribute):
            base = self.resolve_static(repo, expr.value)
            if isinstance(base, tuple) and base[0] == 'ext':
                return ('ext', base[1] + '.' + expr.attr)
            if isinstance(base, ModuleInfo):
                return base.lookup(repo, expr.attr)
            return ('ext', ast.unparse(expr))
        return ('ext', ast.unparse(expr))

    def lookup(self, repo, name, _depth=0):
        if name in self.classes:
            return self.classes[name]
        if name in self.funcs:
            return self.funcs[name]
        if name in self.imports:
            imp = self.imports[name]
            if imp[0] == 'mod':
                m = repo.module_by_dotted(imp[1])
                return m if m else ('ext', imp[1])
            _, dotted, attr = imp
            m = repo.module_by_dotted(dotted)
            if m is None:
                return ('ext', dotted + '.' + attr)
            sub = repo.module_by_dotted(dotted + '.' + attr)
            if sub is not None and attr not in m.classes and attr not in m.funcs and attr not in m.assigns \
                    and attr not in m.imports:
                return sub
            if _depth > 10:
                return ('ext', dotted + '.' + attr)
            r = m.lookup(repo, attr, _depth + 1)
            return r
        if name in self.assigns:
            return ('assign', self, self.assigns[name])
        if _depth <= 10:
            for dotted in self.star_imports:
                m = repo.module_by_dotted(dotted)
                if m is not None:
                    r = m.lookup(repo, name, _depth + 1)
                    if r is not None:
                        return r
        return None


class Repo:
    def __init__(self, root='/repo'):
        self.root = root
        self.modules = {}

    def module(self, relpath):
        if relpath not in self.modules:
            self.modules[relpath] = ModuleInfo(self, relpath)
        return self.modules[relpath]

    def module_by_dotted(self, dotted):
        if not dotted.startswith('yowsup'):
            return None
        if dotted.endswith('_pb2'):
            return None         # generated protobuf code: an external library as far as the proofs go (pyvc/protomodel.py)
        p = dotted.replace('.', '/')
        for cand in (p + '.py', p + '/__init__.py'):
            if os.path.isfile(os.path.join(self.root, cand)):
                return self.module(cand)
        return None

    def func(self, relpath, qualname):
        m = self.module(relpath)
        if '.' in qualname:
            c, f = qualname.split('.', 1)
            ci = m.classes.get(c)
            if ci is None:
                return None
            return ci.methods.get(f)
        return m.funcs.get(qualname)

    def git_state(self):
        import subprocess
        try:
            head = subprocess.run(['git', '-C', self.root, 'rev-parse', 'HEAD'], capture_output=True, text=True).stdout.strip()
            dirty = subprocess.run(['git', '-C', self.root, 'status', '--porcelain', '--untracked-files=no'],
                                   capture_output=True, text=True).stdout.strip()
            return {'head': head, 'dirty': bool(dirty)}
        except Exception as e:      # pragma: no cover
            return {'error': str(e)}
