"""Schema extraction from the real CREATE TABLE / CREATE UNIQUE INDEX literals (no z3: shared by the prover plugin
pyvc/sqlmodel.py and the native harness pyvc/native.py)."""
import re


class Schema:
    def __init__(self, table, cols, types, unique):
        self.table, self.cols, self.types, self.unique = table, cols, types, unique

    def idx(self, c):
        return self.cols.index(c)


def parse_create(sql):
    m = re.match(r'\s*CREATE TABLE IF NOT EXISTS (\w+)\s*\((.*)\)\s*;?\s*$', sql, re.S | re.I)
    if not m:
        return None
    table = m.group(1)
    cols, types, unique = [], [], []
    for part in m.group(2).split(','):
        toks = part.strip().split()
        if not toks:
            continue
        name = toks[0]
        if name == '_id':
            continue
        cols.append(name)
        types.append(toks[1].upper() if len(toks) > 1 else 'BLOB')
        if 'UNIQUE' in [t.upper() for t in toks]:
            unique.append(name)
    return Schema(table, cols, types, unique)


def parse_index(sql):
    m = re.match(r'\s*CREATE UNIQUE INDEX IF NOT EXISTS \w+ ON (\w+)\s*\(([^)]*)\)\s*;?\s*$', sql, re.I)
    if not m:
        return None
    return m.group(1), [c.strip() for c in m.group(2).split(',')]


def schema_from_source(src):
    """src: source text of the store class's __init__."""
    import ast
    sch, uniq = None, None
    for n in ast.walk(ast.parse(src)):
        if isinstance(n, ast.Constant) and isinstance(n.value, str):
            p = parse_create(n.value)
            if p:
                sch = p
            pi = parse_index(n.value)
            if pi:
                uniq = pi
    if sch is not None and uniq and uniq[0] == sch.table:
        sch.unique = uniq[1]
    return sch
