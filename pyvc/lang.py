"""The sidecar contract language, as seen by CPython.

Sidecars (`/verif/contracts/*.py`) and spec modules (`/verif/spec/*.py`) are ordinary Python
files.  The prover never imports them - it parses them with `ast` - but the replay / bounded
harness does import them, so that one text serves both.  This module supplies the names they
use: no-op decorators, type markers, and native implementations of the few spec builtins.
"""


class _Ty:
    def __init__(self, name, *args):
        self.name, self.args = name, args

    def __call__(self, *args):
        return _Ty(self.name, *args)

    def __repr__(self):
        return self.name + (repr(self.args) if self.args else '')


Int = _Ty('Int')
Bool = _Ty('Bool')
Bytes = _Ty('Bytes')            # immutable byte string (bytes)
ByteArray = _Ty('ByteArray')    # mutable bytearray
ListInt = _Ty('ListInt')        # mutable list of ints
ListByte = _Ty('ListByte')      # mutable list of ints in 0..255
Str = _Ty('Str')                # str, any code points
Latin1 = _Ty('Latin1')          # str with code points 0..255
IntSeq = _Ty('IntSeq')          # any sequence of ints as an immutable view: bytes, bytearray or list of ints
SeqInt = _Ty('SeqInt')          # immutable sequence of ints (spec level)
SeqBytes = _Ty('SeqBytes')      # immutable sequence of byte strings (spec level)
SeqStr = _Ty('SeqStr')
NoneT = _Ty('NoneT')
Any = _Ty('Any')
Opaque = _Ty('Opaque')          # an object (truthy)
Value = _Ty('Value')            # a value of unknown type and truthiness
Opt = _Ty('Opt')
Obj = _Ty('Obj')
Tup = _Ty('Tup')
Fn = _Ty('Fn')
Node = _Ty('Node')
ListNode = _Ty('ListNode')
MapStr = _Ty('MapStr')
DictStrObj = _Ty('DictStrObj')
DictStrStr = _Ty('DictStrStr')
DictObjObj = _Ty('DictObjObj')
Callback = _Ty('Callback')
ClassRef = _Ty('ClassRef')        # the class object itself (classmethods)
Conn = _Ty('Conn')                # sqlite3 connection of the named store class (pyvc/sqlmodel.py)
Table = _Ty('Table')              # abstract table state
TupleObj = _Ty('TupleObj')        # tuple of arbitrary objects, symbolic length
ListObj = _Ty('ListObj')
ListStr = _Ty('ListStr')          # mutable list of str
ListOf = _Ty('ListOf')            # ListOf(T, k): a list of exactly k elements of type T

REGISTRY = {'contracts': {}, 'loops': {}, 'specs': {}, 'lemmas': {}, 'fields': {}, 'opaques': {}, 'inlines': set(),
            'externs': {}}


def contract(file, qualname, **kw):
    def deco(fn):
        fn._contract_kw = kw
        REGISTRY['contracts'][(file, qualname)] = fn
        return fn
    return deco


def loop(file, qualname, index):
    def deco(fn):
        REGISTRY['loops'][(file, qualname, index)] = fn
        return fn
    return deco


def spec(fn=None, **kw):
    if fn is None:
        return lambda f: spec(f)
    REGISTRY['specs'][fn.__name__] = fn
    return fn


def lemma(fn=None, **kw):
    if fn is None:
        return lambda f: lemma(f)
    REGISTRY['lemmas'][fn.__name__] = fn
    return fn


def scenario(fn=None, **kw):
    """prover-only construct (a sequence of calls executed against contracts); natively it is just recorded"""
    if fn is None:
        return lambda f: scenario(f)
    REGISTRY.setdefault('scenarios', {})[fn.__name__] = fn
    return fn


def fields(cname, **kw):
    REGISTRY['fields'].setdefault(cname, {}).update(kw)


def opaque(file, qualname, **kw):
    REGISTRY['opaques'][(file, qualname)] = kw


def inline(file, qualname):
    REGISTRY['inlines'].add((file, qualname))


def extern(name, **kw):
    REGISTRY['externs'][name] = kw


def assumed(*a, **kw):
    def deco(fn):
        return fn
    return deco


def uninterpreted(fn):
    return fn


# ---- native versions of spec builtins (used when a spec function is *executed*) ----------
def implies(a, b):
    return (not a) or b


def forall(rng, pred):
    return all(pred(i) for i in rng)


def exists(rng, pred):
    return any(pred(i) for i in rng)


def is_bytes(s):
    return all(isinstance(x, int) and 0 <= x < 256 for x in s)


def rep(e, n):
    return [e] * n


def event_sort(name, kind):
    pass


def requires(*a, **k):
    pass


ensures = modifies = raises = propagates = decreases = invariant = trigger = use = check = hint = partial = requires


def bxor(a, b):
    return a ^ b


def py_utf8(s):
    """str.encode('utf-8') on a sequence of code points"""
    return list(''.join(map(chr, s)).encode('utf-8'))


def py_lower(s):
    return [ord(x) for x in ''.join(map(chr, s)).lower()]


def py_replace(s, a, b):
    return [ord(x) for x in ''.join(map(chr, s)).replace(''.join(map(chr, a)), ''.join(map(chr, b)))]
