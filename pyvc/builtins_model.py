"""Models of the Python builtins and standard-library functions that occur in the functions under
contract.  Each model is an *assumed contract* of CPython / the stdlib; the ones with a finite
domain are validated by enumeration against the real interpreter in the native self-test
(`pyvc/selftest_models.py`), the others are listed as assumptions in the evidence.
"""
import ast
import z3
_QN = [0]


def _FA(vs, body, patterns=None, prefix='ax'):
    _QN[0] += 1
    return z3.ForAll(vs, body, qid='std.%s%d' % (prefix, _QN[0]), patterns=patterns or [])

from . import theory as T
from .values import *
from .interp import (Unsupported, PyExc, VRat, VRange, BUILTIN_EXC)

S = T.SeqI

# ---- stdlib helper functions (uninterpreted + axioms) ------------------------------------------------
HexL = z3.Function('hexlify', S.sort, S.sort)                 # binascii.hexlify (lower case)
Upper = z3.Function('ascii_upper', S.sort, S.sort)            # bytes.upper / str.upper (ASCII)
Lower = z3.Function('ascii_lower', S.sort, S.sort)
IntToStr = z3.Function('int_to_str', T.I, S.sort)             # str(int) / "%d" % int
StrToInt = z3.Function('str_to_int', S.sort, T.I)             # int(str)
IsNumeral = z3.Function('is_numeral', S.sort, T.B)
Contains = {}                                                 # per seq theory: contains(s, e)
FirstIdx = {}                                                 # per seq theory: first index of e in s
Substr = z3.Function('substr', S.sort, S.sort, T.B)
Utf8 = z3.Function('utf8', S.sort, S.sort)                    # str.encode() (utf-8)
Utf8Dec = z3.Function('utf8_dec', S.sort, S.sort)
Inflate = z3.Function('zlib_decompress', S.sort, S.sort)
InflateOk = z3.Function('zlib_ok', S.sort, T.B)


def hexchar_upper(x):
    return z3.If(x < 10, 48 + x, 55 + x)


def hexchar_lower(x):
    return z3.If(x < 10, 48 + x, 87 + x)


def up(c):
    return z3.If(z3.And(97 <= c, c <= 122), c - 32, c)


def low(c):
    return z3.If(z3.And(65 <= c, c <= 90), c + 32, c)


def contains_fn(th):
    if th.name not in Contains:
        Contains[th.name] = z3.Function('%s.contains' % th.name, th.sort, th.elem, T.B)
        FirstIdx[th.name] = z3.Function('%s.first' % th.name, th.sort, th.elem, T.I)
    return Contains[th.name], FirstIdx[th.name]


def stdlib_axioms():
    s, a, b = z3.Consts('s a b', S.sort)
    i, n = z3.Ints('i n')
    A = []
    # hexlify: 2 hex digits per byte
    A.append(_FA([s], S.Len(HexL(s)) == 2 * S.Len(s), patterns=[HexL(s)]))
    A.append(_FA([s, i], z3.Implies(z3.And(0 <= i, i < 2 * S.Len(s), T.IsBytes(s)),
                                          S.Idx(HexL(s), i) == z3.If(i % 2 == 0, hexchar_lower(S.Idx(s, i / 2) / 16),
                                                                     hexchar_lower(S.Idx(s, i / 2) % 16))),
                       patterns=[S.Idx(HexL(s), i)]))
    A.append(_FA([s], z3.Implies(T.IsBytes(s), T.IsBytes(HexL(s))), patterns=[HexL(s)]))
    for F, f in ((Upper, up), (Lower, low)):
        A.append(_FA([s], S.Len(F(s)) == S.Len(s), patterns=[F(s)]))
        A.append(_FA([s, i], z3.Implies(z3.And(0 <= i, i < S.Len(s)), S.Idx(F(s), i) == f(S.Idx(s, i))),
                           patterns=[S.Idx(F(s), i)]))
        A.append(_FA([s], z3.Implies(T.IsBytes(s), T.IsBytes(F(s))), patterns=[F(s)]))
    # str(int) / int(str)
    A.append(_FA([n], z3.And(IsNumeral(IntToStr(n)), StrToInt(IntToStr(n)) == n, S.Len(IntToStr(n)) >= 1),
                       patterns=[IntToStr(n)]))
    for th in T.SeqTheory.registry.values():
        C, F = contains_fn(th)
        x = z3.Const('x', th.sort)
        e = z3.Const('e', th.elem)
        A.append(_FA([x, e], z3.Implies(C(x, e), z3.And(0 <= F(x, e), F(x, e) < th.Len(x), th.Idx(x, F(x, e)) == e)),
                           patterns=[C(x, e)]))
        A.append(_FA([x, e, i], z3.Implies(z3.And(0 <= i, i < th.Len(x), th.Idx(x, i) == e),
                                                 z3.And(C(x, e), F(x, e) <= i)),
                           patterns=[z3.MultiPattern(C(x, e), th.Idx(x, i))]))
        A.append(_FA([x, e, i], z3.Implies(z3.And(0 <= i, i < F(x, e), C(x, e)), th.Idx(x, i) != e),
                           patterns=[z3.MultiPattern(F(x, e), th.Idx(x, i))]))
        A.append(_FA([e], z3.Not(C(th.Empty, e)), patterns=[C(th.Empty, e)]))
    return A


def exc(name, origin=None):
    return PyExc(VExc(name, origin=origin))


class Builtins:
    def __init__(self, ctx):
        self.ctx = ctx
        self.table = {}
        for k in dir(self):
            if k.startswith('bi_'):
                self.table[k[3:].replace('__', '.')] = getattr(self, k)

    def names(self):
        return self.table

    def call(self, I, name, args, kwargs, node):
        if name in self.table:
            return self.table[name](I, args, kwargs, node)
        if name.startswith('exc-class:'):
            return VExc(name[len('exc-class:'):], args, origin='raise')
        if name in BUILTIN_EXC:
            return VExc(name, args, origin='raise')
        if name.startswith('opaque.'):
            recv = args[0]
            return self.ctx.opaque_method(I, recv, name[len('opaque.'):], args[1:], kwargs, node)
        if name.startswith('extattr:'):
            return self.ctx.opaque_method(I, args[0], name[len('extattr:'):], args[1:], kwargs, node)
        if name.startswith('object.'):
            return NONE
        if name.startswith('exc.'):
            # a getter of an exception object (e.getName(), e.getIdentityKey()): a function of the exception
            e = args[0]
            if not hasattr(e, 't'):
                e.t = I.fresh('exc', T.Obj)
            f = self.ctx.uf('getter.exc.' + name[4:], T.Obj, T.Obj)
            return VOpaque(f(e.t), 'excfield')
        for pl in self.ctx.plugins:
            r = pl.call(I, name, args, kwargs, node) if hasattr(pl, 'call') else NotImplemented
            if r is not NotImplemented:
                return r
        if name.startswith('extcontract:'):
            q = name[len('extcontract:'):]
            c = self.ctx.registry.contracts[('<ext>', q)]
            if c.params and c.params[0][0] == 'self':
                return self.ctx.apply_ext_contract(I, q, args[0], args[1:], kwargs, node)
            return self.ctx.apply_ext_contract(I, q, None, args, kwargs, node)
        ext = self.ctx.extern_call(I, name, args, kwargs, node)
        if ext is not NotImplemented:
            return ext
        raise Unsupported('builtin %s' % name, node)

    # ---- basics ---------------------------------------------------------------------------------
    def bi_len(self, I, args, kw, node):
        v = I.unwrap(args[0], node)
        if isinstance(v, VNone):
            I.require(False, 'len-of-None', node, exc='TypeError')
            raise exc('TypeError', 'len(None)')
        if isinstance(v, VTuple):
            return VInt(len(v.items))
        if I.is_list(v) and isinstance(I.cell(v).content, list):
            return VInt(len(I.cell(v).content))
        if I.is_dict(v):
            return self.ctx.dict_len(I, v, node)
        if isinstance(v, VMap):
            return VInt(v.th.Size(v.t))
        if isinstance(v, VInt):
            I.require(False, 'len-of-int', node, exc='TypeError')
            raise exc('TypeError', 'len(int)')
        h = self.ctx.len_hook(I, v, node)
        if h is not None:
            return h
        s = I.seq_of(v, node)
        return VInt(s.th.Len(s.t))

    def bi_range(self, I, args, kw, node):
        xs = [I.as_int(a, node) for a in args]
        if len(xs) == 1:
            return VRange(z3.IntVal(0), xs[0])
        if len(xs) == 2:
            return VRange(xs[0], xs[1])
        st = VInt(xs[2]).const()
        if st is None:
            raise Unsupported('range with symbolic step', node)
        return VRange(xs[0], xs[1], st)

    def bi_int(self, I, args, kw, node):
        if not args:
            return VInt(0)
        v = I.unwrap(args[0], node)
        if isinstance(v, VInt):
            return v
        if isinstance(v, VBool):
            return VInt(I.as_int(v))
        if isinstance(v, VRat):
            # int(a / c): truncation toward zero of the float.  Exact while |a| < 2**53.
            I.require(z3.And(-(2 ** 53) < v.num, v.num < 2 ** 53), 'float-exact', node)
            return VInt(z3.If(v.num >= 0, v.num / v.den, -((-v.num) / v.den)))
        if isinstance(v, VSeq) and v.kind in ('str', 'bytes'):
            if len(args) > 1 or 'base' in kw:
                b = VInt(I.as_int(args[1] if len(args) > 1 else kw['base'])).const()
                if b == 16:
                    return VInt(self.ctx.hex_to_int(I, v, node))
                raise Unsupported('int() with base', node)
            I.require(IsNumeral(v.t), 'int-of-str', node, exc='ValueError')
            return VInt(StrToInt(v.t))
        if isinstance(v, VNone):
            I.require(False, 'int-of-None', node, exc='TypeError')
            raise exc('TypeError')
        if isinstance(v, VOpaque):
            return VInt(self.ctx.obj_int(v.t))
        raise Unsupported('int(%r)' % (v,), node)

    def bi_bool(self, I, args, kw, node):
        return VBool(I.truthy(args[0], node)) if args else VBool(False)

    def bi_ord(self, I, args, kw, node):
        v = I.unwrap(args[0], node)
        if isinstance(v, VSeq) and v.th is S:
            I.require(S.Len(v.t) == 1, 'ord-length', node, exc='TypeError')
            return VInt(S.Idx(v.t, 0))
        if isinstance(v, VInt):
            I.require(False, 'ord-of-int', node, exc='TypeError')
            raise exc('TypeError', 'ord(int)')
        raise Unsupported('ord(%r)' % (v,), node)

    def bi_chr(self, I, args, kw, node):
        x = I.as_int(args[0], node)
        I.require(z3.And(0 <= x, x < 0x110000), 'chr-range', node, exc='ValueError')
        return VSeq(S.Unit(x), 'str')

    def bi_type(self, I, args, kw, node):
        v0 = I.unwrap(args[0], node)
        if isinstance(v0, VOpaque):
            return VOpaque(self.ctx.uf('field.__class__', T.Obj, T.Obj)(v0.t), 'class')
        tn = I.type_name(args[0], node)
        if isinstance(tn, tuple):
            if tn[0] == 'class':
                return VClass(tn[1])
            return VType('ext:' + str(tn[1]))
        return VType(tn)

    def bi_isinstance(self, I, args, kw, node):
        v = I.unwrap(args[0], node)
        t = args[1]
        ts = t.items if isinstance(t, VTuple) else [t]
        if isinstance(v, VOpaque) and all(isinstance(x, VClass) for x in ts):
            # an object of an unverified class tested against repository classes: a predicate of the object (deterministic),
            # tied to `x.__class__ == C` by the class axioms
            for x in ts:
                self.ctx.class_const(x.info)
            return VBool(z3.Or(*[self.ctx.isinst_fn(x.info)(v.t) for x in ts]))
        tn = I.type_name(v, node)
        for x in ts:
            if isinstance(x, VType):
                if isinstance(tn, str) and (tn == x.name or (tn == 'bool' and x.name == 'int')):
                    return VBool(True)
            elif isinstance(x, VClass):
                if isinstance(tn, tuple) and tn[0] == 'class' and tn[1].is_subclass(I.repo, x.info):
                    return VBool(True)
            elif isinstance(x, VBuiltin) and x.name.startswith('exc-class:'):
                if isinstance(v, VExc) and self.ctx.exc_isinstance(v.cls, x.name[len('exc-class:'):]):
                    return VBool(True)
            else:
                raise Unsupported('isinstance against %r' % (x,), node)
        return VBool(False)

    def bi_hasattr(self, I, args, kw, node):
        v = I.unwrap(args[0], node)
        name = self.ctx.const_str(I, args[1])
        if I.is_obj(v):
            c = I.cell(v)
            if name in c.fields:
                return VBool(True)
            if c.cls is not None and (c.cls.find_method(I.repo, name) or c.cls.find_attr(I.repo, name)):
                return VBool(True)
            if c.cls is not None and not c.cls.ext_bases(I.repo):
                return VBool(False)
        raise Unsupported('hasattr on %r' % (v,), node)

    def bi_getattr(self, I, args, kw, node):
        name = self.ctx.const_str(I, args[1])
        return I.getattr(args[0], name, node)

    def bi_str(self, I, args, kw, node):
        if not args:
            return I.str_lit('')
        v = I.unwrap(args[0], node)
        if isinstance(v, VSeq) and v.kind == 'str':
            return v
        if isinstance(v, VInt):
            return VSeq(IntToStr(v.t), 'str')
        if isinstance(v, VSeq) and v.kind in ('bytes', 'bytearray'):
            return VSeq(I.fresh('repr', S.sort), 'str')
        if I.is_obj(v):
            c = I.cell(v)
            m = c.cls.find_method(I.repo, '__str__') if c.cls else None
            if m is not None:
                return VSeq(I.fresh('str', S.sort), 'str')
        return VSeq(I.fresh('str', S.sort), 'str')

    def bi_repr(self, I, args, kw, node):
        return VSeq(I.fresh('repr', S.sort), 'str')

    def bi_bytes(self, I, args, kw, node):
        if not args:
            return I.str_lit(b'', 'bytes')
        v = I.unwrap(args[0], node)
        if isinstance(v, VInt):
            I.require(v.t >= 0, 'bytes-negative', node, exc='ValueError')
            return VSeq(S.Rep(z3.IntVal(0), v.t), 'bytes')
        if isinstance(v, VSeq) and v.kind == 'str':
            if len(args) > 1 or 'encoding' in kw:
                return self.bi_str__encode(I, [v] + list(args[1:]), kw, node)
            I.require(False, 'bytes-of-str-without-encoding', node, exc='TypeError')
            raise exc('TypeError', 'string argument without an encoding')
        if isinstance(v, VNone):
            I.require(False, 'bytes-of-None', node, exc='TypeError')
            raise exc('TypeError')
        s = I.seq_of(v, node, want='int')
        if s.th is not S:
            I.require(False, 'bytes-of-non-int-sequence', node, exc='TypeError')
            raise exc('TypeError')
        if s.kind == 'str':
            I.require(False, 'bytes-of-str', node, exc='TypeError')
            raise exc('TypeError')
        if s.kind not in ('bytes', 'bytearray'):
            I.require(T.IsBytes(s.t), 'byte-range', node, exc='ValueError')
        return VSeq(s.t, 'bytes')

    def bi_bytearray(self, I, args, kw, node):
        if not args:
            return I.alloc(HList(VSeq(S.Empty, 'bytearray'), 'bytearray'))
        b = self.bi_bytes(I, args, kw, node)
        return I.alloc(HList(VSeq(b.t, 'bytearray'), 'bytearray'))

    def bi_list(self, I, args, kw, node):
        if not args:
            return I.alloc(HList([], 'list'))
        v = I.unwrap(args[0], node)
        if isinstance(v, VTuple):
            return I.alloc(HList(list(v.items), 'list'))
        if I.is_list(v) and isinstance(I.cell(v).content, list):
            return I.alloc(HList(list(I.cell(v).content), 'list'))
        if isinstance(v, VMapped):
            return I.alloc(HList(self.force_map(I, v, node), 'list'))
        h = self.ctx.list_hook(I, v, node)
        if h is not None:
            return h
        s = I.seq_of(v, node)
        if s.kind == 'str':
            raise Unsupported('list(str)', node)
        return I.alloc(HList(VSeq(s.t, 'list', s.th, s.ekind), 'list'))

    def bi_tuple(self, I, args, kw, node):
        if not args:
            return VTuple([])
        v = I.unwrap(args[0], node)
        if isinstance(v, VTuple):
            return v
        if I.is_list(v) and isinstance(I.cell(v).content, list):
            return VTuple(list(I.cell(v).content))
        s = I.seq_of(v, node)
        return VSeq(s.t, 'tuple', s.th, s.ekind)

    def bi_dict(self, I, args, kw, node):
        if args:
            v = I.unwrap(args[0], node)
            if I.is_dict(v) and isinstance(I.cell(v).content, list):
                return I.alloc(HDict(list(I.cell(v).content)))
            raise Unsupported('dict(x)', node)
        return I.alloc(HDict([(I.str_lit(k), v) for k, v in kw.items()]))

    def bi_map(self, I, args, kw, node):
        return VMapped(args[0], args[1])

    def force_map(self, I, m, node):
        v = I.unwrap(m.seq, node)
        items = v.items if isinstance(v, VTuple) else (I.cell(v).content if I.is_list(v) and isinstance(I.cell(v).content, list) else None)
        if items is None:
            raise Unsupported('map() over a symbolic sequence', node)
        return [I.call(m.fn, [x], {}, node) for x in items]

    def bi_min(self, I, args, kw, node):
        if len(args) == 2:
            a, b = I.as_int(args[0], node), I.as_int(args[1], node)
            return VInt(z3.If(a <= b, a, b))
        raise Unsupported('min', node)

    def bi_max(self, I, args, kw, node):
        if len(args) == 2:
            a, b = I.as_int(args[0], node), I.as_int(args[1], node)
            return VInt(z3.If(a >= b, a, b))
        raise Unsupported('max', node)

    def bi_abs(self, I, args, kw, node):
        a = I.as_int(args[0], node)
        return VInt(z3.If(a >= 0, a, -a))

    def bi_print(self, I, args, kw, node):
        return NONE

    def bi_id(self, I, args, kw, node):
        return VInt(I.fresh_int('id'))

    def bi_callable(self, I, args, kw, node):
        v = I.unwrap(args[0], node)
        return VBool(isinstance(v, (VFunc, VClosure, VBuiltin, VClass)))

    def bi_issubclass(self, I, args, kw, node):
        a, b = args
        if isinstance(a, VClass) and isinstance(b, VClass):
            return VBool(a.info.is_subclass(I.repo, b.info))
        if isinstance(b, VClass) and not isinstance(a, (VTuple, VInt, VBool)):
            # first argument not a known class: an unconstrained answer (over-approximation; a TypeError for a non-class argument is
            # not modelled - the callers under contract guard the call with inspect.isclass or pass obj.__class__)
            return VBool(I.fresh_bool('issubclass'))
        raise Unsupported('issubclass', node)

    # ---- list / bytearray methods ---------------------------------------------------------------
    def _mut(self, I, ref, node):
        if not I.is_list(ref):
            raise Unsupported('list method on %r' % (ref,), node)
        return I.cell(ref)

    def bi_list__append(self, I, args, kw, node):
        ref, v = args
        c = self._mut(I, ref, node)
        if isinstance(c.content, list):
            if c.kind == 'bytearray':
                raise Unsupported('concrete bytearray', node)
            I.st.heap[ref.loc] = HList(c.content + [v], c.kind)
            return NONE
        s = c.content
        et = I.elem_term(s.th, v, node)
        if c.kind == 'bytearray':
            I.require(z3.And(0 <= et, et < 256), 'byte-range', node, exc='ValueError')
        I.st.heap[ref.loc] = HList(s.with_term(s.th.app(s.t, s.th.Unit(et))), c.kind)
        return NONE

    def bi_list__extend(self, I, args, kw, node):
        ref, v = args
        c = self._mut(I, ref, node)
        v = I.unwrap(v, node)
        if isinstance(c.content, list):
            items = None
            if isinstance(v, VTuple):
                items = v.items
            elif I.is_list(v) and isinstance(I.cell(v).content, list):
                items = I.cell(v).content
            if items is not None:
                I.st.heap[ref.loc] = HList(c.content + list(items), c.kind)
                return NONE
            s0 = I.list_to_seq(c.content, c.kind, hint='int')
            if s0 is None:
                raise Unsupported('extend of heterogeneous list', node)
        else:
            s0 = c.content
        s1 = I.seq_of(v, node)
        if s1.th is not s0.th:
            if I._known_empty(s0):
                s0 = VSeq(s1.th.Empty, s0.kind, s1.th, s1.ekind)
            else:
                raise Unsupported('extend with a different element sort', node)
        if c.kind == 'bytearray' and s1.kind not in ('bytes', 'bytearray'):
            if s1.kind == 'str':
                I.require(False, 'bytearray-extend-str', node, exc='TypeError')
                raise exc('TypeError')
            I.require(T.IsBytes(s1.t), 'byte-range', node, exc='ValueError')
        I.st.heap[ref.loc] = HList(s0.with_term(s0.th.app(s0.t, s1.t)), c.kind)
        return NONE

    def bi_list__pop(self, I, args, kw, node):
        ref = args[0]
        c = self._mut(I, ref, node)
        idx = VInt(I.as_int(args[1], node)).const() if len(args) > 1 else -1
        if isinstance(c.content, list):
            if idx is None:
                raise Unsupported('pop with symbolic index', node)
            if not c.content or not (-len(c.content) <= idx < len(c.content)):
                I.require(False, 'pop', node, exc='IndexError')
                raise exc('IndexError', 'pop')
            items = list(c.content)
            x = items.pop(idx)
            I.st.heap[ref.loc] = HList(items, c.kind)
            return x
        s = c.content
        L = s.th.Len(s.t)
        if idx == 0:
            I.require(L >= 1, 'pop-from-empty', node, exc='IndexError')
            x = I.wrap_elem(s.with_term(s.t) if s.kind != 'str' else s, s.th.Idx(s.t, 0))
            I.st.heap[ref.loc] = HList(s.with_term(s.th.Drop(s.t, z3.IntVal(1))), c.kind)
            return x
        if idx == -1:
            I.require(L >= 1, 'pop-from-empty', node, exc='IndexError')
            x = I.wrap_elem(s, s.th.Idx(s.t, L - 1))
            I.st.heap[ref.loc] = HList(s.with_term(s.th.Take(s.t, L - 1)), c.kind)
            return x
        # pop(i) with a symbolic (or other constant) index, non-negative: element i, the rest keeps its order
        i = I.as_int(args[1], node)
        I.require(z3.And(0 <= i, i < L), 'pop-index', node, exc='IndexError')
        x = I.wrap_elem(s, s.th.Idx(s.t, i))
        I.st.heap[ref.loc] = HList(s.with_term(s.th.App(s.th.Take(s.t, i), s.th.Drop(s.t, i + 1))), c.kind)
        return x

    def bi_list__insert(self, I, args, kw, node):
        ref, idx, v = args
        c = self._mut(I, ref, node)
        ic = VInt(I.as_int(idx, node)).const()
        if isinstance(c.content, list) and ic is not None:
            items = list(c.content)
            items.insert(ic, v)
            I.st.heap[ref.loc] = HList(items, c.kind)
            return NONE
        raise Unsupported('insert on symbolic list', node)

    def bi_list__index(self, I, args, kw, node):
        return self._seq_index(I, args, node)

    def bi_list__remove(self, I, args, kw, node):
        ref, v = args
        c = self._mut(I, ref, node)
        if isinstance(c.content, list):
            for k, x in enumerate(c.content):
                e = I.veq(x, v, node)
                if I.branch(e):
                    items = list(c.content)
                    del items[k]
                    I.st.heap[ref.loc] = HList(items, c.kind)
                    return NONE
            I.require(False, 'remove-missing', node, exc='ValueError')
            raise exc('ValueError', 'list.remove')
        s = c.content
        C, F = contains_fn(s.th)
        et = I.elem_term(s.th, v, node)
        I.require(C(s.t, et), 'remove-missing', node, exc='ValueError')
        k = F(s.t, et)
        I.st.heap[ref.loc] = HList(s.with_term(s.th.app(s.th.Take(s.t, k), s.th.Drop(s.t, k + 1))), c.kind)
        return NONE

    def bi_list__count(self, I, args, kw, node):
        raise Unsupported('list.count', node)

    def _seq_index(self, I, args, node):
        s = I.seq_of(args[0], node)
        v = I.unwrap(args[1], node)
        C, F = contains_fn(s.th)
        if s.kind == 'str' or (s.kind in ('bytes', 'bytearray') and isinstance(v, VSeq)):
            if not isinstance(v, VSeq):
                raise Unsupported('str.index of non-str', node)
            I.require(S.Len(v.t) == 1, 'index-multichar-not-modelled', node)
            et = S.Idx(v.t, 0)
        else:
            et = I.elem_term(s.th, v, node)
        I.require(C(s.t, et), 'index-missing', node, exc='ValueError')
        return VInt(F(s.t, et))

    # ---- str / bytes methods ------------------------------------------------------------------------
    def bi_str__index(self, I, args, kw, node):
        return self._seq_index(I, args, node)

    def bi_bytes__index(self, I, args, kw, node):
        return self._seq_index(I, args, node)

    def bi_seq__index(self, I, args, kw, node):
        return self._seq_index(I, args, node)

    def bi_tuple__index(self, I, args, kw, node):
        return self._seq_index(I, args, node)

    def bi_str__encode(self, I, args, kw, node):
        v = args[0]
        enc = 'utf-8'
        if len(args) > 1:
            enc = self.ctx.const_str(I, args[1])
        if 'encoding' in kw:
            enc = self.ctx.const_str(I, kw['encoding'])
        enc = enc.lower().replace('_', '-')
        if enc in ('latin-1', 'latin1', 'iso-8859-1'):
            I.require(T.IsBytes(v.t), 'latin1-encodable', node, exc='UnicodeEncodeError')
            return VSeq(v.t, 'bytes')
        if enc in ('utf-8', 'utf8'):
            t = z3.simplify(v.t)
            lit = self.ctx.seq_literal(t)
            if lit is not None and all(c < 128 for c in lit):
                return VSeq(v.t, 'bytes')
            return VSeq(Utf8(v.t), 'bytes')
        raise Unsupported('encode(%s)' % enc, node)

    def bi_bytes__decode(self, I, args, kw, node):
        v = I.seq_of(args[0], node)
        enc = 'utf-8'
        if len(args) > 1:
            enc = self.ctx.const_str(I, args[1])
        enc = enc.lower().replace('_', '-')
        if enc in ('latin-1', 'latin1', 'iso-8859-1'):
            return VSeq(v.t, 'str')
        if enc in ('utf-8', 'utf8'):
            return VSeq(Utf8Dec(v.t), 'str')
        raise Unsupported('decode(%s)' % enc, node)

    def bi_bytes__upper(self, I, args, kw, node):
        v = I.seq_of(args[0], node)
        return VSeq(Upper(v.t), v.kind if v.kind != 'bytearray' else 'bytes')

    def bi_str__upper(self, I, args, kw, node):
        return VSeq(Upper(args[0].t), 'str')

    def bi_str__lower(self, I, args, kw, node):
        return VSeq(Lower(args[0].t), 'str')

    def bi_bytes__lower(self, I, args, kw, node):
        v = I.seq_of(args[0], node)
        return VSeq(Lower(v.t), 'bytes')

    def bi_str__join(self, I, args, kw, node):
        sep, it = args
        it = I.unwrap(it, node)
        if isinstance(it, VMapped):
            fn = it.fn
            if isinstance(fn, VBuiltin) and fn.name == 'chr' and self.ctx.is_empty_lit(sep):
                s = I.seq_of(it.seq, node)
                if s.th is not S:
                    I.require(False, 'chr-of-non-int', node, exc='TypeError')
                    raise exc('TypeError')
                if s.kind == 'str':
                    I.require(False, 'chr-of-str', node, exc='TypeError')
                    raise exc('TypeError')
                if s.kind not in ('bytes', 'bytearray'):
                    I.require(self.ctx.all_in_range(s.t, 0, 0x110000), 'chr-range', node, exc='ValueError')
                return VSeq(s.t, 'str')
            items = self.force_map(I, it, node)
        elif isinstance(it, VTuple):
            items = it.items
        elif I.is_list(it) and isinstance(I.cell(it).content, list):
            items = I.cell(it).content
        else:
            s = I.seq_of(it, node)
            if s.th is T.SeqS:
                return VSeq(self.ctx.join_fn(sep.t, s.t), sep.kind)
            raise Unsupported('join over %r' % (it,), node)
        parts = []
        for k, x in enumerate(items):
            x = I.unwrap(x, node)
            if not (isinstance(x, VSeq) and x.kind == sep.kind):
                I.require(False, 'join-non-str', node, exc='TypeError')
                raise exc('TypeError', 'join')
            if k:
                parts.append(sep.t)
            parts.append(x.t)
        return VSeq(S.concat(parts), sep.kind)

    def bi_bytes__join(self, I, args, kw, node):
        return self.bi_str__join(I, args, kw, node)

    def bi_str__startswith(self, I, args, kw, node):
        s, p = args[0], I.unwrap(args[1], node)
        n = S.Len(p.t)
        return VBool(z3.And(S.Len(s.t) >= n, S.Take(s.t, n) == p.t))

    def bi_str__endswith(self, I, args, kw, node):
        s, p = args[0], I.unwrap(args[1], node)
        n = S.Len(p.t)
        return VBool(z3.And(S.Len(s.t) >= n, S.Drop(s.t, S.Len(s.t) - n) == p.t))

    def bi_str__format(self, I, args, kw, node):
        return VSeq(I.fresh('fmt', S.sort), 'str')

    def _strip_side(self, I, args, node, right, kind):
        """x.rstrip(chars) / x.lstrip(chars) with an explicit character set: the result is x without its maximal run, at that end, of
        elements that occur in chars.  Encoded with a fresh cut position k and its defining conditions (every removed element is in
        chars; the element next to the cut, if any, is not)."""
        if len(args) != 2:
            raise Unsupported('%sstrip() without an explicit character set' % ('r' if right else 'l'), node)
        x, cs = args[0], I.unwrap(args[1], node)
        if not isinstance(cs, VSeq) or cs.th is not S:
            raise Unsupported('strip character set', node)
        C, _ = contains_fn(S)
        n = S.Len(x.t)
        k = I.fresh_int('strip_k')
        i = z3.Int('strip_i!%d' % I.st.counter)
        I.st.counter += 1
        if right:
            I.assume(z3.And(0 <= k, k <= n))
            I.assume(z3.ForAll([i], z3.Implies(z3.And(k <= i, i < n), C(cs.t, S.Idx(x.t, i))), patterns=[S.Idx(x.t, i)]))
            I.assume(z3.Or(k == 0, z3.Not(C(cs.t, S.Idx(x.t, k - 1)))))
            return VSeq(S.Take(x.t, k), kind)
        I.assume(z3.And(0 <= k, k <= n))
        I.assume(z3.ForAll([i], z3.Implies(z3.And(0 <= i, i < k), C(cs.t, S.Idx(x.t, i))), patterns=[S.Idx(x.t, i)]))
        I.assume(z3.Or(k == n, z3.Not(C(cs.t, S.Idx(x.t, k)))))
        return VSeq(S.Drop(x.t, k), kind)

    def bi_bytes__rstrip(self, I, args, kw, node):
        return self._strip_side(I, args, node, True, 'bytes')

    def bi_bytes__lstrip(self, I, args, kw, node):
        return self._strip_side(I, args, node, False, 'bytes')

    def bi_str__rstrip(self, I, args, kw, node):
        return self._strip_side(I, args, node, True, 'str')

    def bi_str__lstrip(self, I, args, kw, node):
        return self._strip_side(I, args, node, False, 'str')

    def bi_str__strip(self, I, args, kw, node):
        return VSeq(self.ctx.uf('str_strip', S.sort, S.sort)(args[0].t), 'str')

    def bi_str__split(self, I, args, kw, node):
        s = args[0]
        if len(args) >= 2:
            sep = I.unwrap(args[1], node)
            f = self.ctx.uf('str_split', S.sort, S.sort, T.SeqS.sort)
            r = f(s.t, sep.t)
            I.assume(T.SeqS.Len(r) >= 1)        # str.split(sep) never returns an empty list
            return I.alloc(HList(VSeq(r, 'list', T.SeqS, ekind='str'), 'list'))
        raise Unsupported('split()', node)

    def bi_str__replace(self, I, args, kw, node):
        s, a, b = args[0], I.unwrap(args[1], node), I.unwrap(args[2], node)
        f = self.ctx.uf('str_replace', S.sort, S.sort, S.sort, S.sort)
        return VSeq(f(s.t, a.t, b.t), s.kind)

    def bi_str__zfill(self, I, args, kw, node):
        s, n = args[0], I.as_int(args[1], node)
        f = self.ctx.uf('str_zfill', S.sort, T.I, S.sort)
        return VSeq(f(s.t, n), 'str')

    def bi_str__isdigit(self, I, args, kw, node):
        f = self.ctx.uf('str_isdigit', S.sort, T.B)
        return VBool(f(args[0].t))

    # ---- struct / binascii / zlib -----------------------------------------------------------------
    def bi_struct__pack(self, I, args, kw, node):
        fmt = self.ctx.const_str(I, args[0])
        if fmt in ('>I', '!I'):
            n = I.as_int(args[1], node)
            I.require(z3.And(0 <= n, n < 2 ** 32), 'struct.pack-range', node, exc='struct.error')
            bs = [n / (2 ** 24), (n / 65536) % 256, (n / 256) % 256, n % 256]
            return VSeq(S.lit(bs), 'bytes')
        if fmt in ('>H', '!H'):
            n = I.as_int(args[1], node)
            I.require(z3.And(0 <= n, n < 65536), 'struct.pack-range', node, exc='struct.error')
            return VSeq(S.lit([n / 256, n % 256]), 'bytes')
        if fmt in ('>Q', '!Q'):
            n = I.as_int(args[1], node)
            I.require(z3.And(0 <= n, n < 2 ** 64), 'struct.pack-range', node, exc='struct.error')
            return VSeq(S.lit([z3.simplify((n / (2 ** (8 * k))) % 256) for k in range(7, -1, -1)]), 'bytes')
        if fmt in ('B', '<B', '>B', '!B'):
            n = I.as_int(args[1], node)
            I.require(z3.And(0 <= n, n < 256), 'struct.pack-range', node, exc='struct.error')
            return VSeq(S.lit([n]), 'bytes')
        raise Unsupported('struct.pack(%r)' % fmt, node)

    def bi_struct__unpack(self, I, args, kw, node):
        fmt = self.ctx.const_str(I, args[0])
        s = I.seq_of(args[1], node)
        if s.kind not in ('bytes', 'bytearray'):
            I.require(False, 'struct.unpack-needs-bytes', node, exc='TypeError')
            raise exc('TypeError')
        if fmt in ('>I', '!I'):
            I.require(S.Len(s.t) == 4, 'struct.unpack-length', node, exc='struct.error')
            ix = lambda k: S.Idx(s.t, z3.IntVal(k))
            return VTuple([VInt(ix(0) * (2 ** 24) + ix(1) * 65536 + ix(2) * 256 + ix(3))])
        if fmt in ('>H', '!H'):
            I.require(S.Len(s.t) == 2, 'struct.unpack-length', node, exc='struct.error')
            return VTuple([VInt(S.Idx(s.t, 0) * 256 + S.Idx(s.t, 1))])
        raise Unsupported('struct.unpack(%r)' % fmt, node)

    def bi_binascii__hexlify(self, I, args, kw, node):
        s = I.seq_of(args[0], node)
        if s.kind not in ('bytes', 'bytearray'):
            I.require(False, 'hexlify-needs-bytes', node, exc='TypeError')
            raise exc('TypeError')
        return VSeq(HexL(s.t), 'bytes')

    def bi_binascii__unhexlify(self, I, args, kw, node):
        s = I.seq_of(args[0], node)
        # modelled for exactly two hex digits (the only use under contract)
        I.require(S.Len(s.t) == 2, 'unhexlify-two-digits-only-modelled', node)
        d = []
        for k in (0, 1):
            c = S.Idx(s.t, z3.IntVal(k))
            ok = z3.Or(z3.And(48 <= c, c <= 57), z3.And(65 <= c, c <= 70), z3.And(97 <= c, c <= 102))
            I.require(ok, 'unhexlify-digit', node, exc='binascii.Error')
            d.append(z3.If(c <= 57, c - 48, z3.If(c <= 70, c - 55, c - 87)))
        return VSeq(S.Unit(d[0] * 16 + d[1]), 'bytes')

    def bi_zlib__decompress(self, I, args, kw, node):
        s = I.seq_of(args[0], node)
        if s.kind not in ('bytes', 'bytearray'):
            I.require(False, 'zlib-needs-bytes', node, exc='TypeError')
            raise exc('TypeError')
        if len(args) > 1 or kw:
            # decompress(data, wbits, ...): another function of the data (raw deflate / gzip / other window), not the zlib-stream inflate
            w = I.as_int(args[1], node) if len(args) > 1 else I.as_int(list(kw.values())[0], node)
            r = z3.Function('zlib_decompress_wbits', S.sort, T.I, S.sort)(s.t, w)
            I.assume(T.IsBytes(r))
            return VSeq(r, 'bytes')
        I.require(InflateOk(s.t), 'zlib-valid-stream', node, exc='zlib.error')
        r = Inflate(s.t)
        I.assume(T.IsBytes(r))
        return VSeq(r, 'bytes')

    def bi_math__floor(self, I, args, kw, node):
        v = I.unwrap(args[0], node)
        if isinstance(v, VRat):
            return VInt(v.num / v.den)
        if isinstance(v, VInt):
            return v
        raise Unsupported('math.floor', node)

    # ---- dict methods: delegated to the context (concrete / symbolic maps) ---------------------
    def bi_dict__items(self, I, args, kw, node):
        return self.ctx.dict_items(I, args[0], node)

    def bi_dict__keys(self, I, args, kw, node):
        return self.ctx.dict_keys(I, args[0], node)

    def bi_dict__values(self, I, args, kw, node):
        return self.ctx.dict_values(I, args[0], node)

    def bi_dict__get(self, I, args, kw, node):
        d, k = args[0], args[1]
        default = args[2] if len(args) > 2 else NONE
        has = self.ctx.dict_has(I, d, k, node)
        if I.branch(has):
            return self.ctx.dict_get(I, d, k, node)
        return default

    def bi_dict__pop(self, I, args, kw, node):
        d, k = args[0], args[1]
        has = self.ctx.dict_has(I, d, k, node)
        if I.branch(has):
            v = self.ctx.dict_get(I, d, k, node)
            self.ctx.dict_del(I, d, k, node)
            return v
        if len(args) > 2:
            return args[2]
        I.require(False, 'dict.pop-missing', node, exc='KeyError')
        raise exc('KeyError')

    def bi_dict__update(self, I, args, kw, node):
        d, o = args[0], I.unwrap(args[1], node)
        if I.is_dict(o) and isinstance(I.cell(o).content, list):
            for k, v in I.cell(o).content:
                self.ctx.dict_set(I, d, k, v, node)
            return NONE
        raise Unsupported('dict.update with symbolic dict', node)

    def bi_dict__copy(self, I, args, kw, node):
        c = I.cell(args[0])
        return I.alloc(HDict(list(c.content) if isinstance(c.content, list) else c.content))

    def bi_copy__deepcopy(self, I, args, kw, node):
        return self.ctx.deepcopy(I, args[0], node)

    def bi_copy__copy(self, I, args, kw, node):
        return self.ctx.deepcopy(I, args[0], node, shallow=True)


class VMapped(V):
    def __init__(self, fn, seq):
        self.fn, self.seq = fn, seq
