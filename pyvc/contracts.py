"""Sidecar loader: parses /verif/contracts/*.py and /verif/spec/*.py with ast (never imports them)."""
import ast
import os

HERE = os.path.dirname(os.path.dirname(os.path.abspath(__file__)))


class Ty:
    def __init__(self, name, args=()):
        self.name = name
        self.args = tuple(args)

    def __repr__(self):
        return self.name + ('(%s)' % ', '.join(map(repr, self.args)) if self.args else '')

    def __eq__(self, o):
        return isinstance(o, Ty) and self.name == o.name and self.args == o.args

    def __hash__(self):
        return hash((self.name, self.args))


def parse_type(node):
    if node is None:
        return Ty('Any')
    if isinstance(node, ast.Constant) and node.value is None:
        return Ty('NoneT')
    if isinstance(node, ast.Name):
        return Ty(node.id)
    if isinstance(node, ast.Call) and isinstance(node.func, ast.Name):
        args = []
        for a in node.args:
            if isinstance(a, ast.Constant) and isinstance(a.value, (str, int)):
                args.append(a.value)
            else:
                args.append(parse_type(a))
        return Ty(node.func.id, args)
    raise ValueError('bad type annotation: %s' % ast.dump(node))


class Contract:
    def __init__(self, file, qualname, node, sidecar, kw):
        self.file, self.qualname, self.node, self.sidecar = file, qualname, node, sidecar
        self.kw = kw
        self.params = []
        a = node.args
        for p in a.args:
            self.params.append((p.arg, parse_type(p.annotation)))
        self.ret = parse_type(node.returns) if node.returns is not None else None
        self.clauses = []       # (kind, Call node)
        self.body = []          # scenarios only: the statements that are executed
        CL = ('requires', 'ensures', 'modifies', 'raises', 'propagates', 'decreases', 'partial', 'hint', 'hint_exit', 'emits')
        for st in node.body:
            if file == '<scenario>' and not (isinstance(st, ast.Expr) and isinstance(st.value, ast.Call) and isinstance(st.value.func, ast.Name)
                                             and st.value.func.id in CL) and not (isinstance(st, ast.Expr) and isinstance(st.value, ast.Constant)):
                self.body.append(st)
                continue
            if isinstance(st, ast.Expr) and isinstance(st.value, ast.Call) and isinstance(st.value.func, ast.Name):
                self.clauses.append((st.value.func.id, st.value))
            elif isinstance(st, ast.Expr) and isinstance(st.value, ast.Constant):
                continue
            elif isinstance(st, ast.Pass):
                continue
            else:
                raise ValueError('contract %s: unsupported statement %s' % (qualname, ast.unparse(st)))
        self.assumed = bool(kw.get('assumed'))
        self.trusted_reason = kw.get('reason', '')

    @property
    def key(self):
        return (self.file, self.qualname)

    def of(self, kind):
        return [c for k, c in self.clauses if k == kind]


class LoopSpec:
    def __init__(self, file, qualname, index, node, sidecar):
        self.file, self.qualname, self.index, self.node, self.sidecar = file, qualname, index, node, sidecar
        self.params = [(p.arg, parse_type(p.annotation) if p.annotation is not None else None) for p in node.args.args]
        self.clauses = []
        for st in node.body:
            if isinstance(st, ast.Expr) and isinstance(st.value, ast.Call) and isinstance(st.value.func, ast.Name):
                self.clauses.append((st.value.func.id, st.value))
            elif isinstance(st, ast.Expr) and isinstance(st.value, ast.Constant):
                continue
            else:
                raise ValueError('loop spec: unsupported statement %s' % ast.unparse(st))

    def of(self, kind):
        return [c for k, c in self.clauses if k == kind]


class SpecFn:
    def __init__(self, node, sidecar, kw):
        self.name = node.name
        self.node = node
        self.sidecar = sidecar
        self.params = [(p.arg, parse_type(p.annotation)) for p in node.args.args]
        self.ret = parse_type(node.returns)
        self.kw = kw
        self.uninterpreted = bool(kw.get('uninterpreted'))
        self.recursive = any(isinstance(n, ast.Call) and isinstance(n.func, ast.Name) and n.func.id == node.name
                             for n in ast.walk(node))


class Lemma:
    def __init__(self, node, sidecar, kw):
        self.name = node.name
        self.node = node
        self.sidecar = sidecar
        self.kw = kw
        self.params = [(p.arg, parse_type(p.annotation)) for p in node.args.args]


class Sidecar:
    """One parsed sidecar / spec file."""

    def __init__(self, path, registry):
        self.path = path
        self.relpath = os.path.relpath(path, HERE)
        with open(path) as f:
            self.source = f.read()
        self.tree = ast.parse(self.source, filename=path)
        self.consts = {}
        self.registry = registry
        self.imported = []
        self._scan()

    def _deco(self, d):
        if isinstance(d, ast.Name):
            return d.id, [], {}
        if isinstance(d, ast.Call) and isinstance(d.func, ast.Name):
            return d.func.id, d.args, {k.arg: k.value for k in d.keywords}
        return None, [], {}

    def _const(self, node):
        if isinstance(node, ast.Constant):
            return node.value
        if isinstance(node, ast.Name) and node.id in self.consts:
            return self.consts[node.id]
        if isinstance(node, ast.Name) and node.id in ('True', 'False'):
            return node.id == 'True'
        raise ValueError('not a constant: %s' % ast.unparse(node))

    def _scan(self):
        R = self.registry
        for st in self.tree.body:
            if isinstance(st, ast.ImportFrom):
                mod = st.module or ''
                if mod.startswith('spec.') or mod.startswith('contracts.'):
                    p = os.path.join(HERE, mod.replace('.', '/') + '.py')
                    sc = R.load(p)
                    self.imported.append(sc)
                    for k, v in sc.consts.items():
                        self.consts.setdefault(k, v)
                continue
            if isinstance(st, ast.Import):
                continue
            if isinstance(st, ast.Assign) and len(st.targets) > 1:
                continue            # native-only aliases
            if isinstance(st, ast.Assign) and len(st.targets) == 1 and isinstance(st.targets[0], ast.Name):
                try:
                    self.consts[st.targets[0].id] = self._const(st.value)
                except ValueError:
                    self.consts[st.targets[0].id] = ('expr', st.value)
                continue
            if isinstance(st, ast.FunctionDef):
                handled = False
                for d in st.decorator_list:
                    name, args, kw = self._deco(d)
                    kwc = {}
                    for k, v in kw.items():
                        try:
                            kwc[k] = self._const(v)
                        except ValueError:
                            kwc[k] = v
                    if name == 'contract':
                        c = Contract(self._const(args[0]), self._const(args[1]), st, self, kwc)
                        R.contracts[c.key] = c
                        handled = True
                    elif name == 'scenario':
                        # a sequence of calls to functions under contract, executed symbolically against those contracts:
                        # "a lemma over the contracts" whose statement is the ensures clauses
                        c = Contract('<scenario>', st.name, st, self, kwc)
                        R.contracts[c.key] = c
                        handled = True
                    elif name == 'loop':
                        l = LoopSpec(self._const(args[0]), self._const(args[1]), self._const(args[2]), st, self)
                        R.loops[(l.file, l.qualname, l.index)] = l
                        handled = True
                    elif name == 'spec':
                        R.specs[st.name] = SpecFn(st, self, kwc)
                        handled = True
                    elif name == 'lemma':
                        R.lemmas[st.name] = Lemma(st, self, kwc)
                        R.lemma_order.append(st.name)
                        handled = True
                if not handled:
                    R.helpers[st.name] = (st, self)
                continue
            if isinstance(st, ast.Expr) and isinstance(st.value, ast.Call) and isinstance(st.value.func, ast.Name):
                call = st.value
                fn = call.func.id
                kw = {k.arg: k.value for k in call.keywords}
                if fn == 'fields':
                    cname = self._const(call.args[0])
                    R.fields.setdefault(cname, {})
                    for k, v in kw.items():
                        if k == '__file__':
                            R.fields[cname][k] = self._const(v)
                        else:
                            R.fields[cname][k] = parse_type(v)
                elif fn == 'opaque':
                    key = (self._const(call.args[0]), self._const(call.args[1]))
                    d = {}
                    for k, v in kw.items():
                        d[k] = parse_type(v) if k == 'returns' else self._const(v)
                    R.opaques[key] = d
                elif fn == 'inline':
                    R.inlines.add((self._const(call.args[0]), self._const(call.args[1])))
                elif fn == 'event_sort':
                    R.event_sorts[self._const(call.args[0])] = self._const(call.args[1])
                elif fn == 'extern':
                    # extern("dotted.name", event=..., raises=..., returns=Ty)
                    d = {}
                    for k, v in kw.items():
                        d[k] = parse_type(v) if k == 'returns' else self._const(v)
                    R.externs[self._const(call.args[0])] = d
                continue
            if isinstance(st, ast.Expr) and isinstance(st.value, ast.Constant):
                continue
            if isinstance(st, (ast.If, ast.ClassDef)):
                continue            # native-only: `if __name__ == '__main__'` blocks, stand-in classes of assumed externals
            raise ValueError('%s: unsupported top-level statement: %s' % (self.path, ast.unparse(st)[:80]))


class Registry:
    def __init__(self):
        self.contracts = {}
        self.loops = {}
        self.specs = {}
        self.lemmas = {}
        self.lemma_order = []
        self.fields = {}
        self.opaques = {}
        self.externs = {}
        self.event_sorts = {}
        self.inlines = set()
        self.helpers = {}
        self.sidecars = {}

    def load(self, path):
        path = os.path.abspath(path)
        if path not in self.sidecars:
            self.sidecars[path] = None
            self.sidecars[path] = Sidecar(path, self)
        return self.sidecars[path]
